#!/usr/bin/env python3
"""Regenerates the generated appendices of DESIGN.md (between the BEGIN/END
markers) from /verif/mutants/INDEX.json, /verif/seeded/*/meta.json and
/verif/refactors/*/meta.json."""
import json, glob, os, re, collections

V = '/verif'

def esc(s):
    return s.replace('|', '\\|').replace('\n', ' ')

def rule_of(line):
    m = re.search(r'\[(\S+?)\]', line)
    return m.group(1) if m else '?'

def appendix_a():
    idx = json.load(open(f'{V}/mutants/INDEX.json'))
    by = collections.OrderedDict()
    for m in idx:
        if m.get('status') != 'ok':
            continue
        by.setdefault(m['prop'], []).append(m)
    out = ['| property | mutants (`/verif/mutants/<property>-<name>.patch`) |', '|---|---|']
    for p, ms in by.items():
        out.append(f"| {p} | " + ', '.join(f"`{m['name']}`" + ('' if m.get('existing_tests_pass', True) else '†') for m in ms) + ' |')
    out.append('')
    out.append('† the existing tests notice this one too (kept because the rule must still fire); all others keep the 129 tests green.')
    return '\n'.join(out)

def appendix_b():
    out = ['| seed | change (as described by its author) | reported by | first report |', '|---|---|---|---|']
    for f in sorted(glob.glob(f'{V}/seeded/*/meta.json')):
        m = json.load(open(f))
        sid = os.path.basename(os.path.dirname(f))
        caught = [k for k, v in m.get('caught_by', {}).items() if v]
        checks = m.get('confirmed_in_scratch_worktree', {}).get('checks', {})
        first = ''
        own = m.get('property')
        for c in [own] + caught:
            reps = checks.get(c, {}).get('reports', [])
            if reps:
                first = rule_of(reps[0])
                break
        summ = m.get('summary', '')
        summ = summ if len(summ) < 230 else summ[:227] + '…'
        out.append(f"| {sid} | {esc(summ)} | {', '.join(caught) or '**missed**'} | `{first}` |")
    return '\n'.join(out)

def appendix_c():
    out = ['| refactor | change | checks run | alarms |', '|---|---|---|---|']
    for f in sorted(glob.glob(f'{V}/refactors/*/meta.json')):
        m = json.load(open(f))
        rid = os.path.basename(os.path.dirname(f))
        res = m.get('result', {})
        checks = res.get('checks', {})
        fa = [c for c, v in checks.items() if v.get('exit') != 0]
        rules = []
        for c in fa:
            for l in checks[c].get('reports', [])[:2]:
                rules.append(rule_of(l))
        summ = m.get('summary', '')
        summ = summ if len(summ) < 150 else summ[:147] + '…'
        out.append(f"| {rid} | {esc(summ)} | {', '.join(checks)} | {('**' + ', '.join(sorted(set(rules))) + '**') if fa else 'none'} |")
    return '\n'.join(out)

def main():
    p = f'{V}/DESIGN.md'
    s = open(p).read()
    for tag, gen in (('A', appendix_a), ('B', appendix_b), ('C', appendix_c)):
        b, e = f'<!-- BEGIN GENERATED {tag} -->', f'<!-- END GENERATED {tag} -->'
        if b in s:
            i, j = s.index(b) + len(b), s.index(e)
            s = s[:i] + '\n' + gen() + '\n' + s[j:]
    open(p, 'w').write(s)

main()
