#!/usr/bin/env python3
"""verifyseed.py <seed-dir> <Cxx> <A|B> [--checks C01,C02] — confirms a seeded change in a scratch
worktree of /repo (clean: demo passes; patched: builds, existing tests pass, demo fails), runs the
named quick checks against it, and stores it under /verif/seeded/<id>-<X>/."""
import json, os, re, shutil, subprocess, sys, tempfile

ENV = dict(os.environ, GOFLAGS="-mod=mod", GOPROXY="off", GOSUMDB="off", GOTOOLCHAIN="local")

def sh(cmd, cwd, timeout=900):
    p = subprocess.run(cmd, shell=True, cwd=cwd, env=ENV, stdout=subprocess.PIPE, stderr=subprocess.STDOUT, text=True, timeout=timeout)
    return p.returncode, p.stdout

def main():
    seed, prop, which = sys.argv[1], sys.argv[2], sys.argv[3]
    checks = [prop]
    if "--checks" in sys.argv:
        checks = sys.argv[sys.argv.index("--checks") + 1].split(",")
    meta = json.load(open(os.path.join(seed, "meta.json")))
    demo_cmd = meta["demo_cmd"]
    wt = tempfile.mkdtemp(prefix="sv-", dir="/tmp")
    os.rmdir(wt)
    res = {"ran": []}
    try:
        rc, out = sh(f"git -C /repo worktree add -q --detach {wt} HEAD", "/")
        assert rc == 0, out
        os.makedirs(os.path.join(wt, "_seed"))
        shutil.copytree(seed, os.path.join(wt, "_seed", which))
        copies = re.findall(r"cp\s+(?:-r\s+)?(\S+)\s+(\S+)", demo_cmd)
        def remove_demo():
            for src, dst in copies:
                path = os.path.join(wt, dst, os.path.basename(src.rstrip("/"))) if dst.endswith("/") or os.path.isdir(os.path.join(wt, dst)) else os.path.join(wt, dst)
                if os.path.isdir(path):
                    shutil.rmtree(path)
                elif os.path.exists(path):
                    os.remove(path)
        # (a) clean tree: demo passes
        rc, out = sh(demo_cmd, wt)
        res["clean_demo_passes"] = rc == 0
        res["ran"].append({"step": "a: demo on clean tree", "cmd": demo_cmd, "exit": rc})
        remove_demo()
        # (b) patched
        rc, out = sh(f"git apply _seed/{which}/patch.diff", wt)
        res["patch_applies"] = rc == 0
        if rc != 0:
            res["error"] = out[-400:]
        else:
            rc, out = sh("go build ./...", wt)
            res["builds"] = rc == 0
            rc, out = sh("go test -vet=off -count=1 ./...", wt)
            res["existing_tests_pass"] = rc == 0
            res["ran"].append({"step": "b: go build ./... && go test -vet=off -count=1 ./... (existing tests only)", "exit": rc})
            rc, out = sh(demo_cmd, wt)
            res["patched_demo_fails"] = rc != 0
            res["ran"].append({"step": "b: demo with the change applied", "cmd": demo_cmd, "exit": rc, "tail": out[-300:]})
            remove_demo()
            # the static checks against the patched scratch tree
            caught = {}
            for c in checks:
                rc, out = sh(f"/verif/bin/prismcheck -property {c} -repo {wt} -noevidence", "/verif")
                lines = [l.strip() for l in out.splitlines() if l.strip().startswith(("VIOLATED", "UNDECIDED"))]
                caught[c] = {"exit": rc, "reports": [l[:300] for l in lines[:3]]}
            res["checks"] = caught
    finally:
        sh(f"git -C /repo worktree remove --force {wt}", "/")
        shutil.rmtree(wt, ignore_errors=True)
    ok = res.get("clean_demo_passes") and res.get("patch_applies") and res.get("builds") and res.get("existing_tests_pass") and res.get("patched_demo_fails")
    res["confirmed"] = bool(ok)
    print(json.dumps(res, indent=1))
    if ok:
        dest = f"/verif/seeded/{prop}-{which}"
        if os.path.exists(dest):
            shutil.rmtree(dest)
        os.makedirs(dest)
        shutil.copy(os.path.join(seed, "patch.diff"), dest)
        shutil.copytree(os.path.join(seed, "demo"), os.path.join(dest, "demo"))
        meta_out = {
            "property": prop,
            "origin": "independent sub-agent given only the property text and a scratch worktree",
            "summary": meta.get("summary"),
            "needs_to_manifest": meta.get("manifests_when"),
            "files_changed": meta.get("files_changed"),
            "demo_cmd": demo_cmd.replace(f"_seed/{which}/", f"/verif/seeded/{prop}-{which}/"),
            "confirmed_in_scratch_worktree": res,
            "repo_head": subprocess.run("git -C /repo rev-parse --short HEAD", shell=True, stdout=subprocess.PIPE, text=True).stdout.strip(),
            "caught_by": {c: (v["exit"] != 0) for c, v in res.get("checks", {}).items()},
        }
        json.dump(meta_out, open(os.path.join(dest, "meta.json"), "w"), indent=1)
    sys.exit(0 if ok else 1)

main()
