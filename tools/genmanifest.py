#!/usr/bin/env python3
"""Regenerates /verif/MANIFEST.json from the table below (kept next to the checker so that
claims, levels and not_applicable reasons are edited in one place)."""
import json, subprocess, sys

BIN = "/verif/bin/prismcheck"
SETUP = "cd /verif/checker && GOFLAGS=-mod=vendor GOPROXY=off GOSUMDB=off GOTOOLCHAIN=local GOWORK=off CGO_ENABLED=0 go build -o /verif/bin/prismcheck ."

# id -> (category, technique, text, note, design_ref)
CLAIMS = {
 "C07": ("proof", "SSA use-set / ownership + dominance analysis (go/ssa) of the four Load functions",
   "Every obligation that, together with the contracts of io.TeeReader, bufio.Reader, bytes.Buffer and io.MultiReader, entails 'the returned stream replays the complete input on every path' is discharged on the SSA form of the current tree: r flows only into TeeReader(r,B) and MultiReader(B,r), B is fresh with those two uses, the parser sees only bufio(tee), every return yields that MultiReader, a recovering defer dominates everything that can panic, no goroutines; autometa chains the previous loader's stream and never leaves its loop with a stale stream. This is a proof relative to the named library contracts, for all inputs, truncations and read schedules, which no finite test sample can give.",
   "Trusted: go/types+go/ssa (x/tools v0.29.0), the use-set analysis, contracts of io.TeeReader/bufio/bytes.Buffer/io.MultiReader, and that a failing source re-reports its error. Not decided: behaviour of caller-supplied readers that violate io.Reader.", "DESIGN.md §4 C07"),
 "C08": ("other", "call-site classification by resolved callee and receiver static type (go/ssa), error-use analysis",
   "Structural necessary-and-nearly-sufficient condition: no stream byte in meta/... is obtained through a single Read on a reader that may return short counts; all reads go through io.ReadFull / io.CopyN / ReadByte helpers whose result depends on the byte sequence only; no read primitive's error is dropped; binary.ReadU* are ReadByte-only; no type assertion exposes buffering state. Decides every call site (not sampled schedules). It does not decide the library primitives themselves.",
   "Trusted: bufio, io.ReadFull, io.CopyN, compress/zlib obey the io.Reader contract. A hand-written correct read loop over Read would be flagged (documented strictness).", "DESIGN.md §4 C08"),
 "C16": ("proof", "abstract interpretation of go/ssa with an exact bit-provenance domain over a symbolic byte stream",
   "readHeader, readDateTimeNumber, the binary.ReadU* helpers and Version.String are abstractly interpreted over a symbolic 128-byte stream; on the unique success path each header field consists of exactly the input bits ICC.1:2010 §7.2 assigns to it (25 rows incl. flag bits 0/1, BCD nibbles, 'acsp' requirement, 128 bytes consumed, reserved bytes unused), and every other path returns an error which ReadProfile propagates. The domain is exact on every operator that occurs, so each discharged row covers all 2^1024 headers — the walking-ones argument done symbolically.",
   "Trusted: go/ssa, the interpreter (checker/sym*.go), sequential semantics of ReadByte/io.ReadFull, time.Date, fmt %d. The String() renderings of the enumerated field types are outside the property.", "DESIGN.md §4 C16"),
 "C19": ("proof", "SSA pattern obligations on autometa.Load + re-evaluated C07 premises",
   "Loader table identity and order, whole-table iteration in index order, stream chaining phi{r,nextStream}, verbatim success return, exhaustion return, no stale-stream exit, no other use of r; plus C07's obligations re-evaluated on the same tree. Together they entail that the auto loader returns exactly what the first succeeding specific loader returns on the complete input, for every input.",
   "Trusted: as C07. The equality of a specific loader's behaviour when called through the table vs directly follows from function identity (resolved *ssa.Function), not from names.", "DESIGN.md §4 C19"),
}

PENDING_REASON = "check not built yet in this revision (static rules designed in DESIGN.md §4; see git log) — not claimed until the checker for it is committed"

def main():
    ids = ["C%02d" % i for i in range(1, 21)]
    checks, na = [], []
    for i in ids:
        if i in CLAIMS:
            cat, tech, text, note, ref = CLAIMS[i]
            checks.append({
              "property_id": i,
              "quick_cmd": f"{BIN} -property {i} -tier quick",
              "thorough_cmd": f"{BIN} -property {i} -tier thorough",
              "evidence_file": f"/verif/evidence/{i}.json",
              "replay_cmd_template": BIN + " -replay {path}",
              "engine": "prismcheck",
              "level_claimed": {"category": cat, "text": text, "design_ref": ref},
              "level_note": note,
              "technique": "static analysis: " + tech,
            })
        else:
            na.append({"property_id": i, "reason": NA.get(i, PENDING_REASON)})
    m = {
      "version": 1,
      "setup_cmd": SETUP,
      "hooks": {"guard": "verif", "enable": "none needed: static analysis reads /repo's sources as they are; no hook code exists", "baseline_off_cmd": "cd /repo && GOFLAGS=-mod=mod GOPROXY=off GOSUMDB=off go test -vet=off -count=1 ./...", "source_commits": [], "add_only": True},
      "engines": [{"name": "prismcheck", "path": "/verif/checker", "serves_properties": sorted(CLAIMS), "kind_free_text": "repository-specific static analyser: go/packages + go/types + go/ssa loader; Engine F (use-set, dominance, who-may-write, taint) and an SSA abstract interpreter (rational-function forms, bit provenance, stream position)"}],
      "checks": checks,
      "not_applicable": na,
      "notes": "All checks are static: they load /repo's current working tree, type-check it and inspect go/ssa; no prism code is executed. Genuine defects found are repaired in /repo as 'fix:' commits and listed in /verif/known-findings.json.",
    }
    json.dump(m, open("/verif/MANIFEST.json", "w"), indent=1)
    print("claimed", len(checks), "not_applicable", len(na))

NA = {}
if __name__ == "__main__":
    main()
