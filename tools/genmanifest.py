#!/usr/bin/env python3
"""Regenerates /verif/MANIFEST.json from the table below (kept next to the checker so that
claims, levels and not_applicable reasons are edited in one place)."""
import json, subprocess, sys

BIN = "/verif/bin/prismcheck"
SETUP = "cd /verif/checker && GOFLAGS=-mod=vendor GOPROXY=off GOSUMDB=off GOTOOLCHAIN=local GOWORK=off CGO_ENABLED=0 go build -o /verif/bin/prismcheck ."

# id -> (category, technique, text, note, design_ref)
CLAIMS = {
 "C07": ("proof", "SSA use-set / ownership + dominance analysis (go/ssa) of the four Load functions",
   "Every obligation that, together with the contracts of io.TeeReader, bufio.Reader, bytes.Buffer and io.MultiReader, entails 'the returned stream replays the complete input on every path' is discharged on the SSA form of the current tree: r flows only into TeeReader(r,B) and MultiReader(B,r), B is fresh with those two uses, the parser sees only bufio(tee), every return yields that MultiReader, a recovering defer dominates everything that can panic, no goroutines; autometa chains the previous loader's stream and never leaves its loop with a stale stream. This is a proof relative to the named library contracts, for all inputs, truncations and read schedules, which no finite test sample can give.",
   "Trusted: go/types+go/ssa (x/tools v0.29.0), the use-set analysis, contracts of io.TeeReader/bufio/bytes.Buffer/io.MultiReader, and that a failing source re-reports its error. Not decided: behaviour of caller-supplied readers that violate io.Reader.", "DESIGN.md §4 C07"),
 "C08": ("other", "call-site classification by resolved callee and receiver static type (go/ssa), error-use analysis",
   "Structural necessary-and-nearly-sufficient condition: no stream byte in meta/... is obtained through a single Read on a reader that may return short counts; all reads go through io.ReadFull / io.CopyN / ReadByte helpers whose result depends on the byte sequence only; no read primitive's error is dropped; binary.ReadU* are ReadByte-only; no type assertion exposes buffering state. Decides every call site (not sampled schedules). It does not decide the library primitives themselves.",
   "Trusted: bufio, io.ReadFull, io.CopyN, compress/zlib obey the io.Reader contract. A hand-written correct read loop over Read would be flagged (documented strictness).", "DESIGN.md §4 C08"),
 "C16": ("proof", "abstract interpretation of go/ssa with an exact bit-provenance domain over a symbolic byte stream",
   "readHeader, readDateTimeNumber, the binary.ReadU* helpers and Version.String are abstractly interpreted over a symbolic 128-byte stream; on the unique success path each header field consists of exactly the input bits ICC.1:2010 §7.2 assigns to it (25 rows incl. flag bits 0/1, BCD nibbles, 'acsp' requirement, 128 bytes consumed, reserved bytes unused), and every other path returns an error which ReadProfile propagates. The domain is exact on every operator that occurs, so each discharged row covers all 2^1024 headers — the walking-ones argument done symbolically.",
   "Trusted: go/ssa, the interpreter (checker/sym*.go), sequential semantics of ReadByte/io.ReadFull, time.Date, fmt %d. The String() renderings of the enumerated field types are outside the property.", "DESIGN.md §4 C16"),
 "C19": ("proof", "SSA pattern obligations on autometa.Load + re-evaluated C07 premises",
   "Loader table identity and order, whole-table iteration in index order, stream chaining phi{r,nextStream}, verbatim success return, exhaustion return, no stale-stream exit, no other use of r; plus C07's obligations re-evaluated on the same tree. Together they entail that the auto loader returns exactly what the first succeeding specific loader returns on the complete input, for every input.",
   "Trusted: as C07. The equality of a specific loader's behaviour when called through the table vs directly follows from function identity (resolved *ssa.Function), not from names.", "DESIGN.md §4 C19"),
 "C01": ("other", "abstract interpretation of go/ssa to exact piecewise rational forms compared with the published EOTFs; loop-summary of the table builders; who-may-write on table variables",
   "Decides, for every code at once, the structural part of C01: the decode curves equal the published transfer functions constant by constant (thresholds inside the window where the published branches agree to 1e-7, Pow formed in float64), the table builders sample curve(i/(N-1)) at every index, each table variable is filled once from its package's own curve and never written elsewhere, the decoders return table[v] unmodified, Display P3 uses sRGB's tables, constructors map channels positionally. The 3e-7 / exact-endpoints / monotone / 8-vs-16-bit clauses then follow by the a-priori rounding argument in DESIGN.md. It does not measure any table entry.",
   "Trusted: go/ssa, the interpreter, math.Pow < 1 ulp, the transfer-function tables embedded in the checker. Not decided: measured numeric error.", "DESIGN.md §4 C01"),
 "C02": ("other", "abstract interpretation of go/ssa to exact piecewise forms (quantisers, OETFs), writer/reader table agreement, who-may-convert scan",
   "Decides for every float32 at once: quantisers clamp the float before converting (so ±Inf/huge values clip), round by Trunc(v*MAX+1/2) in a type wide enough; encode curves equal the published OETFs; builders fill all N entries with quantiser(curve(i/(N-1))); encoders index exactly that table with a clamping quantiser whose MAX is N-1 (index always in range: no panic); no other float-to-integer conversion exists in the colour packages; all colour types route through the right tables. Monotonicity and the half-step/half-code accuracy then follow by composition.",
   "Trusted: go/ssa, the interpreter, math.Pow monotone. Assumes uintN(NaN)=0 (amd64/arm64). Not decided: measured error, NaN on other architectures.", "DESIGN.md §4 C02"),
 "C03": ("other", "abstract interpretation of go/ssa to exact linear forms; exact rational arithmetic on the float32-rounded literals",
   "Extracts the 72 matrix coefficients and the 16 declared chromaticities and decides in exact arithmetic: both maps are homogeneous linear with no guard/clamp/fast path; declared chromaticities equal the published ones; M*(1,1,1) is the declared white; each column has its primary's chromaticity (together these determine M); Minv*M = M*Minv = I; tolerances = the property's 1e-6 minus the a-priori float32 forward bound. This covers all RGB/XYZ triples because the maps are proven linear.",
   "Trusted: go/ssa, the interpreter, published chromaticity tables. Not decided: the measured 2e-6 float32 round-trip figure.", "DESIGN.md §4 C03"),
 "C04": ("other", "exact rational evaluation of the 16 pipeline pairings from extracted matrices and the repository's own Bradford construction; re-evaluation of the stage rules",
   "Structural clauses only (stated plainly: per-pixel agreement with a float64 reference over 2^24x16 cases is numeric and NOT decided): for all 16 ordered pairs the composed matrix Minv_dst*A*M_src preserves the grey axis within 1e-5 and is the identity for src=dst; alpha is decoded as A/255 and re-encoded by the MAX-255 quantiser of the same value; encoders clip; and every stage rule the pipeline is made of (C01.curve, C02.*, C03.*, C12.*) is re-evaluated on the same tree.",
   "Trusted: as C01-C03, C12. Assumes callers compose the pipeline as the README documents.", "DESIGN.md §4 C04"),
 "C12": ("other", "rational-function normal forms over symbolic white points and symbolic Bradford matrices (go/ssa abstract interpretation)",
   "Bradford literals equal the published matrix (column-vector convention), bradfordInverse*bradfordForward = I exactly, AdaptBetweenXYZWhitePoints is identically Binv*diag((B d)/(B s))*B with no guard, the xyY variant is the XYZ variant of ColorFromXYY(args) in order, Apply is the plain linear map. White-to-white, identity, inverse, composition and linearity follow by algebra for every white-point pair.",
   "Trusted: go/ssa, the interpreter. Not decided: float rounding (float64 until the final float32), conditioning near zero cone responses.", "DESIGN.md §4 C12"),
 "C13": ("other", "piecewise exact forms of the Lab conversion compared with the CIE 1976 definition; exact-rational constants",
   "epsilon=216/24389 and kappa=24389/27 exactly (junction continuity is an exact identity), forward and inverse component functions and their guards equal the CIE definition, each component is divided/multiplied by the same axis of the reference white, the Y shortcut uses the same threshold, every fractional Pow is guarded by base > epsilon > 0 (no NaN). White->(100,0,0), a=b=0 on the white axis, monotone L and branchwise inversion follow by algebra.",
   "Trusted: go/ssa, the interpreter, math.Pow. Not decided: measured error (float64 arithmetic, one float32 rounding).", "DESIGN.md §4 C13"),
 "C14": ("other", "exact forms of every decoder/encoder and colour function (go/ssa abstract interpretation); table agreement of divisor and quantiser MAX",
   "Every decoder returns alpha = A/MAX and the zero colour for A == 0 and un-premultiplies by that same alpha; every encoder writes A = NormalisedToN(alpha) of the unscaled parameter with the same MAX; LineariseColor/EncodeColor pass the decoder's alpha to the encoder unchanged. Bit-identity of alpha for all 65,536 values follows (|MAX*fl(A/MAX)-A| < 1/2). The clause 'channel <= alpha stays valid after rounding' is NOT claimed (no static argument in reach).",
   "Trusted: go/ssa, the interpreter.", "DESIGN.md §4 C14"),
 "C20": ("other", "polynomial identities over symbolic matrix entries (go/ssa abstract interpretation + exact normal forms)",
   "MulV, MulM, Transpose, Dot, MulS equal the textbook polynomials; Inverse satisfies M*N = N*M = I as 18 identities of rational functions with the Leibniz determinant as the only guard (panic iff det == 0); the primaries generator maps (1,1,1) to the white XYZ and each column is parallel to its primary for all 12 chromaticity inputs; the from-matrix is Inverse(to-matrix) on the same arguments. Decides the algebra for every input; float64 rounding of these identities is not analysed.",
   "Trusted: go/ssa, the interpreter, polynomial arithmetic. Not decided: the 1e-9*cond figure, exact-cancellation behaviour for exactly singular float inputs.", "DESIGN.md §4 C20"),
 "C10": ("other", "abstract interpretation of one generic iteration of every worker closure (go/ssa): loop-bound/stride facts, write-target analysis, bit provenance of stored bytes",
   "For every pixel index and every parallelism at once: the four worker closures of TransformImageColor stripe the source rectangle into residue classes of rows (a partition), write exactly the bytes of destination pixel p+offset (or one dst.Set) and nothing else, with the value transformColor(src.At(p)) laid out as the destination colour model's conversion; the dispatcher has a generic default arm; the eight Linearise/EncodeImage wrappers pass their own package's per-colour function with no shortcut. In-place safety and fast-path/generic agreement follow.",
   "Trusted: go/ssa, the interpreter's loop summaries, go-parallel's RunWorkers contract, image.PixOffset injectivity and Pix layouts. Not decided: dst smaller than src (excluded by the statement), exotic image wrappers' At vs RGBA64At.", "DESIGN.md §4 C10"),
 "C11": ("other", "program-wide who-may-write analysis on package-level variables + dominance of sync.Once.Do over every load (go/ssa); worker write-footprint analysis",
   "Memory-model argument decided on the SSA of the whole module: lazily initialised tables are written only inside a Once.Do closure and every load is dominated by Do on the same Once; all other package-level state is written only during initialisation; Once values are only Do receivers; worker closures write only pixels of their own rows and no captured variable; nothing reachable from the loaders writes shared state; no go statements. This covers all interleavings including concurrent first use, which a race-detector run samples only per observed schedule.",
   "Trusted: Go memory model for sync.Once and goroutine start/WaitGroup, go-parallel's contract. Not decided: races inside caller-supplied images/readers.", "DESIGN.md §4 C11"),
 "C15": ("other", "abstract interpretation of the three conversion helpers with type-switch paths forked and one generic iteration per worker closure; byte provenance vs the image/color conversion definitions",
   "For every pixel index and parallelism: identity arms return the same instance untouched; outputs are allocated with the input's Rect; workers stripe the rectangle (partition); byte shuffles are RGBA64->RGBA out[k]=in[2k], RGBA->RGBA64 out[2k]=out[2k+1]=in[k], NRGBA/YCbCr->RGBA64 SetRGBA64 of RGBA() positionally (A=65535 for YCbCr), YCbCr->NRGBA SetNRGBA of YCbCrToRGB with A=255, all at the same (j,i) for input and output; the input is never written; the fallback is exactly draw.Draw(out, out.Rect, img, out.Rect.Min, draw.Src).",
   "Trusted: image constructors return fresh images with Rect = argument, image/color conversion definitions, go-parallel. Not decided: equality with draw.Draw's own implementation on all stdlib types (a fact about image/draw), e.g. YCbCrToRGB vs YCbCr.RGBA()>>8.", "DESIGN.md §4 C15"),
 "C05": ("other", "bounded abstract interpretation of the three parsers over a symbolic byte stream with an exact bit-provenance domain (go/ssa); marker-table exhaustiveness against the standard",
   "On every explored success path of the PNG, JPEG and WebP parsers the stored width/height/bit depth consist of exactly the header bits the format specifications assign (IHDR BE32/BE32/byte after the 'IHDR' tag; SOF0/SOF2 Data[3:5], Data[1:3], Data[0]; VP8 14-bit LE fields behind 9D 01 2A, VP8L 14+14 bits behind 0x2F (+1), VP8X 24-bit LE (+1) with chunk length 10), required signatures are on the path, all fields are assigned from one header, PNG chunk headers are always read at chunk boundaries for every arm, every declared JPEG marker is routed to the stand-alone or length-carrying arm the standard prescribes with payload = length-2 read by a full-read primitive, Format is the package constant. This is the structural part of C05 (bit-for-bit provenance for all header values); agreement with image.DecodeConfig on real files is a runtime oracle and is NOT decided.",
   "Trusted: go/ssa, the interpreter (bounded exploration: <= 3 chunks/segments per path; the per-arm position algebra generalises it), sequential read primitives, layout tables from the specifications. Not decided: JPEG constructs outside the marker table (fill bytes, SOF1, DNL), CRC/chunk-order validation.", "DESIGN.md §4 C05"),
 "C06": ("other", "bounded abstract interpretation of the parsers (stream positions, event chains), who-may-write on the ICC fields, call-site classification of payload reads",
   "Bytes and error are never both set (who-may-write + setter forms); WebP: presence = bit 5 of the VP8X flags, payload = exactly the 'ICCP' chunk bytes in[38:38+len], absence gives (nil,nil), damage gives an error with dimensions kept; PNG: bytes = Bytes() of io.Copy(buffer, zlib.NewReader(chunk bytes after name+NUL+zero method byte)) reached only with both zlib errors nil, either error recorded, dimensions kept; JPEG: 12-byte identifier, slot = Data[12]-1 with Data[14:] under number != 0 / <= count guards, ascending assembly into one buffer, and a recorded error is never overwritten by data (sticky) - this last rule found a genuine defect, repaired in /repo; no payload is read with a bare Read.",
   "Trusted: go/ssa, the interpreter (bounded exploration), io.CopyN/io.Copy/zlib/bytes.Buffer contracts. Not decided: byte equality through bufio/zlib for multi-MiB payloads (library contracts).", "DESIGN.md §4 C06"),
 "C18": ("other", "exact stream-position algebra on explored parser paths (abstract interpretation) + CFG must-pass-through of the completeness test + flow rules on buffering",
   "Once the metadata is complete no further chunk/segment is read (path ends exactly at the end of the completing chunk; and in the CFG every completion point is followed by `if allMetadataExtracted() { break }` on every path back to the loop header); IDAT/IEND and SOS/EOI stop without further reads; exactly one bufio layer of at most 64 KiB and no read-to-EOF on the source; the WebP parser is loop-free and ends at the end of the header or right after the ICCP payload; reading a JPEG marker consumes exactly 2 or 4 bytes (no forward scanning).",
   "Trusted: go/ssa, the interpreter, bufio's read-ahead bound. Not decided: the measured byte count and the truncation clause (runtime quantities); damaged profiles are outside the statement.", "DESIGN.md §4 C18"),
 "C09": ("other", "guarded call-graph reachability for panics (recover frames + recognised bounds-check idioms), path-sensitive allocation-size analysis on the abstract interpretation of the parsers, loop-progress and loop-allocation analyses (go/ssa)",
   "Structural necessary conditions for every input: every potentially panicking instruction reached from a public entry outside a recover-armed frame matches a sound guard idiom (incl. widen-before-add); on every explored path each make() length is constant, built from <= 16 input bits, or bounded by a preceding comparison with data actually held, with subtractions protected from wrap-around, and every make site is covered; no input-sized allocation inside an input-bounded loop (this rule found the quadratic mluc decode, repaired in /repo); every loop has a bounded trip count or makes stream progress with error exit; no reader is repositioned. Actual time/memory totals are runtime quantities and are not measured.",
   "Trusted: go/ssa, the interpreter (bounded exploration), recover semantics, bytes.Buffer/io.CopyN growth. Not decided: zlib expansion ratio (<= 1032:1 by format), stack depth, measured totals.", "DESIGN.md §4 C09"),
 "C17": ("other", "bounded abstract interpretation of the ICC tag-table reader and description parsers over symbolic bytes with exact positions (go/ssa)",
   "Tag count/entries are BE32 at 128 / 132+12j, each tag's bytes are tagData[offset-(132+12*count) : +size] under its own signature, the bulk read covers the furthest entry whichever it is, zero tags succeed; the description is entries['desc'] dispatched on BE32 data[0:4] ('desc'/'mluc'/error); text = data[12:12+count-1]; mluc record j at 16+j*recordSize with text = data[offset:offset+length] from the record's own offset/length fields, decoded as string(utf16.Decode(big-endian units)); English asked first, any record as fallback. Decided on all explored paths (<= 2 tags/records) with generic-iteration summaries for inner loops.",
   "Trusted: go/ssa, the interpreter, bytes.Reader/io.CopyN contracts, unicode/utf16. Not decided: utf16.Decode's surrogate handling, map iteration order, duplicate signatures.", "DESIGN.md §4 C17"),
}

PENDING_REASON = "check not built yet in this revision (static rules designed in DESIGN.md §4; see git log) — not claimed until the checker for it is committed"

def main():
    ids = ["C%02d" % i for i in range(1, 21)]
    checks, na = [], []
    for i in ids:
        if i in CLAIMS:
            cat, tech, text, note, ref = CLAIMS[i]
            checks.append({
              "property_id": i,
              "quick_cmd": f"{BIN} -property {i} -tier quick",
              "thorough_cmd": f"{BIN} -property {i} -tier thorough",
              "evidence_file": f"/verif/evidence/{i}.json",
              "replay_cmd_template": BIN + " -replay {path}",
              "engine": "prismcheck",
              "level_claimed": {"category": cat, "text": text, "design_ref": ref},
              "level_note": note,
              "technique": "static analysis: " + tech,
            })
        else:
            na.append({"property_id": i, "reason": NA.get(i, PENDING_REASON)})
    m = {
      "version": 1,
      "setup_cmd": SETUP,
      "hooks": {"guard": "verif", "enable": "none needed: static analysis reads /repo's sources as they are; no hook code exists", "baseline_off_cmd": "cd /repo && GOFLAGS=-mod=mod GOPROXY=off GOSUMDB=off go test -vet=off -count=1 ./...", "source_commits": [], "add_only": True},
      "engines": [{"name": "prismcheck", "path": "/verif/checker", "serves_properties": sorted(CLAIMS), "kind_free_text": "repository-specific static analyser: go/packages + go/types + go/ssa loader; Engine F (use-set, dominance, who-may-write, taint) and an SSA abstract interpreter (rational-function forms, bit provenance, stream position)"}],
      "checks": checks,
      "not_applicable": na,
      "notes": "All checks are static: they load /repo's current working tree, type-check it and inspect go/ssa; no prism code is executed. Genuine defects found are repaired in /repo as 'fix:' commits and listed in /verif/known-findings.json.",
    }
    json.dump(m, open("/verif/MANIFEST.json", "w"), indent=1)
    print("claimed", len(checks), "not_applicable", len(na))

NA = {}
if __name__ == "__main__":
    main()
