#!/usr/bin/env python3
"""mkmutants.py — (re)generates /verif/mutants/<property>-<name>.patch from the table below.

Each mutant is a single small edit to /repo's current sources (old text -> new text in one file).
The script applies it in a scratch worktree, checks that the tree still builds and whether the
existing test-suite still passes (recorded in mutants/INDEX.json; a mutant that breaks the suite is
kept but marked, it is still a valid detection witness), and writes the patch.
Usage: mkmutants.py [--no-tests]
"""
import json, os, subprocess, sys, tempfile, shutil

ENV = dict(os.environ, GOFLAGS="-mod=mod", GOPROXY="off", GOSUMDB="off", GOTOOLCHAIN="local")

M = []
def mut(prop, name, file, old, new, note=""):
    M.append(dict(prop=prop, name=name, file=file, old=old, new=new, note=note))

# ---- C01
mut("C01", "srgb-gamma-2.2", "srgb/srgb.go", "(float64(v)+0.055)/1.055, 2.4)", "(float64(v)+0.055)/1.055, 2.2)")
mut("C01", "lut8-divisor-256", "linear/lut/lut.go", "from8BitLUT[i] = linearise(float32(i) / 255)", "from8BitLUT[i] = linearise(float32(i) / 256)")
mut("C01", "p3-uses-adobe-table", "displayp3/color.go", "rgb, a := linear.RGBFromEncoded(c, srgb.From16Bit)", "rgb, a := linear.RGBFromEncoded(c, adobergb.From16Bit)", "needs import")
mut("C01", "from16bit-halved-index", "srgb/lut.go", "\treturn encoded16ToLinearLUT[v]\n}", "\treturn encoded16ToLinearLUT[v>>1]\n}")
mut("C01", "adobe-gamma-2.2", "adobergb/adobergb.go", "math.Pow(float64(v), 563.0/256)", "math.Pow(float64(v), 2.2)")
mut("C01", "srgb-pow-in-float32", "srgb/srgb.go", "math.Pow((float64(v)+0.055)/1.055, 2.4)", "math.Pow(float64((v+0.055)/1.055), 2.4)")
mut("C01", "nrgba-channel-swap", "adobergb/color.go", "\t\t\tR: From8Bit(c.R),\n\t\t\tG: From8Bit(c.G),", "\t\t\tR: From8Bit(c.G),\n\t\t\tG: From8Bit(c.R),")
# ---- C02
mut("C02", "table-input-accumulated", "linear/lut/lut.go", "\tfor i := range to16BitLUT {\n\t\tto16BitLUT[i] = linear.NormalisedTo16Bit(encode(float32(i) / 65535))\n\t}", "\tx := float32(0)\n\tfor i := range to16BitLUT {\n\t\tto16BitLUT[i] = linear.NormalisedTo16Bit(encode(x))\n\t\tx += 1.0 / 65535\n\t}", "float32 accumulation ends a step short of 1")
mut("C02", "9bit-max-512", "linear/linear.go", "\t\treturn 511\n\t}\n\treturn uint16(v*511 + 0.5)", "\t\treturn 512\n\t}\n\treturn uint16(v*512 + 0.5)")
mut("C02", "to8bit-indexes-with-8bit", "srgb/lut.go", "return linearToEncoded8LUT[linear.NormalisedTo9Bit(v)]", "return linearToEncoded8LUT[linear.NormalisedTo8Bit(v)]")
mut("C02", "round-dropped", "linear/linear.go", "return uint8(v*255 + 0.5)", "return uint8(v * 255)")
mut("C02", "srgb-encode-gamma", "srgb/srgb.go", "math.Pow(float64(v), 1/2.4)", "math.Pow(float64(v), 1/2.2)")
mut("C02", "raw-conversion", "linear/rgb.go", "\t\tA: NormalisedTo8Bit(alpha),\n\t}\n}\n\n// ToEncodedRGBA returns", "\t\tA: uint8(alpha * 255),\n\t}\n}\n\n// ToEncodedRGBA returns")
mut("C02", "prophoto-no-upper-clamp", "prophotorgb/prophotorgb.go", "\t} else if v < 1 {\n\t\treturn float32(math.Pow(float64(v), 1.0/1.8))\n\t}\n\n\treturn 1", "\t}\n\treturn float32(math.Pow(float64(v), 1.0/1.8))")
# ---- C03
mut("C03", "adobe-swap-coeffs", "adobergb/color.go", "c.R*0.027031317880049893 + c.G*0.07069030664147563", "c.R*0.07069030664147563 + c.G*0.027031317880049893")
mut("C03", "srgb-inverse-5th-digit", "srgb/color.go", "c.X*3.241003600540255", "c.X*3.241103600540255")
mut("C03", "p3-green-primary", "displayp3/displayp3.go", "var PrimaryGreen = ciexyy.Color{X: 0.265, Y: 0.69, YY: 1}", "var PrimaryGreen = ciexyy.Color{X: 0.265, Y: 0.70, YY: 1}")
mut("C03", "clamp-in-toxyz", "prophotorgb/color.go", "func (c Color) ToXYZ() ciexyz.Color {\n\treturn", "func (c Color) ToXYZ() ciexyz.Color {\n\tif c.R < 0 {\n\t\tc.R = 0\n\t}\n\treturn")
# ---- C04
mut("C04", "p3-white-d50", "displayp3/displayp3.go", "var StandardWhitePoint = ciexyy.D65", "var StandardWhitePoint = ciexyy.D50")
mut("C04", "bradford-transposed-pair", "ciexyz/chromaticadaptation.go", "\t{0.8951000, -0.7502000, 0.0389000},\n\t{0.2664000, 1.7135000, -0.0685000},", "\t{0.8951000, 0.2664000, 0.0389000},\n\t{-0.7502000, 1.7135000, -0.0685000},")
# ---- C05
mut("C05", "png-height-before-width", "meta/pngmeta/pngmeta.go", "\t\t\tmd.PixelWidth, err = binary.ReadU32Big(r)\n\t\t\tif err != nil {\n\t\t\t\treturn nil, err\n\t\t\t}\n\n\t\t\tmd.PixelHeight, err = binary.ReadU32Big(r)", "\t\t\tmd.PixelHeight, err = binary.ReadU32Big(r)\n\t\t\tif err != nil {\n\t\t\t\treturn nil, err\n\t\t\t}\n\n\t\t\tmd.PixelWidth, err = binary.ReadU32Big(r)")
mut("C05", "jpeg-dims-swapped", "meta/jpegmeta/jpegmeta.go", "md.PixelHeight = uint32(segment.Data[1])<<8 | uint32(segment.Data[2])\n\t\t\tmd.PixelWidth = uint32(segment.Data[3])<<8 | uint32(segment.Data[4])", "md.PixelHeight = uint32(segment.Data[3])<<8 | uint32(segment.Data[4])\n\t\t\tmd.PixelWidth = uint32(segment.Data[1])<<8 | uint32(segment.Data[2])")
mut("C05", "vp8l-shift-3", "meta/webpmeta/webpmeta.go", "h |= uint32(b2) << 2", "h |= uint32(b2) << 3")
mut("C05", "vp8x-no-plus-one", "meta/webpmeta/webpmeta.go", "\tmd.PixelWidth = w + 1\n\tmd.PixelHeight = h + 1\n\tmd.BitsPerComponent = bitsPerComponent\n\n\tif hasProfile", "\tmd.PixelWidth = w\n\tmd.PixelHeight = h + 1\n\tmd.BitsPerComponent = bitsPerComponent\n\n\tif hasProfile")
mut("C05", "sof2-removed-from-arm", "meta/jpegmeta/jpegmeta.go", "\t\tcase markerTypeStartOfFrameBaseline,\n\t\t\tmarkerTypeStartOfFrameProgressive:", "\t\tcase markerTypeStartOfFrameBaseline:")
mut("C05", "png-ihdr-skip-off-by-one", "meta/pngmeta/pngmeta.go", "for i := uint32(0); i < ch.Length-9; i++ {", "for i := uint32(0); i < ch.Length-8; i++ {")
mut("C05", "jpeg-marker-dri-standalone", "meta/jpegmeta/marker.go", "\t\tbyte(markerTypeEndOfImage):\n", "\t\tbyte(markerTypeEndOfImage),\n\t\tbyte(markerTypeComment):\n")
mut("C05", "revert-D1", "meta/webpmeta/webpmeta.go", "md.PixelHeight = uint32(b[6]&((1<<6)-1))<<8 | uint32(b[5])", "md.PixelWidth = uint32(b[6]&((1<<6)-1))<<8 | uint32(b[5])", "the pinned tree's defect D1")
# ---- C06
mut("C06", "seterror-keeps-data", "meta/data.go", "func (md *Data) SetICCProfileError(err error) {\n\tmd.iccProfileData = nil\n", "func (md *Data) SetICCProfileError(err error) {\n")
mut("C06", "jpeg-identifier-11-bytes", "meta/jpegmeta/jpegmeta.go", "for i := range iccProfileIdentifier {", "for i := range iccProfileIdentifier[:11] {")
mut("C06", "jpeg-payload-13", "meta/jpegmeta/jpegmeta.go", "segment.Data[len(iccProfileIdentifier)+2:]", "segment.Data[len(iccProfileIdentifier)+1:]")
mut("C06", "webp-flag-bit-4", "meta/webpmeta/webpmeta.go", "hasProfile := flags&(1<<5) != 0", "hasProfile := flags&(1<<4) != 0")
mut("C06", "png-data-despite-copy-error", "meta/pngmeta/pngmeta.go", "\t\t\tif err == nil {\n\t\t\t\tmd.SetICCProfileData(profileData.Bytes())", "\t\t\tif err == nil || profileData.Len() > 0 {\n\t\t\t\tmd.SetICCProfileData(profileData.Bytes())")
mut("C06", "revert-D8", "meta/jpegmeta/jpegmeta.go", "\t// Damaged ICC profile\n\tif _, iccErr := md.ICCProfileData(); iccErr != nil {\n\t\treturn md, nil\n\t}\n\n", "", "the defect D8 found by C06.jpeg sticky")
# ---- C07
mut("C07", "multireader-swapped", "meta/pngmeta/pngmeta.go", "return md, io.MultiReader(rewindBuffer, r), err", "return md, io.MultiReader(r, rewindBuffer), err")
mut("C07", "bufio-under-tee", "meta/webpmeta/webpmeta.go", "\ttee := io.TeeReader(r, rewindBuffer)\n\tmd, err = extractMetadata(bufio.NewReader(tee))", "\tbr := bufio.NewReader(r)\n\ttee := io.TeeReader(br, rewindBuffer)\n\tmd, err = extractMetadata(bufio.NewReader(tee))")
mut("C07", "defer-after-signature", "meta/webpmeta/webpmeta.go", "\tdefer func() {\n\t\tif r := recover(); r != nil {\n\t\t\terr = fmt.Errorf(\"panic while extracting image metadata: %v\", r)\n\t\t}\n\t}()\n\n\tif err := verifySignature(r); err != nil {\n\t\treturn nil, err\n\t}\n", "\tif err := verifySignature(r); err != nil {\n\t\treturn nil, err\n\t}\n\n\tdefer func() {\n\t\tif r := recover(); r != nil {\n\t\t\terr = fmt.Errorf(\"panic while extracting image metadata: %v\", r)\n\t\t}\n\t}()\n")
mut("C07", "autometa-passes-r", "meta/autometa/autometa.go", "md, nextStream, err := loader(inputStream)", "md, nextStream, err := loader(r)")
mut("C07", "buffer-reset", "meta/jpegmeta/jpegmeta.go", "\tmd, err = extractMetadata(bufio.NewReader(tee))\n\treturn md, io.MultiReader(rewindBuffer, r), err", "\tmd, err = extractMetadata(bufio.NewReader(tee))\n\tif err != nil && rewindBuffer.Len() > 1<<20 {\n\t\trewindBuffer.Reset()\n\t}\n\treturn md, io.MultiReader(rewindBuffer, r), err")
# ---- C08
mut("C08", "webp-vp8-bare-read", "meta/webpmeta/webpmeta.go", "if _, err := io.ReadFull(r, b[:]); err != nil {\n\t\treturn err\n\t}\n\tif b[0] != 0x9d", "if _, err := r.Read(b[:]); err != nil {\n\t\treturn err\n\t}\n\tif b[0] != 0x9d")
mut("C08", "png-signature-bare-read", "meta/pngmeta/pngmeta.go", "_, err = io.ReadFull(r, pngSig[:])", "_, err = r.Read(pngSig[:])", "part of the pinned tree's defect D2")
mut("C08", "dropped-crc-error", "meta/pngmeta/pngmeta.go", "\t\t\t// Skip chunk CRC\n\t\t\t_, err = binary.ReadU32Big(r)\n\t\t\tif err != nil {\n\t\t\t\treturn nil, err\n\t\t\t}\n\n\t\t\tmetadataExtracted = true", "\t\t\t// Skip chunk CRC\n\t\t\t_, _ = binary.ReadU32Big(r)\n\n\t\t\tmetadataExtracted = true")
# ---- C09
mut("C09", "readprofile-no-recover", "meta/icc/profilereader.go", "\tdefer func() {\n\t\tif r := recover(); r != nil {\n\t\t\tp = nil\n\t\t\terr = fmt.Errorf(\"panic while parsing ICC profile: %v\", r)\n\t\t}\n\t}()\n\n\tprofile := newProfile()", "\tprofile := newProfile()")
mut("C09", "revert-D4-wrap", "meta/icc/multilocalisedunicode.go", "if uint64(stringOffset)+uint64(stringLength) > uint64(len(data)) {", "if uint64(stringOffset+stringLength) > uint64(len(data)) {", "the pinned tree's defect D4")
mut("C09", "png-iccp-make", "meta/pngmeta/pngmeta.go", "\t\t\tchunkData := &bytes.Buffer{}\n\t\t\t_, err = io.CopyN(chunkData, r, int64(ch.Length-offset))\n\t\t\tif err == io.EOF {", "\t\t\tchunkData := bytes.NewBuffer(make([]byte, 0, ch.Length-offset))\n\t\t\t_, err = io.CopyN(chunkData, r, int64(ch.Length-offset))\n\t\t\tif err == io.EOF {", "allocation sized by the declared length (D3 class)")
mut("C09", "textdesc-no-zero-guard", "meta/icc/textdescription.go", "\tif asciiCount == 0 {\n\t\treturn desc, nil\n\t}\n", "", "count-1 underflow (D3 class)")
mut("C09", "skip-inclusive-bound", "meta/webpmeta/webpmeta.go", "\tfor i := uint32(0); i < length; i++ {\n\t\t_, err := r.ReadByte()", "\tfor i := uint32(1); i <= length; i++ {\n\t\t_, err := r.ReadByte()", "never ends for length = 2^32-1")
mut("C09", "skip-by-recursion", "meta/webpmeta/webpmeta.go", "\tfor i := uint32(0); i < length; i++ {\n\t\t_, err := r.ReadByte()\n\t\tif err != nil {\n\t\t\treturn err\n\t\t}\n\t}\n\treturn nil", "\tif length == 0 {\n\t\treturn nil\n\t}\n\tif _, err := r.ReadByte(); err != nil {\n\t\treturn err\n\t}\n\treturn skip(r, length-1)", "one stack frame per skipped byte")
mut("C09", "skip-ignores-error", "meta/webpmeta/webpmeta.go", "\tfor i := uint32(0); i < length; i++ {\n\t\t_, err := r.ReadByte()\n\t\tif err != nil {\n\t\t\treturn err\n\t\t}\n\t}\n\treturn nil", "\tfor i := uint32(0); i < length; i++ {\n\t\t_, _ = r.ReadByte()\n\t}\n\treturn nil")
# ---- C10
mut("C10", "rows-not-striped", "linear/linear.go", "\t\t\tfor i := bounds.Min.Y + workerNum; i < bounds.Max.Y; i += workerCount {\n\t\t\t\tfor j := bounds.Min.X; j < bounds.Max.X; j++ {\n\t\t\t\t\tdst.Set(", "\t\t\tfor i := bounds.Min.Y + workerNum; i < bounds.Max.Y; i++ {\n\t\t\t\tfor j := bounds.Min.X; j < bounds.Max.X; j++ {\n\t\t\t\t\tdst.Set(")
mut("C10", "no-dst-offset", "linear/linear.go", "\t\t\t\t\tc := transformColor(src.At(j, i))\n\n\t\t\t\t\toffset := dstImg.PixOffset(j+dstOffsetX, i+dstOffsetY)\n\t\t\t\t\tdstImg.Pix[offset] = uint8(c.R >> 8)\n\t\t\t\t\tdstImg.Pix[offset+1] = uint8(c.G >> 8)", "\t\t\t\t\tc := transformColor(src.At(j, i))\n\n\t\t\t\t\toffset := dstImg.PixOffset(j, i)\n\t\t\t\t\tdstImg.Pix[offset] = uint8(c.R >> 8)\n\t\t\t\t\tdstImg.Pix[offset+1] = uint8(c.G >> 8)")
mut("C10", "low-byte-from-wrong-channel", "linear/linear.go", "\t\t\t\t\t\tdstImg.Pix[offset+3] = uint8(c.G & 0xFF)\n\t\t\t\t\t\tdstImg.Pix[offset+4] = uint8(c.B >> 8)\n\t\t\t\t\t\tdstImg.Pix[offset+5] = uint8(c.B & 0xFF)\n\t\t\t\t\t\tdstImg.Pix[offset+6] = uint8(c.A >> 8)\n\t\t\t\t\t\tdstImg.Pix[offset+7] = uint8(c.A & 0xFF)\n\t\t\t\t\t}\n\t\t\t\t}\n\t\t\t})\n\n\t\t} else {", "\t\t\t\t\t\tdstImg.Pix[offset+3] = uint8(c.R & 0xFF)\n\t\t\t\t\t\tdstImg.Pix[offset+4] = uint8(c.B >> 8)\n\t\t\t\t\t\tdstImg.Pix[offset+5] = uint8(c.B & 0xFF)\n\t\t\t\t\t\tdstImg.Pix[offset+6] = uint8(c.A >> 8)\n\t\t\t\t\t\tdstImg.Pix[offset+7] = uint8(c.A & 0xFF)\n\t\t\t\t\t}\n\t\t\t\t}\n\t\t\t})\n\n\t\t} else {")
mut("C10", "encode-passes-linearise", "srgb/srgb.go", "linear.TransformImageColor(dst, src, parallelism, EncodeColor)", "linear.TransformImageColor(dst, src, parallelism, LineariseColor)")
mut("C10", "start-row-without-workernum", "linear/linear.go", "\t\tparallel.RunWorkers(parallelism, func(workerNum, workerCount int) {\n\t\t\tfor i := bounds.Min.Y + workerNum; i < bounds.Max.Y; i += workerCount {\n\t\t\t\tfor j := bounds.Min.X; j < bounds.Max.X; j++ {\n\t\t\t\t\tc := transformColor(src.At(j, i))\n\n\t\t\t\t\toffset := dstImg.PixOffset(j+dstOffsetX, i+dstOffsetY)\n\t\t\t\t\tdstImg.Pix[offset] = uint8(c.R >> 8)\n\t\t\t\t\tdstImg.Pix[offset+1] = uint8(c.G >> 8)", "\t\tparallel.RunWorkers(parallelism, func(workerNum, workerCount int) {\n\t\t\tfor i := bounds.Min.Y; i < bounds.Max.Y; i += workerCount {\n\t\t\t\tfor j := bounds.Min.X; j < bounds.Max.X; j++ {\n\t\t\t\t\tc := transformColor(src.At(j, i))\n\n\t\t\t\t\toffset := dstImg.PixOffset(j+dstOffsetX, i+dstOffsetY)\n\t\t\t\t\tdstImg.Pix[offset] = uint8(c.R >> 8)\n\t\t\t\t\tdstImg.Pix[offset+1] = uint8(c.G >> 8)")
# ---- C11
mut("C11", "revert-D5-fastpath", "adobergb/lut.go", "func To16Bit(v float32) uint16 {\n\treturn to16BitAndInitLUT(v)", "func To16Bit(v float32) uint16 {\n\tif linearToEncoded16LUT != nil {\n\t\treturn linearToEncoded16LUT[linear.NormalisedTo16Bit(v)]\n\t}\n\treturn to16BitAndInitLUT(v)", "the pinned tree's defect D5")
mut("C11", "lut-write-outside-once", "prophotorgb/lut.go", "func from16BitAndInitLUT(v uint16) float32 {\n\tinitFrom16BitLUTOnce.Do(func() {\n\t\tfrom16BitLUT := lut.Build16BitToLinear(encodedToLinear)\n\t\tencoded16ToLinearLUT = from16BitLUT[:]\n\t})", "func from16BitAndInitLUT(v uint16) float32 {\n\tif encoded16ToLinearLUT == nil {\n\t\tfrom16BitLUT := lut.Build16BitToLinear(encodedToLinear)\n\t\tencoded16ToLinearLUT = from16BitLUT[:]\n\t}")
mut("C11", "worker-shared-counter", "prism.go", "\t\toutputImg := image.NewNRGBA(inputImg.Rect)\n\n\t\tparallel.RunWorkers(parallelism, func(workerNum, workerCount int) {\n\t\t\tfor i := outputImg.Rect.Min.Y + workerNum; i < outputImg.Rect.Max.Y; i += workerCount {", "\t\toutputImg := image.NewNRGBA(inputImg.Rect)\n\t\trows := 0\n\n\t\tparallel.RunWorkers(parallelism, func(workerNum, workerCount int) {\n\t\t\tfor i := outputImg.Rect.Min.Y + workerNum; i < outputImg.Rect.Max.Y; i += workerCount {\n\t\t\t\trows++")
# ---- C12
mut("C12", "scale-inverted", "ciexyz/chromaticadaptation.go", "{dstCSP[0] / srcCSP[0], 0, 0},", "{srcCSP[0] / dstCSP[0], 0, 0},")
mut("C12", "mulm-order", "ciexyz/chromaticadaptation.go", "bradfordInverse.MulM(m).MulM(bradfordForward)", "bradfordForward.MulM(m).MulM(bradfordInverse)")
mut("C12", "xyy-args-swapped", "ciexyz/chromaticadaptation.go", "return AdaptBetweenXYZWhitePoints(ColorFromXYY(srcWhite), ColorFromXYY(dstWhite))", "return AdaptBetweenXYZWhitePoints(ColorFromXYY(dstWhite), ColorFromXYY(srcWhite))")
mut("C12", "bradford-literal", "ciexyz/chromaticadaptation.go", "{-0.1614000, 0.0367000, 1.0296000},", "{-0.1614000, 0.0376000, 1.0296000},")
# ---- C13
mut("C13", "kappa-903.3", "ciexyz/color.go", "const constantK = 24389.0 / 27.0", "const constantK = 903.3")
mut("C13", "L-offset-15", "ciexyz/color.go", "L: float32(116*fy - 16),", "L: float32(116*fy - 15),")
mut("C13", "guard-r-gt-0", "ciexyz/ciexyz.go", "\tif r > constantE {\n\t\treturn math.Pow(r, 1.0/3.0)", "\tif r > 0 {\n\t\treturn math.Pow(r, 1.0/3.0)")
mut("C13", "a-over-200", "ciexyz/color.go", "fx := float64(lab.A)/500 + fy", "fx := float64(lab.A)/200 + fy")
# ---- C14
mut("C14", "alpha-squared", "linear/rgb.go", "\t\tB: trcEncode(c.B * alpha),\n\t\tA: NormalisedTo16Bit(alpha),", "\t\tB: trcEncode(c.B * alpha),\n\t\tA: NormalisedTo16Bit(alpha * alpha),")
mut("C14", "nrgba-premultiplied", "linear/rgb.go", "\t\tR: trcEncode(c.R),\n\t\tG: trcEncode(c.G),\n\t\tB: trcEncode(c.B),", "\t\tR: trcEncode(c.R * alpha),\n\t\tG: trcEncode(c.G),\n\t\tB: trcEncode(c.B),")
mut("C14", "alpha-over-65536", "linear/rgb.go", "\talpha = float32(a) / 65535\n", "\talpha = float32(a) / 65536\n")
mut("C14", "rgba-no-zero-test", "srgb/color.go", "\tif c.A == 0 {\n\t\treturn Color{}, 0\n\t}\n\n\talpha = float32(c.A) / 255", "\talpha = float32(c.A) / 255")
# ---- C15
mut("C15", "rgba-to-rgba64-byte1", "prism.go", "outputImg.Pix[outputOffset+1] = inputImg.Pix[inputOffset]\n", "outputImg.Pix[outputOffset+1] = inputImg.Pix[inputOffset+1]\n")
mut("C15", "rgba64-to-rgba-low-byte", "prism.go", "outputImg.Pix[outputOffset+1] = inputImg.Pix[inputOffset+2]", "outputImg.Pix[outputOffset+1] = inputImg.Pix[inputOffset+3]")
mut("C15", "fallback-draw-over", "prism.go", "\t\toutputImg := image.NewNRGBA(img.Bounds())\n\t\tdraw.Draw(outputImg, outputImg.Rect, img, outputImg.Rect.Min, draw.Src)", "\t\toutputImg := image.NewNRGBA(img.Bounds())\n\t\tdraw.Draw(outputImg, outputImg.Rect, img, outputImg.Rect.Min, draw.Over)")
mut("C15", "ycbcr-alpha-254", "prism.go", "nrgba := color.NRGBA{R: r, G: g, B: b, A: 255}", "nrgba := color.NRGBA{R: r, G: g, B: b, A: 254}")
# ---- C16
mut("C16", "manufacturer-model-swapped", "meta/icc/profilereader.go", "\theader.DeviceManufacturer = Signature(value)\n\n\tvalue, err = binary.ReadU32Big(pr.reader)\n\tif err != nil {\n\t\treturn err\n\t}\n\theader.DeviceModel = Signature(value)", "\theader.DeviceModel = Signature(value)\n\n\tvalue, err = binary.ReadU32Big(pr.reader)\n\tif err != nil {\n\t\treturn err\n\t}\n\theader.DeviceManufacturer = Signature(value)")
mut("C16", "reserved-24", "meta/icc/profilereader.go", "for i := 0; i < 28/4; i++ {", "for i := 0; i < 24/4; i++ {")
mut("C16", "intent-little-endian", "meta/icc/profilereader.go", "\tvalue, err = binary.ReadU32Big(pr.reader)\n\tif err != nil {\n\t\treturn err\n\t}\n\theader.RenderingIntent = RenderingIntent(value)", "\tvalue, err = binary.ReadU32Little(pr.reader)\n\tif err != nil {\n\t\treturn err\n\t}\n\theader.RenderingIntent = RenderingIntent(value)")
mut("C16", "illuminant-reversed", "meta/icc/profilereader.go", "header.PCSIlluminant[i], err = binary.ReadU32Big(pr.reader)", "header.PCSIlluminant[2-i], err = binary.ReadU32Big(pr.reader)")
mut("C16", "revert-D6-flags", "meta/icc/profilereader.go", "header.Embedded = value&1 != 0", "header.Embedded = (value >> 31) != 0", "the pinned tree's defect D6")
mut("C16", "signature-constant", "meta/icc/signature.go", "ProfileFileSignature           Signature = 0x61637370", "ProfileFileSignature           Signature = 0x61637371")
# ---- C17
mut("C17", "tagdata-offset-132", "meta/icc/profilereader.go", "const tagTableOffset = 128", "const tagTableOffset = 132")
mut("C17", "text-count-from-4", "meta/icc/textdescription.go", "\t// Reserved field\n\t_, err = binary.ReadU32Big(reader)\n\tif err != nil {\n\t\treturn desc, err\n\t}\n\n\tasciiCount, err := binary.ReadU32Big(reader)\n\tif err != nil {\n\t\treturn desc, err\n\t}", "\tasciiCount, err := binary.ReadU32Big(reader)\n\tif err != nil {\n\t\treturn desc, err\n\t}\n\n\t// Reserved field\n\t_, err = binary.ReadU32Big(reader)\n\tif err != nil {\n\t\treturn desc, err\n\t}")
mut("C17", "prefer-es", "meta/icc/tagtable.go", "mluc.getStringForLanguage([2]byte{'e', 'n'})", "mluc.getStringForLanguage([2]byte{'e', 's'})")
mut("C17", "mluc-length-offset-swapped", "meta/icc/multilocalisedunicode.go", "result.setString(language, country, data[stringOffset:stringOffset+stringLength])", "result.setString(language, country, data[stringLength:stringLength+stringOffset])")
mut("C17", "revert-D7-sequential", "meta/icc/multilocalisedunicode.go", "result.setString(language, country, data[stringOffset:stringOffset+stringLength])", "result.setString(language, country, data[len(data)-reader.Len():len(data)-reader.Len()+int(stringLength)])", "the pinned tree's defect D7 (text taken from the reader's sequential position)")
# ---- C18
mut("C18", "jpeg-no-exit-after-chunk", "meta/jpegmeta/jpegmeta.go", "\t\t\ticcProfileChunks[chunkNum-1] = segment.Data[len(iccProfileIdentifier)+2:]\n\n\t\t\tif allMetadataExtracted() {\n\t\t\t\tbreak parseSegments\n\t\t\t}", "\t\t\ticcProfileChunks[chunkNum-1] = segment.Data[len(iccProfileIdentifier)+2:]")
mut("C18", "png-idat-falls-into-skip", "meta/pngmeta/pngmeta.go", "\t\tcase chunkTypeIDAT, chunkTypeIEND:\n\t\t\tbreak parseChunks\n", "\t\tcase chunkTypeIEND:\n\t\t\tbreak parseChunks\n")
mut("C18", "bufio-1MiB", "meta/pngmeta/pngmeta.go", "md, err = extractMetadata(bufio.NewReader(tee))", "md, err = extractMetadata(bufio.NewReaderSize(tee, 1<<20))")
# ---- C19
mut("C19", "success-returns-inputstream", "meta/autometa/autometa.go", "return md, nextStream, nil", "return md, inputStream, nil")
# ---- C20
mut("C20", "cofactor-sign", "matrix/matrix3.go", "\t\t\t-(m[0][1]*m[2][2] - m[2][1]*m[0][2]),", "\t\t\tm[0][1]*m[2][2] - m[2][1]*m[0][2],")
mut("C20", "mulm-no-transpose", "matrix/matrix3.go", "\tt := m.Transpose()\n", "\tt := m\n")
mut("C20", "mulv-swapped-entries", "matrix/matrix3.go", "m[0][1]*v[0] + m[1][1]*v[1] + m[2][1]*v[2],", "m[1][0]*v[0] + m[1][1]*v[1] + m[2][1]*v[2],")
mut("C20", "scale-by-s0-thrice", "ciexyz/ciexyz.go", "\t\tm[1].MulS(s[1]),", "\t\tm[1].MulS(s[0]),")
# ---- witnesses for rules added after the seeded rounds
mut("C05", "load-filters-result", "meta/jpegmeta/jpegmeta.go", "\tmd, err = extractMetadata(bufio.NewReader(tee))\n", "\tmd, err = extractMetadata(bufio.NewReader(tee))\n\tif md != nil && md.PixelWidth > 1<<24 {\n\t\tmd = nil\n\t}\n", "C05.load: the loader re-judges what the parser returned")
mut("C05", "jpeg-gives-up-on-bad-icc", "meta/jpegmeta/jpegmeta.go", "\t\t\t\tmd.SetICCProfileError(fmt.Errorf(\"inconsistent ICC profile chunk count\"))\n\t\t\t\tcontinue", "\t\t\t\tmd.SetICCProfileError(fmt.Errorf(\"inconsistent ICC profile chunk count\"))\n\t\t\t\tbreak parseSegments", "C05.dispatch jpeg scan reaches SOF")
mut("C06", "png-staging-prefilled", "meta/pngmeta/pngmeta.go", "\t\t\tchunkData := &bytes.Buffer{}", "\t\t\tchunkData := bytes.NewBufferString(profileName.String())", "C06 staging buffers start empty")
mut("C17", "text-length-limit", "meta/icc/textdescription.go", "\tif asciiCount == 0 {\n\t\treturn desc, nil\n\t}", "\tif asciiCount == 0 {\n\t\treturn desc, nil\n\t}\n\tif asciiCount > 256 {\n\t\treturn desc, io.ErrUnexpectedEOF\n\t}", "C17.text complete: a well-formed tag is rejected")
mut("C01", "once-shared-by-two-builders", "prophotorgb/lut.go", "\tinitFrom16BitLUTOnce.Do(func() {", "\tinitTo16BitLUTOnce.Do(func() {", "one Once, one initialiser")
mut("C15", "one-worker-fewer", "prism.go", "\t\toutputImg := image.NewNRGBA(inputImg.Rect)\n\n\t\tparallel.RunWorkers(parallelism, func", "\t\toutputImg := image.NewNRGBA(inputImg.Rect)\n\n\t\tparallel.RunWorkers(parallelism-1, func", "worker count must be >= 1 whenever parallelism is")
mut("C10", "half-the-workers", "linear/linear.go", "\t\t\tparallel.RunWorkers(parallelism, func(workerNum, workerCount int) {\n\t\t\t\tfor i := bounds.Min.Y + workerNum; i < bounds.Max.Y; i += workerCount {\n\t\t\t\t\tfor j := bounds.Min.X; j < bounds.Max.X; j++ {\n\t\t\t\t\t\tc := transformColor(srcImg.RGBA64At(j, i))", "\t\t\tparallel.RunWorkers(parallelism/2, func(workerNum, workerCount int) {\n\t\t\t\tfor i := bounds.Min.Y + workerNum; i < bounds.Max.Y; i += workerCount {\n\t\t\t\t\tfor j := bounds.Min.X; j < bounds.Max.X; j++ {\n\t\t\t\t\t\tc := transformColor(srcImg.RGBA64At(j, i))", "worker count must be >= 1 whenever parallelism is")

def sh(cmd, cwd):
    p = subprocess.run(cmd, shell=True, cwd=cwd, env=ENV, stdout=subprocess.PIPE, stderr=subprocess.STDOUT, text=True)
    return p.returncode, p.stdout

def main():
    run_tests = "--no-tests" not in sys.argv
    out_dir = "/verif/mutants"
    os.makedirs(out_dir, exist_ok=True)
    for f in os.listdir(out_dir):
        if f.endswith(".patch") and not f.startswith("revert-"):
            os.remove(os.path.join(out_dir, f))
    wt = tempfile.mkdtemp(prefix="mk-", dir="/tmp"); os.rmdir(wt)
    rc, o = sh(f"git -C /repo worktree add -q --detach {wt} HEAD", "/")
    assert rc == 0, o
    index = []
    try:
        for m in M:
            path = os.path.join(wt, m["file"])
            src = open(path).read()
            if src.count(m["old"]) != 1:
                print(f"SKIP {m['prop']}-{m['name']}: pattern occurs {src.count(m['old'])} times")
                index.append(dict(m, status="pattern-mismatch")); continue
            new = src.replace(m["old"], m["new"])
            if "adobergb.From16Bit" in m["new"] and "prism/adobergb" not in new:
                new = new.replace('"github.com/mandykoh/prism/srgb"', '"github.com/mandykoh/prism/adobergb"\n\t"github.com/mandykoh/prism/srgb"')
            open(path, "w").write(new)
            sh(f"gofmt -w {m['file']}", wt)
            rc, o = sh("go build ./...", wt)
            if rc != 0:
                # drop now-unused imports once with goimports-less heuristic: report and skip
                print(f"SKIP {m['prop']}-{m['name']}: does not build: {o.strip().splitlines()[-1][:160]}")
                index.append(dict(m, status="does-not-build"))
                sh("git checkout -- .", wt); continue
            tests = None
            if run_tests:
                rc, o = sh("go test -vet=off -count=1 ./... 2>&1 | grep -c '^FAIL\\|^--- FAIL' ", wt)
                tests = (o.strip() == "0")
            rc, diff = sh("git diff", wt)
            name = f"{m['prop']}-{m['name']}.patch"
            open(os.path.join(out_dir, name), "w").write(diff)
            index.append(dict(prop=m["prop"], name=m["name"], file=m["file"], note=m["note"], patch=name, status="ok", existing_tests_pass=tests))
            print(f"ok   {name} tests_pass={tests}")
            sh("git checkout -- .", wt)
    finally:
        sh(f"git -C /repo worktree remove --force {wt}", "/")
        shutil.rmtree(wt, ignore_errors=True)
    json.dump(index, open(os.path.join(out_dir, "INDEX.json"), "w"), indent=1)

main()
