#!/bin/bash
# usage: trypatch.sh <patch> <property>...   — apply patch to /repo, run the quick checks (no evidence), revert.
set -u
patch=$1; shift
cd /repo || exit 2
if ! git diff --quiet; then echo "/repo is dirty" >&2; exit 2; fi
git apply "$patch" || { echo "patch does not apply"; exit 3; }
rc=0
for p in "$@"; do
  /verif/bin/prismcheck -property "$p" -noevidence | grep -v '^VIOLATION' | cut -c1-400
done
git checkout -- . ; git clean -fdq
