#!/usr/bin/env python3
"""verifyrefac.py <refac-dir> <Cxx> <Rn> [--checks ...] — confirms a behaviour-preserving change in a scratch
worktree (builds, existing tests pass, its own test passes with and without it) and runs the quick checks
against it: any alarm is a FALSE ALARM of the checker. Stores under /verif/refactors/<id>-<Rn>/."""
import json, os, re, shutil, subprocess, sys, tempfile
ENV = dict(os.environ, GOFLAGS="-mod=mod", GOPROXY="off", GOSUMDB="off", GOTOOLCHAIN="local")
def sh(cmd, cwd, timeout=1800):
    p = subprocess.run(cmd, shell=True, cwd=cwd, env=ENV, stdout=subprocess.PIPE, stderr=subprocess.STDOUT, text=True, timeout=timeout)
    return p.returncode, p.stdout
def main():
    d, prop, which = sys.argv[1], sys.argv[2], sys.argv[3]
    checks = [prop]
    if "--checks" in sys.argv:
        checks = sys.argv[sys.argv.index("--checks") + 1].split(",")
    meta = json.load(open(os.path.join(d, "meta.json")))
    demo_cmd = meta.get("demo_cmd", "true")
    wt = tempfile.mkdtemp(prefix="rv-", dir="/tmp"); os.rmdir(wt)
    res = {}
    try:
        rc, out = sh(f"git -C /repo worktree add -q --detach {wt} HEAD", "/"); assert rc == 0, out
        os.makedirs(os.path.join(wt, "_refac")); shutil.copytree(d, os.path.join(wt, "_refac", which))
        rc, out = sh(f"git apply _refac/{which}/patch.diff", wt)
        res["patch_applies"] = rc == 0
        if rc != 0:
            res["error"] = out[-300:]
        else:
            rc, out = sh("go build ./... && go test -vet=off -count=1 ./...", wt)
            res["existing_tests_pass"] = rc == 0
            rc, out = sh(demo_cmd, wt)
            res["own_test_passes"] = rc == 0
            if rc != 0: res["demo_tail"] = out[-300:]
            caught = {}
            for c in checks:
                rc, out = sh(f"/verif/bin/prismcheck -property {c} -repo {wt} -noevidence", "/verif")
                lines = [l.strip() for l in out.splitlines() if l.strip().startswith(("VIOLATED", "UNDECIDED"))]
                caught[c] = {"exit": rc, "reports": [l[:400] for l in lines[:4]]}
            res["checks"] = caught
    finally:
        sh(f"git -C /repo worktree remove --force {wt}", "/"); shutil.rmtree(wt, ignore_errors=True)
    ok = res.get("patch_applies") and res.get("existing_tests_pass") and res.get("own_test_passes")
    res["confirmed_preserving_sample"] = bool(ok)
    res["false_alarms"] = [c for c, v in res.get("checks", {}).items() if v["exit"] != 0]
    print(json.dumps(res, indent=1))
    if ok:
        dest = f"/verif/refactors/{prop}-{which}"
        if os.path.exists(dest): shutil.rmtree(dest)
        os.makedirs(dest)
        shutil.copy(os.path.join(d, "patch.diff"), dest)
        shutil.copytree(os.path.join(d, "demo"), os.path.join(dest, "demo"))
        json.dump({"property": prop, "kind": "behaviour-preserving change (independent sub-agent)", "summary": meta.get("summary"), "why_preserving": meta.get("why_preserving"),
                   "files_changed": meta.get("files_changed"), "demo_cmd": demo_cmd.replace(f"_refac/{which}/", f"/verif/refactors/{prop}-{which}/"), "result": res}, open(os.path.join(dest, "meta.json"), "w"), indent=1)
main()
