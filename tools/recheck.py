#!/usr/bin/env python3
"""Re-runs the quick checks against the stored seeded changes (must alarm) and
behaviour-preserving refactors (must stay silent) by applying each stored patch
to /repo, running the checks recorded in its meta.json, and reverting.
usage: recheck.py [-jN] [seeded|refactors] [ID-prefix ...]      (developer aid; /repo must be clean)
With -jN the patches are applied in N scratch worktrees of /repo (under /tmp,
removed at the end) and checked in parallel with prismcheck -repo."""
import json, glob, os, subprocess, sys, threading, queue, shutil

V, REPO, BIN = '/verif', '/repo', '/verif/bin/prismcheck'

def sh(cmd, cwd=REPO):
    return subprocess.run(cmd, shell=True, cwd=cwd, capture_output=True, text=True)

def run_checks(checks, repo=REPO):
    res = {}
    for c in checks:
        p = sh(f'{BIN} -repo {repo} -property {c} -tier quick -noevidence', cwd=repo)
        lines = [l.strip() for l in p.stdout.splitlines() if l.strip().startswith(('VIOLATED', 'UNDECIDED'))]
        res[c] = {'exit': p.returncode, 'reports': lines[:6]}
    return res

def checks_of(kind, meta):
    if kind == 'refactors':
        return list(meta.get('result', {}).get('checks', {}).keys()) or [meta['property']]
    return [k for k, v in meta.get('caught_by', {}).items()] or [meta['property']]

def report(kind, name, mf, meta, res):
    alarms = [c for c, v in res.items() if v['exit'] != 0]
    if kind == 'refactors':
        meta.setdefault('result', {})['checks'] = res
        meta['result']['false_alarms'] = alarms
        json.dump(meta, open(mf, 'w'), indent=1)
        print(f'{name}: false alarms {alarms}')
        for c in alarms:
            for l in res[c]['reports'][:2]:
                print('      ', l[:300])
        return 0
    own = meta['property']
    caught = {c: (res[c]['exit'] != 0) for c in res}
    meta['caught_by'] = caught
    json.dump(meta, open(mf, 'w'), indent=1)
    flag = '' if caught.get(own) else '   <<<<<< MISSED by its own property check'
    print(f'{name}: caught by {[c for c, v in caught.items() if v]}{flag}')
    return 0 if caught.get(own) else 1

def parallel(kind, prefixes, n):
    root = f'/tmp/recheck-wt-{os.getpid()}'
    os.makedirs(root)
    jobs = queue.Queue()
    for mf in sorted(glob.glob(f'{V}/{kind}/*/meta.json')):
        name = os.path.basename(os.path.dirname(mf))
        if prefixes and not any(name.startswith(p) for p in prefixes):
            continue
        jobs.put(mf)
    out, lock = {}, threading.Lock()
    def worker(k):
        wt = f'{root}/w{k}'
        if sh(f'git worktree add --detach {wt} HEAD').returncode != 0:
            return
        while True:
            try:
                mf = jobs.get_nowait()
            except queue.Empty:
                return
            d = os.path.dirname(mf); name = os.path.basename(d)
            meta = json.load(open(mf))
            if sh(f'git apply {d}/patch.diff', cwd=wt).returncode != 0:
                with lock: out[name] = None
                continue
            try:
                res = run_checks(checks_of(kind, meta), wt)
            finally:
                sh('git checkout -- . && git clean -fdq', cwd=wt)
            with lock: out[name] = (mf, meta, res)
    ts = [threading.Thread(target=worker, args=(k,)) for k in range(n)]
    for t in ts: t.start()
    for t in ts: t.join()
    for k in range(n):
        sh(f'git worktree remove --force {root}/w{k}')
    shutil.rmtree(root, ignore_errors=True)
    sh('git worktree prune')
    bad = 0
    for name in sorted(out):
        if out[name] is None:
            print(f'{name}: patch no longer applies'); continue
        bad += report(kind, name, *out[name])
    sys.exit(1 if bad else 0)

def main():
    args = sys.argv[1:]
    n = 0
    if args and args[0].startswith('-j'):
        n = int(args[0][2:] or 8); args = args[1:]
    kind = args[0] if args else 'refactors'
    prefixes = args[1:]
    if n:
        parallel(kind, prefixes, n)
    if sh('git diff --quiet').returncode != 0:
        print('/repo is dirty'); sys.exit(2)
    bad = 0
    for mf in sorted(glob.glob(f'{V}/{kind}/*/meta.json')):
        d = os.path.dirname(mf); name = os.path.basename(d)
        if prefixes and not any(name.startswith(p) for p in prefixes):
            continue
        meta = json.load(open(mf))
        if kind == 'refactors':
            checks = list(meta.get('result', {}).get('checks', {}).keys()) or [meta['property']]
        else:
            checks = [k for k, v in meta.get('caught_by', {}).items()] or [meta['property']]
        ap = sh(f'git apply {d}/patch.diff')
        if ap.returncode != 0:
            print(f'{name}: patch no longer applies'); continue
        try:
            res = run_checks(checks)
        finally:
            sh('git checkout -- . && git clean -fdq')
        alarms = [c for c, v in res.items() if v['exit'] != 0]
        if kind == 'refactors':
            meta.setdefault('result', {})['checks'] = res
            meta['result']['false_alarms'] = alarms
            json.dump(meta, open(mf, 'w'), indent=1)
            print(f'{name}: false alarms {alarms}')
            for c in alarms:
                for l in res[c]['reports'][:2]:
                    print('      ', l[:300])
        else:
            own = meta['property']
            caught = {c: (res[c]['exit'] != 0) for c in res}
            meta['caught_by'] = caught
            json.dump(meta, open(mf, 'w'), indent=1)
            flag = '' if caught.get(own) else '   <<<<<< MISSED by its own property check'
            if not caught.get(own):
                bad += 1
            print(f'{name}: caught by {[c for c, v in caught.items() if v]}{flag}')
    sys.exit(1 if bad else 0)

main()
