#!/usr/bin/env python3
"""Re-runs the quick checks against the stored seeded changes (must alarm) and
behaviour-preserving refactors (must stay silent) by applying each stored patch
to /repo, running the checks recorded in its meta.json, and reverting.
usage: recheck.py [seeded|refactors] [ID-prefix ...]      (developer aid; /repo must be clean)"""
import json, glob, os, subprocess, sys

V, REPO, BIN = '/verif', '/repo', '/verif/bin/prismcheck'

def sh(cmd, cwd=REPO):
    return subprocess.run(cmd, shell=True, cwd=cwd, capture_output=True, text=True)

def run_checks(checks):
    res = {}
    for c in checks:
        p = sh(f'{BIN} -property {c} -tier quick -noevidence')
        lines = [l.strip() for l in p.stdout.splitlines() if l.strip().startswith(('VIOLATED', 'UNDECIDED'))]
        res[c] = {'exit': p.returncode, 'reports': lines[:6]}
    return res

def main():
    kind = sys.argv[1] if len(sys.argv) > 1 else 'refactors'
    prefixes = sys.argv[2:]
    if sh('git diff --quiet').returncode != 0:
        print('/repo is dirty'); sys.exit(2)
    bad = 0
    for mf in sorted(glob.glob(f'{V}/{kind}/*/meta.json')):
        d = os.path.dirname(mf); name = os.path.basename(d)
        if prefixes and not any(name.startswith(p) for p in prefixes):
            continue
        meta = json.load(open(mf))
        if kind == 'refactors':
            checks = list(meta.get('result', {}).get('checks', {}).keys()) or [meta['property']]
        else:
            checks = [k for k, v in meta.get('caught_by', {}).items()] or [meta['property']]
        ap = sh(f'git apply {d}/patch.diff')
        if ap.returncode != 0:
            print(f'{name}: patch no longer applies'); continue
        try:
            res = run_checks(checks)
        finally:
            sh('git checkout -- . && git clean -fdq')
        alarms = [c for c, v in res.items() if v['exit'] != 0]
        if kind == 'refactors':
            meta.setdefault('result', {})['checks'] = res
            meta['result']['false_alarms'] = alarms
            json.dump(meta, open(mf, 'w'), indent=1)
            print(f'{name}: false alarms {alarms}')
            for c in alarms:
                for l in res[c]['reports'][:2]:
                    print('      ', l[:300])
        else:
            own = meta['property']
            caught = {c: (res[c]['exit'] != 0) for c in res}
            meta['caught_by'] = caught
            json.dump(meta, open(mf, 'w'), indent=1)
            flag = '' if caught.get(own) else '   <<<<<< MISSED by its own property check'
            if not caught.get(own):
                bad += 1
            print(f'{name}: caught by {[c for c, v in caught.items() if v]}{flag}')
    sys.exit(1 if bad else 0)

main()
