#!/bin/bash
# validates MANIFEST.json and every evidence file against the schemas
python3-vt - <<'PY'
import json, jsonschema, glob, sys
jsonschema.validate(json.load(open('/verif/MANIFEST.json')), json.load(open('/root/.vp/MANIFEST.schema.json')))
s=json.load(open('/root/.vp/EVIDENCE.schema.json'))
bad=0
for f in sorted(glob.glob('/verif/evidence/*.json')):
    try:
        jsonschema.validate(json.load(open(f)), s)
    except Exception as e:
        bad+=1; print(f, 'INVALID', str(e)[:200])
print('manifest valid;', len(glob.glob('/verif/evidence/*.json')), 'evidence files,', bad, 'invalid')
sys.exit(1 if bad else 0)
PY
