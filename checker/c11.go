package main

import (
	"fmt"
	"go/token"
	"go/types"
	"sort"
	"strings"

	"golang.org/x/tools/go/ssa"
)

// C11 — all conversions are safe for concurrent use, including first use.
//
// O1 once-publication of lazily initialised package-level variables
// O2 no other shared mutable package-level state
// O3 worker closures write only their own rows' pixels
// O4 nothing reachable from the loaders writes package-level state

func init() {
	register(&PropertyCheck{ID: "C11", Level: "other", Run: runC11})
}

// isInitFn reports whether f runs during package initialisation only: the
// synthetic package initialiser, a declared init function, or a closure
// nested in one that is used only as the argument of a call made there.
func isInitFn(f *ssa.Function) bool {
	for f != nil {
		if f.Parent() == nil {
			return f.Name() == "init" || strings.HasPrefix(f.Name(), "init#")
		}
		// a closure: every reference must be an immediate call argument in the parent
		f = f.Parent()
	}
	return false
}

// pvar is a package-level variable or a field (path) of a package-level
// struct variable: `tables.once`, `tables.data` are variables of their own.
// Values are interned, so pointer equality is identity.
type pvar struct {
	G    *ssa.Global
	Path string // ".field.sub" ("" for the whole variable)
	T    types.Type
}

var pvarTab = map[string]*pvar{}

func internVar(g *ssa.Global, path string, t types.Type) *pvar {
	k := g.String() + path
	if v, ok := pvarTab[k]; ok {
		return v
	}
	v := &pvar{G: g, Path: path, T: t}
	pvarTab[k] = v
	return v
}

func (v *pvar) Name() string   { return v.G.Name() + v.Path }
func (v *pvar) String() string { return v.G.String() + v.Path }
func (v *pvar) Pos() token.Pos { return v.G.Pos() }

// varOf resolves an address to the package-level variable it denotes; direct
// reports that the address IS that variable (the global, or a field path of it)
// rather than an element or pointee reached through it.
func varOf(addr ssa.Value) (v *pvar, direct bool) {
	switch x := addr.(type) {
	case *ssa.Global:
		if pt, ok := x.Type().(*types.Pointer); ok {
			return internVar(x, "", pt.Elem()), true
		}
		return internVar(x, "", x.Type()), true
	case *ssa.FieldAddr:
		base, d := varOf(x.X)
		if base == nil {
			return nil, false
		}
		if !d {
			return base, false
		}
		st, ok := base.T.Underlying().(*types.Struct)
		if !ok || x.Field >= st.NumFields() {
			return base, false
		}
		f := st.Field(x.Field)
		return internVar(base.G, base.Path+"."+f.Name(), f.Type()), true
	case *ssa.IndexAddr:
		base, _ := varOf(x.X)
		return base, false
	case *ssa.Slice:
		base, _ := varOf(x.X)
		return base, false
	case *ssa.UnOp:
		if x.Op != token.MUL {
			return nil, false
		}
		base, _ := varOf(x.X)
		return base, false
	case *ssa.ChangeType:
		return varOf(x.X)
	case *ssa.Phi:
		var g *pvar
		for _, e := range x.Edges {
			if e == ssa.Value(x) {
				continue
			}
			ge, _ := varOf(e)
			if ge == nil || (g != nil && g != ge) {
				return nil, false
			}
			g = ge
		}
		return g, false
	}
	return nil, false
}

// execCtx says when a function can run and which Once guards every way of
// reaching it.
type execCtx struct {
	any    bool // can run at any time (exported, a method, address taken, or called from such code)
	init   bool // can run during package initialisation
	root   bool // an entry point: guarded by nothing
	top    bool // guards not yet constrained (no incoming edge seen)
	guards map[*pvar]bool
}

// initOnly: the function runs during package initialisation only (or never).
func (c *execCtx) initOnly() bool { return c != nil && !c.any }

// singleOnce returns the Once whose Do every path to the function passes
// through, for a function that can run after initialisation.
func (c *execCtx) singleOnce() *pvar {
	if c == nil || !c.any || c.top || len(c.guards) != 1 {
		return nil
	}
	for g := range c.guards {
		return g
	}
	return nil
}

// execContexts computes, for every prism function, when it can run: the
// package initialisers run at init; a function passed to Do of a package-level
// Once runs under that Once; a function called statically inherits the contexts
// of its callers; anything exported, any method, and any function whose value
// is used other than as a callee or as the argument of Once.Do can run anywhere.
func execContexts(p *Program) map[*ssa.Function]*execCtx {
	ctx := map[*ssa.Function]*execCtx{}
	get := func(f *ssa.Function) *execCtx {
		c := ctx[f]
		if c == nil {
			c = &execCtx{guards: map[*pvar]bool{}}
			ctx[f] = c
		}
		return c
	}
	fns := p.SrcFuncs()
	for _, f := range fns {
		c := get(f)
		switch {
		case f.Parent() != nil:
			// closures get their context from their uses
		case f.Name() == "init" || strings.HasPrefix(f.Name(), "init#"):
			c.init = true
		case f.Signature.Recv() != nil || token.IsExported(f.Name()):
			c.any = true
		}
	}
	type edge struct {
		from, to *ssa.Function
		once     *pvar // non-nil: `to` is run by Do of this Once called in `from`
	}
	var edges []edge
	for _, h := range fns {
		for _, b := range h.Blocks {
			for _, in := range b.Instrs {
				var called *ssa.Function
				if c, ok := in.(ssa.CallInstruction); ok {
					if _, isGo := in.(*ssa.Go); !isGo {
						called = staticCallee(c)
					}
				}
				og, ocl, isDo := onceDoCall(in)
				var ops []*ssa.Value
				for _, op := range in.Operands(ops) {
					if op == nil || *op == nil {
						continue
					}
					var f *ssa.Function
					switch v := (*op).(type) {
					case *ssa.Function:
						f = v
					case *ssa.MakeClosure:
						f, _ = v.Fn.(*ssa.Function)
					}
					if f == nil || !isPrismFn(f) {
						continue
					}
					switch {
					case isDo && f == ocl:
						edges = append(edges, edge{h, f, og})
					case f == called && *op == in.(ssa.CallInstruction).Common().Value:
						edges = append(edges, edge{h, f, nil})
					default:
						if _, isMC := in.(*ssa.MakeClosure); isMC {
							continue // binding a closure's free variable to a function value is covered by the closure's own uses
						}
						get(f).any = true
					}
				}
				// a MakeClosure value: its uses decide
				if mc, ok := in.(*ssa.MakeClosure); ok {
					f, _ := mc.Fn.(*ssa.Function)
					for _, u := range refs(mc) {
						uc, isCall := u.(ssa.CallInstruction)
						if isCall && uc.Common().Value == ssa.Value(mc) {
							continue // counted above as a call edge
						}
						if _, cl, isDo := onceDoCall(u); isDo && cl == f {
							continue
						}
						get(f).any = true
					}
				}
			}
		}
	}
	for _, f := range fns {
		c := get(f)
		c.root = c.any || c.init
		c.top = !c.root
	}
	for changed := true; changed; {
		changed = false
		for _, e := range edges {
			src := get(e.from)
			dst := get(e.to)
			if src.any && !dst.any {
				dst.any, changed = true, true
			}
			if src.init && !dst.init {
				dst.init, changed = true, true
			}
		}
	}
	// guards: greatest fixpoint of G(f) = ∩ over incoming edges (G(caller) ∪ {Once of a Do edge})
	for changed := true; changed; {
		changed = false
		for _, e := range edges {
			src := get(e.from)
			dst := get(e.to)
			if dst.root {
				continue
			}
			if src.top && e.once == nil {
				continue // caller not yet constrained
			}
			in := map[*pvar]bool{}
			if !src.top {
				for g := range src.guards {
					in[g] = true
				}
			}
			if e.once != nil {
				in[e.once] = true
			}
			if dst.top {
				dst.top, dst.guards, changed = false, in, true
				continue
			}
			for g := range dst.guards {
				if !in[g] {
					delete(dst.guards, g)
					changed = true
				}
			}
		}
	}
	return ctx
}

type globalAccess struct {
	Fn    *ssa.Function
	Instr ssa.Instruction
	Kind  string // "store", "elem-store", "load", "addr"
}

// onceDoCall reports a call (*sync.Once).Do on a package-level Once and returns it.
func onceDoCall(in ssa.Instruction) (*pvar, *ssa.Function, bool) {
	c, ok := in.(*ssa.Call)
	if !ok {
		return nil, nil, false
	}
	f := staticCallee(c)
	if !methIs(f, "sync", "Once", "Do") || len(c.Call.Args) != 2 {
		return nil, nil, false
	}
	g, direct := varOf(c.Call.Args[0])
	if !direct {
		g = nil
	}
	var cl *ssa.Function
	switch a := c.Call.Args[1].(type) {
	case *ssa.MakeClosure:
		cl, _ = a.Fn.(*ssa.Function)
	case *ssa.Function:
		cl = a
	}
	return g, cl, g != nil
}

// checkPublishLast: an object handed to other goroutines through an atomic
// publication (atomic.Value / atomic.Pointer Store, Swap, CompareAndSwap,
// atomic.StorePointer) is complete at that moment: on no path after the
// publishing call does the publishing function write through the object or
// pass it to a call (which might). A reader that obtains the object from the
// atomic has a happens-before edge only with what preceded the Store; later
// fills race with it and may be observed half-done.
func checkPublishLast(p *Program, r *Report, rule string) {
	isPublish := func(c *ssa.Call) (ssa.Value, bool) {
		f := staticCallee(c)
		if f == nil || f.Pkg == nil || f.Pkg.Pkg.Path() != "sync/atomic" {
			return nil, false
		}
		args := c.Call.Args
		switch f.Name() {
		case "Store", "Swap":
			if f.Signature.Recv() != nil && len(args) == 2 {
				return args[1], true
			}
		case "CompareAndSwap":
			if f.Signature.Recv() != nil && len(args) == 3 {
				return args[2], true
			}
		case "StorePointer", "SwapPointer":
			if len(args) == 2 {
				return args[1], true
			}
		case "CompareAndSwapPointer":
			if len(args) == 3 {
				return args[2], true
			}
		}
		return nil, false
	}
	// the storage an SSA value refers to (through conversions, re-slicing and element addresses)
	var root func(v ssa.Value, d int) ssa.Value
	root = func(v ssa.Value, d int) ssa.Value {
		if d > 20 {
			return v
		}
		switch x := v.(type) {
		case *ssa.MakeInterface:
			return root(x.X, d+1)
		case *ssa.ChangeType:
			return root(x.X, d+1)
		case *ssa.ChangeInterface:
			return root(x.X, d+1)
		case *ssa.Convert:
			return root(x.X, d+1)
		case *ssa.Slice:
			return root(x.X, d+1)
		case *ssa.IndexAddr:
			return root(x.X, d+1)
		case *ssa.FieldAddr:
			return root(x.X, d+1)
		case *ssa.TypeAssert:
			return root(x.X, d+1)
		case *ssa.UnOp:
			if x.Op == token.MUL {
				if _, isAlloc := x.X.(*ssa.Alloc); isAlloc {
					return x.X // a local variable holding the object
				}
			}
		}
		return v
	}
	n := 0
	for _, f := range p.SrcFuncs() {
		for _, b := range f.Blocks {
			for i, in := range b.Instrs {
				c, ok := in.(*ssa.Call)
				if !ok {
					continue
				}
				pub, ok := isPublish(c)
				if !ok {
					continue
				}
				switch pub.Type().Underlying().(type) {
				case *types.Basic:
					continue // a number or string: nothing to write through
				}
				n++
				rt := root(pub, 0)
				// instructions that may execute after the publication
				var after []ssa.Instruction
				after = append(after, b.Instrs[i+1:]...)
				seen := map[*ssa.BasicBlock]bool{}
				var walk func(bb *ssa.BasicBlock)
				walk = func(bb *ssa.BasicBlock) {
					if seen[bb] {
						return
					}
					seen[bb] = true
					after = append(after, bb.Instrs...)
					for _, s := range bb.Succs {
						walk(s)
					}
				}
				for _, s := range b.Succs {
					walk(s)
				}
				bad := ""
				for _, a := range after {
					switch x := a.(type) {
					case *ssa.Store:
						if root(x.Addr, 0) == rt {
							if _, direct := x.Addr.(*ssa.Alloc); direct {
								continue // reassigning the local variable, not the object
							}
							bad = "is written at " + p.InstrPos(x)
						}
					case ssa.CallInstruction:
						if x == ssa.CallInstruction(c) {
							continue
						}
						cc := x.Common()
						if bi, isB := cc.Value.(*ssa.Builtin); isB && (bi.Name() == "len" || bi.Name() == "cap") {
							continue
						}
						if _, again := isPublishCall(x, isPublish); again {
							continue
						}
						for _, arg := range cc.Args {
							if root(arg, 0) == rt {
								bad = "is passed to " + cc.Value.Name() + " at " + p.InstrPos(x)
							}
						}
					}
					if bad != "" {
						break
					}
				}
				r.Check(bad == "", rule, fmt.Sprintf("%s publication #%d", shortFn(f), n), p.InstrPos(c),
					"the published object is neither written nor passed on by this function after the atomic publication",
					"the object published here "+bad+" after the publication: a goroutine that loads it from the atomic may see it unfinished (data race; unfilled table entries read as zero)")
			}
		}
	}
	if n == 0 {
		r.Hold(rule, "atomic publications", "-", "no object is published through sync/atomic in the module (lazily built state goes through sync.Once, rule O1)")
	}
}

func isPublishCall(x ssa.CallInstruction, isPublish func(*ssa.Call) (ssa.Value, bool)) (ssa.Value, bool) {
	c, ok := x.(*ssa.Call)
	if !ok {
		return nil, false
	}
	return isPublish(c)
}

// checkOnceSingle: one Once, one initialiser. Every sync.Once of the module is
// handed the same function at all of its Do call sites. Two different
// initialisers sharing one Once are each individually "guarded", yet whichever
// runs first suppresses the other for the life of the process: the second
// table is never built (a history-dependent failure no single call exposes).
func checkOnceSingle(p *Program, r *Report, rule string) {
	inits := map[*pvar]map[*ssa.Function]string{}
	unknown := map[*pvar]string{}
	callerDep := map[*pvar]string{}
	var order []*pvar
	for _, f := range p.SrcFuncs() {
		for _, b := range f.Blocks {
			for _, in := range b.Instrs {
				g, cl, ok := onceDoCall(in)
				if !ok {
					continue
				}
				// what a package-level Once builds is built once for the whole process: it may not
				// depend on the arguments of whichever call happens to come first
				if c, isCall := in.(*ssa.Call); isCall && len(c.Call.Args) > 0 {
					if mc, isMC := c.Call.Args[len(c.Call.Args)-1].(*ssa.MakeClosure); isMC {
						for _, bnd := range mc.Bindings {
							if w := fromParameter(bnd, 0); w != "" {
								callerDep[g] = fmt.Sprintf("the function handed to Do at %s captures %s of %s", p.InstrPos(in), w, shortFn(f))
							}
						}
					}
				}
				if inits[g] == nil {
					inits[g] = map[*ssa.Function]string{}
					order = append(order, g)
				}
				if cl == nil {
					unknown[g] = p.InstrPos(in)
					continue
				}
				inits[g][cl] = p.InstrPos(in)
			}
		}
	}
	sort.Slice(order, func(i, j int) bool { return order[i].String() < order[j].String() })
	for _, g := range order {
		key := strings.TrimPrefix(g.String(), ModPath+"/") + " initialiser"
		if w, bad := unknown[g]; bad {
			r.Undecide(rule, key, w, "the function handed to Do is not a function literal or named function: which initialiser this Once guards cannot be determined")
			continue
		}
		if w, bad := callerDep[g]; bad {
			r.Violate(rule, key, p.Pos(g.Pos()), w+": the table is built from the arguments of the first call only, and every later caller — whatever it passes — is served that table")
			continue
		}
		var names, sites []string
		for f, w := range inits[g] {
			names = append(names, shortFn(f))
			sites = append(sites, w)
		}
		sort.Strings(names)
		sort.Strings(sites)
		r.Check(len(names) == 1, rule, key, p.Pos(g.Pos()),
			"every Do on this Once is handed the same function "+names[0],
			fmt.Sprintf("%d different functions share this Once (%s at %s): only the first of them to be reached ever runs, the other's table is never built", len(names), strings.Join(names, ", "), strings.Join(sites, ", ")))
	}
}

func runC11(p *Program, r *Report) {
	r.Explanation = "Program-wide who-may-write and dominance analysis on go/ssa (no schedule is run; the argument is the Go memory model's happens-before): (O1) every package-level variable with a store outside package initialisation is written only by code that every call path reaches through Do of one and the same package-level sync.Once (the function passed to Do and what only it calls; execution-context analysis over static call edges), and EVERY load of it, in any function, is dominated by a Do call on that same Once (or lies in the closure) — an unsynchronised `if lut != nil` fast path is a data race whatever the race detector happens to observe; (O2) every other package-level variable, and every element of package-level slices/arrays/maps, is written only during initialisation, and no sync.Once is copied or reset; (O3) closures run by parallel.RunWorkers write only per-iteration locals and pixels of the row they own (rule S1 of C10/C15: rows are disjoint residue classes), never a captured variable, and only read the source; (O4) no function reachable from the loaders / profile reader writes package-level state; no go statement exists outside go-parallel. Derived: every pair of conflicting accesses is ordered by Once, by goroutine start/WaitGroup, or does not exist. Not decided: races inside caller-supplied image.Image / io.Reader implementations; the race detector's own verdict."
	r.RuleText = "one instance per package-level variable (classification), per load of a lazily published variable, per worker closure, per entry point"
	r.Trusted = []string{"go/packages+go/types+go/ssa (x/tools v0.29.0)", "sync.Once.Do publishes the closure's writes to every caller that returns from Do (Go memory model)", "go-parallel RunWorkers starts n goroutines and waits for them (WaitGroup)"}
	r.Assumptions = []string{"caller-supplied images and readers are not mutated concurrently by the caller"}

	// ---- collect accesses to package-level variables
	acc := map[*pvar][]globalAccess{}
	var globals []*pvar
	for _, pk := range p.Prism {
		sp := p.SSAPkg[pk.PkgPath]
		for _, m := range sp.Members {
			if g, ok := m.(*ssa.Global); ok && g.Name() != "init$guard" {
				v, _ := varOf(g)
				globals = append(globals, v)
			}
		}
	}
	nGo := 0
	for _, f := range p.SrcFuncs() {
		for _, b := range f.Blocks {
			for _, in := range b.Instrs {
				switch in := in.(type) {
				case *ssa.Go:
					nGo++
					r.Violate("C11.O2", "go statement in "+shortFn(f), p.InstrPos(in), "goroutine started outside go-parallel: its accesses are not covered by the worker analysis")
				case *ssa.Store:
					if g, direct := varOf(in.Addr); g != nil && isPrismPkg(g.G.Pkg.Pkg) {
						k := "elem-store"
						if direct {
							k = "store"
						}
						acc[g] = append(acc[g], globalAccess{f, in, k})
					}
				case *ssa.MapUpdate:
					if g, _ := varOf(in.Map); g != nil && isPrismPkg(g.G.Pkg.Pkg) {
						acc[g] = append(acc[g], globalAccess{f, in, "elem-store"})
					}
				case ssa.CallInstruction:
					// the address of a package-level variable handed to a call: sync/atomic
					// accesses are loads and stores like any other (they order nothing with
					// respect to OTHER variables' publication by a Once); any other callee
					// may write through the pointer
					cc := in.Common()
					cf := staticCallee(in)
					args := cc.Args
					for ai, a := range args {
						g, direct := varOf(a)
						if g == nil || !direct || !isPrismPkg(g.G.Pkg.Pkg) {
							continue
						}
						if _, isPtr := a.Type().Underlying().(*types.Pointer); !isPtr {
							continue
						}
						if pt, ok := a.Type().Underlying().(*types.Pointer); ok {
							if n, ok := pt.Elem().(*types.Named); ok && n.Obj().Pkg() != nil && n.Obj().Pkg().Path() == "sync" {
								continue // Once/Mutex/WaitGroup receivers: rule O2 handles Once usage
							}
						}
						kind := "elem-store"
						if cf != nil && cf.Pkg != nil && cf.Pkg.Pkg.Path() == "sync/atomic" && ai == 0 {
							if strings.HasPrefix(cf.Name(), "Load") {
								kind = "atomic-load"
							} else {
								kind = "atomic-store"
							}
						} else if cf != nil && cf.Signature.Recv() != nil && ai == 0 && cf.Pkg != nil && cf.Pkg.Pkg.Path() == "sync/atomic" {
							if cf.Name() == "Load" {
								kind = "atomic-load"
							} else {
								kind = "atomic-store"
							}
						}
						if instr, ok := in.(ssa.Instruction); ok {
							acc[g] = append(acc[g], globalAccess{f, instr, kind})
						}
					}
				case *ssa.UnOp:
					if in.Op == token.MUL {
						if g, direct := varOf(in.X); g != nil && direct && isPrismPkg(g.G.Pkg.Pkg) {
							acc[g] = append(acc[g], globalAccess{f, in, "load"})
						}
					}
				}
			}
		}
	}
	// fields of package-level structs that are accessed on their own are variables too
	seenVar := map[*pvar]bool{}
	for _, g := range globals {
		seenVar[g] = true
	}
	for g := range acc {
		if !seenVar[g] {
			seenVar[g] = true
			globals = append(globals, g)
		}
	}
	sort.Slice(globals, func(i, j int) bool { return globals[i].String() < globals[j].String() })
	r.Check(nGo == 0, "C11.O2", "no go statements", "-", "no go statement in prism (goroutines come only from go-parallel's RunWorkers)", "go statements present")

	// ---- Once.Do sites
	type onceSite struct {
		Once    *pvar
		Closure *ssa.Function
		Call    *ssa.Call
		In      *ssa.Function
	}
	var doSites []onceSite
	for _, f := range p.SrcFuncs() {
		for _, b := range f.Blocks {
			for _, in := range b.Instrs {
				if g, cl, ok := onceDoCall(in); ok {
					doSites = append(doSites, onceSite{g, cl, in.(*ssa.Call), f})
				}
			}
		}
	}
	// functions that always pass through Do of a given Once before returning
	// ("ensure" helpers): calling one is as good as calling Do directly
	ensures := map[*ssa.Function]map[*pvar]bool{}
	for changed := true; changed; {
		changed = false
		for _, f := range p.SrcFuncs() {
			if len(f.Blocks) == 0 {
				continue
			}
			for _, b := range f.Blocks {
				for _, in := range b.Instrs {
					c, ok := in.(*ssa.Call)
					if !ok {
						continue
					}
					var onces []*pvar
					if g, _, ok := onceDoCall(c); ok {
						onces = append(onces, g)
					} else if cf := staticCallee(c); cf != nil {
						for g := range ensures[cf] {
							onces = append(onces, g)
						}
					}
					for _, g := range onces {
						if ensures[f][g] {
							continue
						}
						// the call must dominate every return of f
						all := true
						for _, rb := range f.Blocks {
							if ret, ok := rb.Instrs[len(rb.Instrs)-1].(*ssa.Return); ok && !dominatesInstr(c, ret) {
								all = false
							}
						}
						if all {
							if ensures[f] == nil {
								ensures[f] = map[*pvar]bool{}
							}
							ensures[f][g] = true
							changed = true
						}
					}
				}
			}
		}
	}
	// the execution context of every function: during package initialisation
	// only, under Do of exactly one Once only, or anywhere
	ctx := execContexts(p)
	closureOnce := map[*ssa.Function]*pvar{}
	for _, f := range p.SrcFuncs() {
		if o := ctx[f].singleOnce(); o != nil {
			closureOnce[f] = o
		}
	}

	// the table path: functions that pass through a Once or read a variable written after
	// initialisation, and everything they call
	tablePath := map[*ssa.Function]bool{}
	{
		var work []*ssa.Function
		mark := func(f *ssa.Function) {
			if f != nil && !tablePath[f] {
				tablePath[f] = true
				work = append(work, f)
			}
		}
		for _, s := range doSites {
			mark(s.In)
			mark(s.Closure)
		}
		for len(work) > 0 {
			f := work[len(work)-1]
			work = work[:len(work)-1]
			for _, b := range f.Blocks {
				for _, in := range b.Instrs {
					if c, ok := in.(ssa.CallInstruction); ok {
						if cf := staticCallee(c); cf != nil && isPrismFn(cf) {
							mark(cf)
						}
					}
					if mc, ok := in.(*ssa.MakeClosure); ok {
						if cf, ok := mc.Fn.(*ssa.Function); ok {
							mark(cf)
						}
					}
				}
			}
		}
	}

	nLazy := 0
	for _, g := range globals {
		key := strings.TrimPrefix(g.String(), ModPath+"/")
		// a variable touched only through sync/atomic has no data race of its own; what
		// it must not do is steer the table path: its value depends on the schedule
		atomicOnly, late := len(acc[g]) > 0, false
		for _, a := range acc[g] {
			if a.Kind != "atomic-load" && a.Kind != "atomic-store" {
				atomicOnly = false
			}
			if a.Kind == "atomic-store" && !ctx[a.Fn].initOnly() {
				late = true
			}
		}
		if atomicOnly && late {
			r.Hold("C11.O2", key, p.Pos(g.Pos()), "accessed only through sync/atomic (no data race on it)")
			n := 0
			for _, a := range acc[g] {
				if a.Kind != "atomic-load" {
					continue
				}
				n++
				lkey := fmt.Sprintf("%s atomic load#%d in %s", key, n, shortFn(a.Fn))
				r.Check(!tablePath[a.Fn], "C11.O1", lkey, p.InstrPos(a.Instr),
					"read outside the functions that build or consult the lazily built tables: it cannot steer their results",
					fmt.Sprintf("%s consults %s, whose value depends on how far another goroutine has got, on the path that builds or reads a lazily built table: the result follows the schedule", shortFn(a.Fn), g.Name()))
			}
			continue
		}
		if !atomicOnly {
			for i := range acc[g] {
				switch acc[g][i].Kind {
				case "atomic-load":
					acc[g][i].Kind = "load"
				case "atomic-store":
					acc[g][i].Kind = "store"
				}
			}
		}
		var lateStores []globalAccess
		for _, a := range acc[g] {
			if (a.Kind == "store" || a.Kind == "elem-store") && !ctx[a.Fn].initOnly() {
				lateStores = append(lateStores, a)
			}
		}
		if len(lateStores) == 0 {
			r.Hold("C11.O2", key, p.Pos(g.Pos()), "written only during package initialisation (immutable afterwards)")
			continue
		}
		// lazily published: all late stores in closures passed to Do of one Once
		var once *pvar
		ok := true
		why := ""
		for _, a := range lateStores {
			o := closureOnce[a.Fn]
			if o == nil || a.Kind != "store" {
				ok = false
				why = fmt.Sprintf("%s writes %s at %s outside any sync.Once.Do closure (kind %s): concurrent callers race on it", shortFn(a.Fn), g.Name(), p.InstrPos(a.Instr), a.Kind)
				break
			}
			if once != nil && once != o {
				ok = false
				why = "written under two different sync.Once values"
			}
			once = o
		}
		if !ok {
			r.Violate("C11.O1", key+" writers", p.Pos(g.Pos()), why)
			continue
		}
		nLazy++
		r.Hold("C11.O1", key+" writers", p.Pos(g.Pos()), fmt.Sprintf("written only by code that runs under %s.Do (the function passed to Do and what only it calls)", once.Name()))
		// every load dominated by Do(once) in its function, or inside the closure
		n := 0
		for _, a := range acc[g] {
			if a.Kind != "load" {
				continue
			}
			n++
			lkey := fmt.Sprintf("%s load#%d in %s", key, n, shortFn(a.Fn))
			if closureOnce[a.Fn] == once {
				r.Hold("C11.O1", lkey, p.InstrPos(a.Instr), "inside the Once closure itself")
				continue
			}
			dominated := false
			for _, s := range doSites {
				if s.Once == once && s.In == a.Fn && dominatesInstr(s.Call, a.Instr) {
					dominated = true
				}
			}
			// or a dominating call of a helper that always runs Do(once)
			for _, b := range a.Fn.Blocks {
				for _, in := range b.Instrs {
					if c, ok := in.(*ssa.Call); ok {
						if cf := staticCallee(c); cf != nil && ensures[cf][once] && dominatesInstr(c, a.Instr) {
							dominated = true
						}
					}
				}
			}
			r.Check(dominated, "C11.O1", lkey, p.InstrPos(a.Instr),
				fmt.Sprintf("dominated by %s.Do(...) in the same function: the read happens after the publication", once.Name()),
				fmt.Sprintf("%s reads %s without first passing through %s.Do: the read is not ordered after the write inside Once.Do — a data race under the Go memory model when first calls run concurrently (and a torn slice header may be observed)", shortFn(a.Fn), g.Name(), once.Name()))
		}
	}
	// the Once values themselves: only used as Do receivers. Every instruction
	// that produces or uses the address of a Once variable is examined.
	onceUses := map[*pvar][]ssa.Instruction{}
	for _, f := range p.SrcFuncs() {
		for _, b := range f.Blocks {
			for _, in := range b.Instrs {
				var ops []*ssa.Value
				for _, op := range in.Operands(ops) {
					if op == nil || *op == nil {
						continue
					}
					if v, direct := varOf(*op); v != nil && direct && namedIs(v.T, "sync", "Once") {
						if fa, isFA := in.(*ssa.FieldAddr); isFA && fa.X == *op {
							continue // stepping into the struct: the field address is examined at its own uses
						}
						onceUses[v] = append(onceUses[v], in)
					}
				}
			}
		}
	}
	for v := range onceUses {
		if !seenVar[v] {
			seenVar[v] = true
			globals = append(globals, v)
		}
	}
	sort.Slice(globals, func(i, j int) bool { return globals[i].String() < globals[j].String() })
	for _, g := range globals {
		if !namedIs(g.T, "sync", "Once") {
			continue
		}
		bad := ""
		for _, u := range onceUses[g] {
			if og, _, ok := onceDoCall(u); ok && og == g {
				continue
			}
			bad = u.String() + " at " + p.InstrPos(u)
		}
		r.Check(bad == "", "C11.O2", strings.TrimPrefix(g.String(), ModPath+"/")+" usage", p.Pos(g.Pos()), "only ever used as the receiver of Do (never copied, reset or replaced)", "sync.Once is used other than as a Do receiver: "+bad)
	}

	checkOnceSingle(p, r, "C11.O2")
	checkPublishLast(p, r, "C11.O5")
	checkReadOnlyAccessors(p, r, "C11.O6")
	checkPoolSingleReturn(p, r, "C11.O7")

	// ---- O3 workers
	nWorkers := 0
	for _, parent := range []struct{ pkg, fn string }{{"linear", "TransformImageColor"}, {"", "ConvertImageToNRGBA"}, {"", "ConvertImageToRGBA"}, {"", "ConvertImageToRGBA64"}} {
		fn := p.Func(parent.pkg, parent.fn)
		if fn == nil {
			r.Undecide("C11.O3", parent.fn, "-", "function not found")
			continue
		}
		r.SawFn(shortFn(fn))
		sites, _, err := analyseWorkers(p, fn)
		if err != nil {
			r.Undecide("C11.O3", parent.fn, p.FnPos(fn), err.Error())
			continue
		}
		for _, ws := range sites {
			nWorkers++
			key := shortFn(ws.Closure)
			if ws.Closure != nil {
				r.SawFn(key)
			}
			if ws.Err != "" {
				r.Violate("C11.O3", key, ws.Pos, "worker footprint not provably private: "+ws.Err)
				continue
			}
			cf := factsOf(ws)
			if ws.CaseIdx > 0 {
				key = fmt.Sprintf("%s case %d", key, ws.CaseIdx+1)
			}
			// rows owned: the row loops of all cases of this worker form disjoint
			// sets for different workers (residue classes or consecutive bands)
			own := len(cf.Loops) == 2
			why := "the worker is not a row loop over a column loop"
			rowK := ""
			if own {
				rowK = cf.Loops[0].K
				var cases []rowCase
				for _, sb := range sites {
					if sb.Group == ws.Group && sb.Err == "" {
						if c := factsOf(sb); len(c.Loops) == 2 {
							cases = append(cases, rowCase{F: c.Loops[0].First, E: c.Loops[0].Limit, Step: c.Loops[0].Step, Conds: sb.CaseConds})
						}
					}
				}
				// the interval that is partitioned: from worker 0's first row to the last worker's end;
				// disjointness does not depend on which rectangle it is
				minY, maxY := rowInterval(ws.E, cases)
				if ok, _, w := ws.E.rowsPartition(cases, minY, maxY); !ok {
					own, why = false, "the rows of different workers are not provably disjoint: "+w
				}
			}
			// every write (Pix store, Set*) addresses the worker's own row
			for _, sv := range cf.Stores {
				ptr := sv.Recv.(*Ptr)
				if ptr.Base == nil || !strings.Contains(ptr.Base.Key, "Pix") {
					own, why = false, "store to "+trunc(ptr.Key(), 100)+" is not a pixel store"
					break
				}
				if !strings.Contains(valKey(sv.Args[3]), rowK) {
					own, why = false, "pixel store does not depend on the worker's row"
				}
			}
			for _, ev := range cf.Calls {
				if strings.Contains(ev.Fn, "Set") {
					if !strings.Contains(valKey(Tuple(realArgs(ev))), rowK) {
						own, why = false, ev.Fn+" is not addressed by the worker's row"
					}
				}
			}
			r.Check(own, "C11.O3", key, ws.Pos, fmt.Sprintf("writes only pixels of rows ≡ workerNum (mod workerCount) (%d byte stores / Set calls per pixel), no captured variable; the source is only read", len(cf.Stores)+1), why)
		}
	}

	// ---- O4 loaders: reachable functions store to no package-level variable
	entries := []*ssa.Function{p.Func("meta/pngmeta", "Load"), p.Func("meta/jpegmeta", "Load"), p.Func("meta/webpmeta", "Load"), p.Func("meta/autometa", "Load"),
		p.Method("meta/icc", "ProfileReader", "ReadProfile"), p.Method("meta/icc", "Profile", "Description"), p.Method("meta", "Data", "ICCProfile")}
	for _, en := range entries {
		if en == nil {
			r.Undecide("C11.O4", "entry", "-", "entry point not found")
			continue
		}
		reach := reachableFns(en)
		bad := ""
		for f := range reach {
			r.SawFn(shortFn(f))
			for _, as := range acc {
				for _, a := range as {
					if a.Fn == f && a.Kind != "load" {
						bad = fmt.Sprintf("%s writes package-level state at %s", shortFn(f), p.InstrPos(a.Instr))
					}
				}
			}
		}
		r.Check(bad == "", "C11.O4", shortFn(en), p.FnPos(en), fmt.Sprintf("none of the %d functions reachable from it writes package-level state: concurrent calls share nothing mutable", len(reach)), bad)
	}

	r.Floor("C11.O2", 20)
	// O1 has no floor of its own: a tree without lazily published variables has nothing to order;
	// every package-level variable is classified under O2 or O1, and O2 carries the floor // 6 lazily published variables: writers + at least one load each
	r.Floor("C11.O3", 9)
	r.Floor("C11.O4", 7)
	_ = nLazy
	_ = nWorkers
}

// rowInterval recovers [minY, maxY) from the row loops: for stripes the start
// minus workerNum and the common limit; for bands worker 0's start and the
// last worker's end are not needed separately — the rectangle bounds the loops
// mention are taken from the striped form or, failing that, from the atoms
// *.Min.Y / *.Max.Y occurring in the bounds.
func rowInterval(e *Engine, cases []rowCase) (*Form, *Form) {
	w := formAtom("workerNum")
	for _, c := range cases {
		if c.Step.Equal(formAtom("workerCount")) {
			return c.F.Sub(w), c.E
		}
	}
	var minY, maxY *Form
	for _, c := range cases {
		for _, f := range []*Form{c.F, c.E} {
			var walk func(g *Form, d int)
			walk = func(g *Form, d int) {
				if g == nil || d > 4 {
					return
				}
				for a := range g.Atoms() {
					if strings.Contains(a, "Min.Y") || strings.Contains(a, ".Y(.Min(") {
						minY = formAtom(a)
					}
					if strings.Contains(a, "Max.Y") || strings.Contains(a, ".Y(.Max(") {
						maxY = formAtom(a)
					}
					if at := e.A.get(a); at != nil && at.Kind == "app" {
						for _, arg := range at.Args {
							if af, ok := arg.(*Form); ok {
								walk(af, d+1)
							}
						}
					}
				}
			}
			walk(f, 0)
		}
	}
	if minY == nil {
		minY = formInt(0)
	}
	if maxY == nil {
		maxY = formInt(0)
	}
	return minY, maxY
}

// checkReadOnlyAccessors (O6): what the loaders hand out — a *meta.Data — may be
// shared by the goroutines that asked for it. Its accessors (every method that is not
// a Set…) read only: no store through the receiver, directly or in a module function
// the receiver is passed to. An accessor that "remembers" a failure by rewriting the
// record races with every other accessor and changes what they return (seed C11-P).
func checkReadOnlyAccessors(p *Program, r *Report, rule string) {
	var writesThroughParam func(f *ssa.Function, pi int, depth int) string
	writesThroughParam = func(f *ssa.Function, pi int, depth int) string {
		if f == nil || len(f.Blocks) == 0 || pi >= len(f.Params) || depth > 4 {
			return ""
		}
		derived := map[ssa.Value]bool{f.Params[pi]: true}
		for changed := true; changed; {
			changed = false
			for _, b := range f.Blocks {
				for _, in := range b.Instrs {
					v, ok := in.(ssa.Value)
					if !ok || derived[v] {
						continue
					}
					switch x := in.(type) {
					case *ssa.FieldAddr:
						if derived[x.X] {
							derived[v], changed = true, true
						}
					case *ssa.IndexAddr:
						if derived[x.X] {
							derived[v], changed = true, true
						}
					case *ssa.Phi:
						for _, e := range x.Edges {
							if derived[e] {
								derived[v], changed = true, true
							}
						}
					}
				}
			}
		}
		for _, b := range f.Blocks {
			for _, in := range b.Instrs {
				switch x := in.(type) {
				case *ssa.Store:
					if derived[x.Addr] {
						return fmt.Sprintf("%s stores through it at %s", shortFn(f), p.InstrPos(x))
					}
				case ssa.CallInstruction:
					cf := staticCallee(x)
					if cf == nil || !isPrismFn(cf) {
						continue
					}
					for ai, a := range x.Common().Args {
						if derived[a] {
							if w := writesThroughParam(cf, ai, depth+1); w != "" {
								return w
							}
						}
					}
				}
			}
		}
		return ""
	}
	n := 0
	for _, f := range p.SrcFuncs() {
		if f.Parent() != nil || f.Signature.Recv() == nil || !namedIs(f.Signature.Recv().Type(), ModPath+"/meta", "Data") {
			continue
		}
		if _, isPtr := f.Signature.Recv().Type().(*types.Pointer); !isPtr || strings.HasPrefix(f.Name(), "Set") || !token.IsExported(f.Name()) {
			continue
		}
		n++
		w := writesThroughParam(f, 0, 0)
		r.Check(w == "", rule, shortFn(f), p.FnPos(f), "the accessor only reads the record it is called on", "the accessor writes to the shared record: "+w+" — concurrent callers race, and what the other accessors return changes under them")
	}
	r.Check(n > 0, rule, "metadata accessors are read-only", "-", fmt.Sprintf("%d accessors of *meta.Data examined", n), "no accessor of *meta.Data found")
}

// fromParameter: v is a parameter of its function, or a variable cell (a captured
// local) into which a parameter is stored; returns a description or "".
func fromParameter(v ssa.Value, depth int) string {
	if depth > 4 {
		return ""
	}
	switch x := v.(type) {
	case *ssa.Parameter:
		return "parameter " + x.Name()
	case *ssa.Alloc:
		for _, ref := range *x.Referrers() {
			if st, ok := ref.(*ssa.Store); ok && st.Addr == ssa.Value(x) {
				if w := fromParameter(st.Val, depth+1); w != "" {
					return w
				}
			}
		}
	case *ssa.MakeInterface:
		return fromParameter(x.X, depth+1)
	case *ssa.ChangeType:
		return fromParameter(x.X, depth+1)
	}
	return ""
}

// checkPoolSingleReturn (O7): an object taken from a sync.Pool belongs to one call until it is
// put back, and it is put back once. A function that both defers and directly calls a routine
// which unconditionally reaches (*sync.Pool).Put hands the same object to the pool twice on every
// path through the direct call; two later concurrent Gets then receive the one object and the
// calls overwrite each other's data (seed C11-Q: neither release site is wrong alone). The rule
// reports the function and both sites. A release routine that contains a branch (a nil/guard
// test that can make it idempotent) is not reported.
func checkPoolSingleReturn(p *Program, r *Report, rule string) {
	isPut := func(c ssa.CallInstruction) bool {
		cf := staticCallee(c)
		if cf == nil || cf.Signature.Recv() == nil || cf.Name() != "Put" || cf.Pkg == nil || cf.Pkg.Pkg.Path() != "sync" {
			return false
		}
		return strings.Contains(cf.Signature.Recv().Type().String(), "sync.Pool")
	}
	// routines that unconditionally put: straight-line body containing a Put or a call to such a routine
	puts := map[*ssa.Function]bool{}
	for changed := true; changed; {
		changed = false
		for _, f := range p.SrcFuncs() {
			if puts[f] || len(f.Blocks) != 1 {
				continue
			}
			for _, in := range f.Blocks[0].Instrs {
				c, ok := in.(ssa.CallInstruction)
				if !ok {
					continue
				}
				if isPut(c) || puts[staticCallee(c)] {
					puts[f] = true
					changed = true
					break
				}
			}
		}
	}
	nPool, nSites, bad := 0, 0, ""
	for _, f := range p.SrcFuncs() {
		type site struct {
			deferred bool
			in       ssa.Instruction
		}
		byTarget := map[string][]site{}
		for _, b := range f.Blocks {
			for _, in := range b.Instrs {
				c, ok := in.(ssa.CallInstruction)
				if !ok {
					continue
				}
				cf := staticCallee(c)
				if cf != nil && cf.Pkg != nil && cf.Pkg.Pkg.Path() == "sync" && cf.Signature.Recv() != nil && strings.Contains(cf.Signature.Recv().Type().String(), "sync.Pool") {
					nPool++
				}
				if !isPut(c) && !puts[cf] {
					continue
				}
				nSites++
				k := cf.String()
				if len(c.Common().Args) > 0 {
					k += " " + c.Common().Args[0].Name()
				}
				_, d := in.(*ssa.Defer)
				byTarget[k] = append(byTarget[k], site{d, in})
			}
		}
		for _, ss := range byTarget {
			var def, dir ssa.Instruction
			for _, s := range ss {
				if s.deferred {
					def = s.in
				} else {
					dir = s.in
				}
			}
			if def != nil && dir != nil {
				bad = fmt.Sprintf("%s releases the same pooled object twice: deferred at %s and directly at %s — the pool then holds it twice and two concurrent calls are handed the same buffer", shortFn(f), p.InstrPos(def), p.InstrPos(dir))
			}
		}
	}
	r.Check(bad == "", rule, "pooled objects are returned once", "-", fmt.Sprintf("%d sync.Pool calls, %d release sites: no function both defers and directly calls an unconditional release of the same object", nPool, nSites), bad)
}
