package main

import (
	"fmt"
	"go/token"
	"go/types"
	"sort"
	"strings"

	"golang.org/x/tools/go/ssa"
)

// C20.singular — "inverting an exactly singular matrix panics instead of
// returning a matrix".
//
// The guard of Matrix3.Inverse is `det == 0` on a float64 determinant, so the
// clause holds for a family of singular inputs only if the determinant
// expression, AS WRITTEN (operation order and all), evaluates to exactly 0.0
// for every member of the family. That is decided here by rewriting the
// expression tree extracted from go/ssa with identities that are exact in
// IEEE-754 arithmetic (no real-number algebra):
//
//	x·y = y·x      −(x) exact      x + (−x) = 0      0·x = 0      0 + x = x
//	−a + b = −(a − b)   (rounding is symmetric)
//
// Families: a zero column (3) and two equal columns (3) — the "repeated or
// zero columns" of the property's quantifier.

type ftree struct {
	zero bool
	neg  bool
	key  string // canonical key of the magnitude
}

func ftLeaf(name string) ftree { return ftree{key: name} }
func ftZero() ftree            { return ftree{zero: true} }

func ftNeg(a ftree) ftree {
	if a.zero {
		return a
	}
	a.neg = !a.neg
	return a
}

func ftMul(a, b ftree) ftree {
	if a.zero || b.zero {
		return ftZero() // finite operands assumed (0·Inf would be NaN)
	}
	ks := []string{a.key, b.key}
	sort.Strings(ks)
	return ftree{neg: a.neg != b.neg, key: "(" + ks[0] + "*" + ks[1] + ")"}
}

func ftAdd(a, b ftree) ftree {
	switch {
	case a.zero:
		return b
	case b.zero:
		return a
	}
	if a.key == b.key {
		if a.neg != b.neg {
			return ftZero() // x + (−x) = 0 exactly
		}
		return ftree{neg: a.neg, key: "(2*" + a.key + ")"}
	}
	// canonical order; factor the sign of the first operand out
	if b.key < a.key {
		a, b = b, a
	}
	op := "+"
	if a.neg != b.neg {
		op = "-"
	}
	return ftree{neg: a.neg, key: "(" + a.key + op + b.key + ")"}
}

// ftEval evaluates straight-line float code of fn up to (and excluding) its
// first conditional branch and returns the tree of the value compared with 0.
type ftEnv struct {
	vals  map[ssa.Value]ftree
	cells map[ssa.Value]map[string]ftree // alloc -> "path" -> tree
	aggs  map[ssa.Value]map[string]ftree // aggregate SSA values (params, loads of whole arrays)
	leaf  func(path string) ftree
}

func pathKey(idx ...int64) string {
	var sb strings.Builder
	for _, i := range idx {
		fmt.Fprintf(&sb, "[%d]", i)
	}
	return sb.String()
}

// addrOf resolves an address value to (root alloc/param aggregate, path).
func addrOf(v ssa.Value) (ssa.Value, string, bool) {
	path := ""
	for i := 0; i < 8; i++ {
		switch x := v.(type) {
		case *ssa.IndexAddr:
			c, ok := constInt(x.Index)
			if !ok {
				return nil, "", false
			}
			path = pathKey(c) + path
			v = x.X
		case *ssa.FieldAddr:
			path = pathKey(int64(x.Field)) + path
			v = x.X
		case *ssa.Alloc:
			return x, path, true
		default:
			return nil, "", false
		}
	}
	return nil, "", false
}

func (env *ftEnv) get(v ssa.Value) (ftree, bool) {
	if c, ok := v.(*ssa.Const); ok {
		if c.Value == nil {
			return ftZero(), true
		}
		if r, ok := ratFromConst(c.Value); ok {
			if r.Sign() == 0 {
				return ftZero(), true
			}
			return ftLeaf("const:" + r.RatString()), true
		}
		return ftree{}, false
	}
	t, ok := env.vals[v]
	return t, ok
}

// aggOf returns the element trees of an aggregate-valued SSA value.
func (env *ftEnv) aggOf(v ssa.Value) (map[string]ftree, bool) {
	if a, ok := env.aggs[v]; ok {
		return a, true
	}
	if c, ok := v.(*ssa.Const); ok && c.Value == nil {
		return map[string]ftree{}, true // zero value: every element 0 (absent = zero)
	}
	return nil, false
}

func ftRun(fn *ssa.Function, args []map[string]ftree, scalars []ftree, depth int) (ret ssa.Value, env *ftEnv, cmp *ssa.BinOp, why string) {
	env = &ftEnv{vals: map[ssa.Value]ftree{}, cells: map[ssa.Value]map[string]ftree{}, aggs: map[ssa.Value]map[string]ftree{}}
	ai, si := 0, 0
	for _, p := range fn.Params {
		if _, isF := isFloatType(p.Type()); isF {
			if si < len(scalars) {
				env.vals[p] = scalars[si]
			}
			si++
			continue
		}
		if ai < len(args) {
			env.aggs[p] = args[ai]
		}
		ai++
	}
	if len(fn.Blocks) == 0 {
		return nil, env, nil, "no body"
	}
	for _, in := range fn.Blocks[0].Instrs {
		switch in := in.(type) {
		case *ssa.DebugRef:
		case *ssa.Alloc:
			env.cells[in] = map[string]ftree{}
		case *ssa.Store:
			root, path, ok := addrOf(in.Addr)
			if !ok {
				return nil, env, nil, "store through an address that is not a constant path: " + in.String()
			}
			cell := env.cells[root]
			if t, ok := env.get(in.Val); ok {
				cell[path] = t
				continue
			}
			if a, ok := env.aggOf(in.Val); ok {
				// whole-aggregate store: replace everything under path
				for k := range cell {
					if strings.HasPrefix(k, path) {
						delete(cell, k)
					}
				}
				for k, t := range a {
					cell[path+k] = t
				}
				continue
			}
			return nil, env, nil, "store of an untracked value: " + in.String()
		case *ssa.IndexAddr, *ssa.FieldAddr:
			// resolved at use
		case *ssa.UnOp:
			switch in.Op {
			case token.MUL:
				root, path, ok := addrOf(in.X)
				if !ok {
					return nil, env, nil, "load through an address that is not a constant path: " + in.String()
				}
				cell := env.cells[root]
				if _, isF := isFloatType(in.Type()); isF {
					if t, ok := cell[path]; ok {
						env.vals[in] = t
					} else {
						env.vals[in] = ftZero()
					}
					continue
				}
				sub := map[string]ftree{}
				for k, t := range cell {
					if strings.HasPrefix(k, path) {
						sub[strings.TrimPrefix(k, path)] = t
					}
				}
				env.aggs[in] = sub
			case token.SUB:
				t, ok := env.get(in.X)
				if !ok {
					return nil, env, nil, "negation of an untracked value"
				}
				env.vals[in] = ftNeg(t)
			default:
				return nil, env, nil, "unsupported unary operation " + in.String()
			}
		case *ssa.Index:
			a, ok := env.aggOf(in.X)
			c, okc := constInt(in.Index)
			if !ok || !okc {
				return nil, env, nil, "index of an untracked aggregate"
			}
			if _, isF := isFloatType(in.Type()); isF {
				if t, ok := a[pathKey(c)]; ok {
					env.vals[in] = t
				} else {
					env.vals[in] = ftZero()
				}
				continue
			}
			sub := map[string]ftree{}
			for k, t := range a {
				if strings.HasPrefix(k, pathKey(c)) {
					sub[strings.TrimPrefix(k, pathKey(c))] = t
				}
			}
			env.aggs[in] = sub
		case *ssa.BinOp:
			if in.Op == token.EQL || in.Op == token.NEQ {
				return nil, env, in, ""
			}
			x, okx := env.get(in.X)
			y, oky := env.get(in.Y)
			if !okx || !oky {
				return nil, env, nil, "operation on an untracked value: " + in.String()
			}
			switch in.Op {
			case token.ADD:
				env.vals[in] = ftAdd(x, y)
			case token.SUB:
				env.vals[in] = ftAdd(x, ftNeg(y))
			case token.MUL:
				env.vals[in] = ftMul(x, y)
			default:
				return nil, env, nil, "operation " + in.Op.String() + " before the determinant test"
			}
		case *ssa.Call:
			cf := staticCallee(in)
			if cf == nil || !isPrismFn(cf) || depth > 3 {
				return nil, env, nil, "call that cannot be followed: " + in.String()
			}
			var aargs []map[string]ftree
			var sargs []ftree
			for _, a := range in.Call.Args {
				if _, isF := isFloatType(a.Type()); isF {
					t, ok := env.get(a)
					if !ok {
						return nil, env, nil, "untracked scalar argument"
					}
					sargs = append(sargs, t)
					continue
				}
				ag, ok := env.aggOf(a)
				if !ok {
					return nil, env, nil, "untracked aggregate argument of " + in.String()
				}
				aargs = append(aargs, ag)
			}
			rv, cenv, ccmp, why := ftRun(cf, aargs, sargs, depth+1)
			if why != "" {
				return nil, env, nil, why
			}
			if rv == nil && ccmp != nil {
				// the determinant test sits in the callee (Inverse wrapping a TryInverse): what the
				// test decides is followed by the interpreter's rule on Inverse; here, its operand
				return nil, cenv, ccmp, ""
			}
			if rv == nil {
				return nil, env, nil, "callee does not return from its first block: " + shortFn(cf)
			}
			if t, ok := cenv.get(rv); ok {
				env.vals[in] = t
			} else if a, ok := cenv.aggOf(rv); ok {
				env.aggs[in] = a
			} else {
				return nil, env, nil, "callee result untracked"
			}
		case *ssa.Return:
			if len(in.Results) == 1 {
				return in.Results[0], env, nil, ""
			}
			return nil, env, nil, "multiple results"
		case *ssa.If, *ssa.Jump:
			return nil, env, nil, ""
		default:
			return nil, env, nil, fmt.Sprintf("unsupported instruction %T before the determinant test", in)
		}
	}
	return nil, env, nil, ""
}

func checkSingularPanics(p *Program, r *Report, rule string) {
	fn := p.Method("matrix", "Matrix3", "Inverse")
	if fn == nil {
		r.Undecide(rule, "Matrix3.Inverse", "-", "anchor not found")
		return
	}
	pos := p.FnPos(fn)
	type fam struct {
		name string
		leaf func(c, r int64) ftree
	}
	var fams []fam
	for z := int64(0); z < 3; z++ {
		z := z
		fams = append(fams, fam{fmt.Sprintf("column %d is zero", z), func(c, rr int64) ftree {
			if c == z {
				return ftZero()
			}
			return ftLeaf(fmt.Sprintf("m[%d][%d]", c, rr))
		}})
	}
	for _, pr := range [][2]int64{{0, 1}, {0, 2}, {1, 2}} {
		pr := pr
		fams = append(fams, fam{fmt.Sprintf("columns %d and %d are equal", pr[0], pr[1]), func(c, rr int64) ftree {
			if c == pr[1] {
				c = pr[0]
			}
			return ftLeaf(fmt.Sprintf("m[%d][%d]", c, rr))
		}})
	}
	for _, f := range fams {
		m := map[string]ftree{}
		for c := int64(0); c < 3; c++ {
			for rr := int64(0); rr < 3; rr++ {
				m[pathKey(c, rr)] = f.leaf(c, rr)
			}
		}
		_, env, cmp, why := ftRun(fn, []map[string]ftree{m}, nil, 0)
		key := "exactly singular: " + f.name
		if why != "" || cmp == nil {
			r.Undecide(rule, key, pos, "determinant expression not extractable as straight-line float code: "+why)
			continue
		}
		det := cmp.X
		if c, ok := cmp.Y.(*ssa.Const); !ok || c.Value == nil {
			det = cmp.Y
		}
		t, ok := env.get(det)
		if !ok {
			r.Undecide(rule, key, pos, "determinant value untracked")
			continue
		}
		r.Check(t.zero, rule, key, p.InstrPos(cmp),
			"the determinant expression, as written, reduces to exactly 0.0 by IEEE-exact identities (x·y=y·x, x+(−x)=0, 0·x=0): `det == 0` fires and Inverse panics",
			fmt.Sprintf("the determinant as written does not cancel exactly when %s: it evaluates to rounding noise ±%s, the `det == 0` guard is missed and a matrix with entries ~1e16 is returned instead of the documented panic", f.name, trunc(t.key, 160)))
	}
}

var _ = types.Typ
