package main

import (
	"fmt"
	"go/token"
	"go/types"
	"os"
	"sort"
	"strings"

	"golang.org/x/tools/go/ssa"
)

// ---------------------------------------------------------------------------
// Abstract interpretation of the three extractMetadata parsers over a
// symbolic byte stream (Engine B). Shared by C05, C06, C18.

type parserRun struct {
	Fn     *ssa.Function
	E      *Engine
	Stream *Stream
	Outs   []Outcome
	Succ   []Outcome // returns (md, nil)
	Fail   []Outcome // returns (_, non-nil error)
	Cutoff int
	Stuck  []Outcome
}

type parserOpts struct {
	MaxIter, MaxForks int
	FailReads         bool
	Opaque            func(*ssa.Function) bool
	SeqCalls          func(string) bool
	Prune             func(*BoolVal) bool
	TraceCalls        func(*ssa.Function) bool
	MaxPaths          int
}

func runParser(p *Program, fn *ssa.Function, o parserOpts) *parserRun {
	e := NewEngine(p)
	e.EvalInits = true
	e.MaxIter, e.MaxForks = o.MaxIter, o.MaxForks
	e.FailReads = o.FailReads
	e.Opaque = o.Opaque
	e.SeqCalls = o.SeqCalls
	e.Prune = o.Prune
	e.TraceCalls = o.TraceCalls
	e.PruneByFacts = true
	e.TrackFieldStores = func(owner types.Type, field string) bool {
		return namedIs(owner, ModPath+"/meta", "Data") && (field == "PixelWidth" || field == "PixelHeight" || field == "BitsPerComponent" || field == "Format")
	}
	e.MaxPaths = 20000
	if o.MaxPaths > 0 {
		e.MaxPaths = o.MaxPaths
	}
	st := newState()
	s := &Stream{Name: "in"}
	st.pos[s] = formInt(0)
	pr := &parserRun{Fn: fn, E: e, Stream: s}
	pr.Outs = e.Run(fn, []Val{&ReaderVal{S: s}}, st)
	for _, o := range pr.Outs {
		switch o.Kind {
		case "return":
			tp, _ := o.Ret.(Tuple)
			if len(tp) == 2 {
				if ev, ok := tp[1].(*ErrVal); ok && ev.IsNil {
					pr.Succ = append(pr.Succ, o)
					continue
				}
			}
			pr.Fail = append(pr.Fail, o)
		case "cutoff":
			pr.Cutoff++
		default:
			pr.Stuck = append(pr.Stuck, o)
		}
	}
	if os.Getenv("PRISMCHECK_TRACE") == "parser" {
		fmt.Fprintf(os.Stderr, "PARSER %s: %d succ %d fail %d cutoff %d stuck, %d paths\n", shortFn(fn), len(pr.Succ), len(pr.Fail), pr.Cutoff, len(pr.Stuck), e.paths)
		for i, o := range pr.Stuck {
			if i >= 2 {
				break
			}
			fmt.Fprintln(os.Stderr, "  STUCK", o.Why, p.Pos(o.Pos))
			for _, c := range o.St.conds {
				fmt.Fprintln(os.Stderr, "     ", trunc(c.Key(), 200))
			}
		}
	}
	return pr
}

// mdOf returns the meta.Data value an outcome returns.
type mdFacts struct {
	Format              string
	Width, Height, Bits *Form
	ICCData             Val
	ICCErr              Val
	OK                  bool
}

func mdOf(o Outcome) mdFacts {
	var m mdFacts
	tp, _ := o.Ret.(Tuple)
	if len(tp) != 2 {
		return m
	}
	ptr, ok := tp[0].(*Ptr)
	if !ok || ptr.Cell == nil {
		return m
	}
	a, ok := o.St.mem[ptr.Cell].(*Agg)
	if !ok {
		return m
	}
	st, ok := a.Type.Underlying().(*types.Struct)
	if !ok {
		return m
	}
	for i := 0; i < st.NumFields(); i++ {
		switch st.Field(i).Name() {
		case "Format":
			if s, ok := a.Elems[i].(*StrVal); ok {
				m.Format = s.S
			} else {
				m.Format = valKey(a.Elems[i])
			}
		case "PixelWidth":
			m.Width, _ = a.Elems[i].(*Form)
		case "PixelHeight":
			m.Height, _ = a.Elems[i].(*Form)
		case "BitsPerComponent":
			m.Bits, _ = a.Elems[i].(*Form)
		case "iccProfileData":
			m.ICCData = a.Elems[i]
		case "iccProfileErr":
			m.ICCErr = a.Elems[i]
		}
	}
	m.OK = m.Width != nil && m.Height != nil && m.Bits != nil
	return m
}

// byteRef is one input byte: stream offset as a form.
type byteRef struct {
	Off *Form
}

// byteOffOf returns the stream offset of a byte atom key.
func byteOffOf(e *Engine, atom string) (*Form, bool) {
	at := e.A.get(atom)
	if at == nil || at.Kind != "byte" {
		return nil, false
	}
	if at.Off >= 0 {
		return formInt(at.Off), true
	}
	return at.OffF, at.OffF != nil
}

// fieldBytes decodes an integer form built from whole input bytes: it
// returns, most significant first, (offset, lo, width) of each run, plus the
// number of leading zero bits.
type bitsRun struct {
	Off   *Form
	Lo    int
	Width int
	At    int
}

func fieldRuns(e *Engine, f *Form, t types.Type) ([]bitsRun, bool) {
	bv := e.BVOf(f, t)
	runs := bv.Runs()
	var out []bitsRun
	for i := len(runs) - 1; i >= 0; i-- {
		rr := runs[i]
		switch rr.Kind {
		case '0':
			continue
		case 'a':
			off, ok := byteOffOf(e, rr.A)
			if !ok {
				return nil, false
			}
			out = append(out, bitsRun{off, rr.Lo, rr.Width, rr.At})
		default:
			return nil, false
		}
	}
	return out, true
}

// isBE reports whether runs are n whole bytes at base, base+1, ... (big
// endian, filling bits 8n-1..0) and returns base.
func isBE(runs []bitsRun, n int) (*Form, bool) {
	if len(runs) != n {
		return nil, false
	}
	base := runs[0].Off
	for k, rr := range runs {
		if rr.Lo != 0 || rr.Width != 8 || rr.At != 8*(n-1-k) || !rr.Off.Equal(base.Add(formInt(int64(k)))) {
			return nil, false
		}
	}
	return base, true
}

func runsStr(runs []bitsRun) string {
	var parts []string
	for _, rr := range runs {
		parts = append(parts, fmt.Sprintf("in[%s]:%d..%d@%d", trunc(rr.Off.Key(), 40), rr.Lo+rr.Width-1, rr.Lo, rr.At))
	}
	return strings.Join(parts, "|")
}

// tagCond is a path condition comparing four consecutive input bytes with a
// four-character code.
type tagCond struct {
	Off   *Form
	Tag   string
	Equal bool
}

func tagConds(e *Engine, o Outcome) []tagCond {
	var out []tagCond
	for _, c := range o.St.conds {
		a, ok1 := c.A.(*Agg)
		b, ok2 := c.B.(*Agg)
		if !ok1 || !ok2 || len(a.Elems) != len(b.Elems) || (c.Op != "==" && c.Op != "!=") {
			continue
		}
		n := len(a.Elems)
		var off *Form
		tag := make([]byte, n)
		good := true
		for i := 0; i < n && good; i++ {
			af, okA := a.Elems[i].(*Form)
			bf, okB := b.Elems[i].(*Form)
			if !okA || !okB {
				good = false
				break
			}
			if _, isC := af.Const(); isC {
				af, bf = bf, af
			}
			an, isA := af.SingleAtom()
			cv, isC := bf.ConstInt()
			if !isA || !isC {
				good = false
				break
			}
			o, ok := byteOffOf(e, an)
			if !ok {
				good = false
				break
			}
			if i == 0 {
				off = o
			} else if !o.Equal(off.Add(formInt(int64(i)))) {
				good = false
			}
			tag[i] = byte(cv)
		}
		if good {
			out = append(out, tagCond{off, string(tag), c.Op == "=="})
		}
	}
	return out
}

// byteEqConds lists path conditions `in[off] == const`.
func byteEqConds(e *Engine, o Outcome) map[string]int64 {
	m := map[string]int64{}
	for _, c := range o.St.conds {
		if c.Op != "==" {
			continue
		}
		// an array of bytes compared with a constant array: element-wise
		if aa, okA := c.A.(*Agg); okA {
			if ab, okB := c.B.(*Agg); okB && len(aa.Elems) == len(ab.Elems) {
				for i := range aa.Elems {
					x, ok1 := aa.Elems[i].(*Form)
					y, ok2 := ab.Elems[i].(*Form)
					if !ok1 || !ok2 {
						continue
					}
					if _, isC := x.Const(); isC {
						x, y = y, x
					}
					an, isA := x.SingleAtom()
					cv, isC := y.ConstInt()
					if isA && isC {
						if off, ok := byteOffOf(e, an); ok {
							m[off.Key()] = cv
						}
					}
				}
			}
			continue
		}
		a, ok1 := c.A.(*Form)
		b, ok2 := c.B.(*Form)
		if !ok1 || !ok2 {
			continue
		}
		if _, isC := a.Const(); isC {
			a, b = b, a
		}
		an, isA := a.SingleAtom()
		cv, isC := b.ConstInt()
		if !isA || !isC {
			continue
		}
		if off, ok := byteOffOf(e, an); ok {
			m[off.Key()] = cv
		}
	}
	return m
}

// posOf returns the final stream position of an outcome.
func (pr *parserRun) posOf(o Outcome) *Form {
	p := o.St.pos[pr.Stream]
	if p == nil {
		return formInt(0)
	}
	return o.St.resolve(p)
}

func sortedTags(ts []tagCond) []tagCond {
	out := append([]tagCond(nil), ts...)
	sort.SliceStable(out, func(i, j int) bool {
		ci, oki := out[i].Off.ConstInt()
		cj, okj := out[j].Off.ConstInt()
		if oki && okj {
			return ci < cj
		}
		return oki && !okj
	})
	return out
}

// setupArgs builds abstract arguments for fn: stream readers (directly or as
// a field of a pointed-to struct) become a ReaderVal over stream s; everything
// else is symbolic.
func setupArgs(e *Engine, st *State, fn *ssa.Function, s *Stream) []Val {
	var args []Val
	for _, prm := range fn.Params {
		t := prm.Type()
		if types.IsInterface(t) && isReaderType(t) {
			args = append(args, &ReaderVal{S: s})
			continue
		}
		if pt, ok := t.(*types.Pointer); ok {
			if stt, ok := pt.Elem().Underlying().(*types.Struct); ok {
				hasReader := false
				for i := 0; i < stt.NumFields(); i++ {
					if types.IsInterface(stt.Field(i).Type()) && isReaderType(stt.Field(i).Type()) {
						hasReader = true
					}
				}
				if hasReader {
					c := e.newCell(prm.Name(), pt.Elem())
					a := &Agg{Type: pt.Elem(), Elems: make([]Val, stt.NumFields())}
					for i := 0; i < stt.NumFields(); i++ {
						if types.IsInterface(stt.Field(i).Type()) && isReaderType(stt.Field(i).Type()) {
							a.Elems[i] = &ReaderVal{S: s}
						} else {
							a.Elems[i] = e.zeroVal(stt.Field(i).Type())
						}
					}
					st.mem[c] = a
					args = append(args, &Ptr{Cell: c})
					continue
				}
			}
		}
		args = append(args, e.SymVal(prm.Name(), t))
	}
	return args
}

// checkFieldWriters (C05.writers): every instruction in the parser (and what it
// calls) that stores one of the reported fields lies on at least one explored
// success path — otherwise what that store does to the result was never judged:
// the rules on the fields speak of the explored success paths only.
func checkFieldWriters(p *Program, r *Report, rule, name string, pr *parserRun) {
	if pr == nil || pr.Fn == nil {
		return
	}
	reached := map[token.Pos]bool{}
	for _, o := range pr.Succ {
		for _, ev := range o.St.events {
			if ev.Kind == "fieldstore" {
				reached[ev.Pos] = true
			}
		}
	}
	// (stores inside summarised loops are replayed as part of the summary, not as events:
	// count a store as reached when any success path carries a loop summary covering it)
	fns := map[*ssa.Function]bool{}
	var walk func(f *ssa.Function)
	walk = func(f *ssa.Function) {
		if f == nil || fns[f] || !isPrismFn(f) {
			return
		}
		fns[f] = true
		for _, b := range f.Blocks {
			for _, in := range b.Instrs {
				if c, ok := in.(ssa.CallInstruction); ok {
					walk(staticCallee(c))
				}
				if mc, ok := in.(*ssa.MakeClosure); ok {
					if g, ok := mc.Fn.(*ssa.Function); ok {
						walk(g)
					}
				}
			}
		}
	}
	walk(pr.Fn)
	n, bad := 0, ""
	var fl []*ssa.Function
	for f := range fns {
		fl = append(fl, f)
	}
	sort.Slice(fl, func(i, j int) bool { return shortFn(fl[i]) < shortFn(fl[j]) })
	for _, f := range fl {
		for _, b := range f.Blocks {
			for _, in := range b.Instrs {
				st, ok := in.(*ssa.Store)
				if !ok {
					continue
				}
				fa, ok := st.Addr.(*ssa.FieldAddr)
				if !ok {
					continue
				}
				pt, ok := fa.X.Type().Underlying().(*types.Pointer)
				if !ok || !namedIs(pt.Elem(), ModPath+"/meta", "Data") {
					continue
				}
				stt := pt.Elem().Underlying().(*types.Struct)
				fname := stt.Field(fa.Field).Name()
				if fname != "PixelWidth" && fname != "PixelHeight" && fname != "BitsPerComponent" {
					continue
				}
				n++
				if !reached[st.Pos()] && bad == "" {
					bad = fmt.Sprintf("the store to %s at %s lies on no explored success path (every path through it ends at the exploration bound or in an error): what it does to the reported value has not been judged", fname, p.Pos(st.Pos()))
				}
			}
		}
	}
	if bad != "" {
		r.Undecide(rule, name+" writers of the reported fields", p.FnPos(pr.Fn), bad)
		return
	}
	if n == 0 {
		r.Hold(rule, name+" writers of the reported fields", p.FnPos(pr.Fn), "no separate store to width, height or bit depth: the record is built in one piece, which the field rules judge on every success path")
		return
	}
	r.Hold(rule, name+" writers of the reported fields", p.FnPos(pr.Fn), fmt.Sprintf("each of the %d stores to width, height and bit depth lies on an explored success path (and is therefore judged by the field rules)", n))
}
