package main

import (
	"fmt"
	"go/constant"
	"go/token"
	"go/types"
	"math/big"
	"strings"
	"time"

	"golang.org/x/tools/go/ssa"
)

// ---------------------------------------------------------------------------
// The SSA abstract interpreter shared by Engine S (rational forms) and
// Engine B (byte positions and bit provenance).
//
// It interprets go/ssa instructions over the abstract values of symval.go.
// Branches whose condition is not decided by the abstract state fork the
// path; loops are followed only while their condition is decided by constants
// (constant trip counts are thereby unrolled) — a loop whose condition is
// symbolic is summarised (see loopsum.go) or reported as "not extractable".
// No prism code is executed: the interpreter manipulates symbolic terms only.

type Event struct {
	Kind string // "call", "invoke", "store", "trace", ...
	Fn   string
	Recv Val
	Args []Val
	Res  Val
	Pos  token.Pos
	// Callee is the resolved function of a call event, when known.
	Callee *ssa.Function
	// Instr and Conds (bounds events): the indexing/slicing instruction and a
	// snapshot of the path conditions in force when it executed.
	Instr ssa.Instruction
	Conds []*BoolVal
	// CondIdx is the number of path conditions recorded before the event:
	// it orders events relative to the path's branch decisions.
	CondIdx int
	// StreamPos is the position of the (single) input stream at the event.
	StreamPos *Form
}

type State struct {
	subst  map[string]*Form // atoms fixed by an `atom == constant` path condition
	mem    map[*Cell]Val
	maps   map[*Cell][]mapEntry
	conds  []*BoolVal
	pos    map[*Stream]*Form
	events []Event
}

// addEvent appends an event stamped with the current path-condition count.
func (s *State) addEvent(ev Event) {
	ev.CondIdx = len(s.conds)
	for _, p := range s.pos {
		ev.StreamPos = p
	}
	s.events = append(s.events, ev)
}

// learn records `atom == constant` facts of a path condition.
func (s *State) learn(c *BoolVal) {
	if c == nil || c.Op != "==" {
		return
	}
	a, ok1 := c.A.(*Form)
	b, ok2 := c.B.(*Form)
	if !ok1 || !ok2 {
		return
	}
	if _, isC := a.Const(); isC {
		a, b = b, a
	}
	an, isA := a.SingleAtom()
	if _, isC := b.Const(); !isA || !isC {
		return
	}
	if s.subst == nil {
		s.subst = map[string]*Form{}
	}
	s.subst[an] = b
}

// learnZero: an unsigned quantity decided to be <= 0 (or < 1) is zero.
func (e *Engine) learnZero(st *State, c *BoolVal) {
	if c == nil {
		return
	}
	a, okA := c.A.(*Form)
	b, okB := c.B.(*Form)
	if !okA || !okB {
		return
	}
	var x *Form
	bc, bIsC := b.ConstInt()
	ac, aIsC := a.ConstInt()
	switch {
	case c.Op == "<=" && bIsC && bc == 0, c.Op == "<" && bIsC && bc == 1:
		x = a
	case c.Op == ">=" && aIsC && ac == 0, c.Op == ">" && aIsC && ac == 1:
		x = b
	}
	if x == nil {
		return
	}
	if an, ok := x.SingleAtom(); ok && e.atomNonneg(an) {
		st.learn(&BoolVal{Op: "==", A: x, B: formInt(0)})
	}
}

// prefixEqualities spells the condition HasPrefix(s, p) out as element
// equalities when the elements of both slices are known values.
func (e *Engine) prefixEqualities(st *State, c *BoolVal) []*BoolVal {
	sl, _ := c.A.(*SliceVal)
	pf, _ := c.B.(*SliceVal)
	if sl == nil || pf == nil || sl.Arr == nil {
		return nil
	}
	ps, ok := e.sliceElems(st, pf)
	if !ok {
		return nil
	}
	head := *sl
	head.Len = formInt(int64(len(ps)))
	if n, isC := sl.Len.ConstInt(); !isC || n < int64(len(ps)) {
		return nil
	}
	ss, ok := e.sliceElems(st, &head)
	if !ok || len(ss) != len(ps) {
		return nil
	}
	var out []*BoolVal
	for i := range ps {
		a, okA := ss[i].(*Form)
		b, okB := ps[i].(*Form)
		if !okA || !okB {
			return nil
		}
		out = append(out, &BoolVal{Op: "==", A: a, B: b})
	}
	return out
}

// resolve applies the learnt equalities to a form.
func (s *State) resolve(f *Form) *Form {
	if len(s.subst) == 0 || f == nil {
		return f
	}
	hit := false
	for a := range f.Atoms() {
		if _, ok := s.subst[a]; ok {
			hit = true
		}
	}
	if !hit {
		return f
	}
	return f.Subst(s.subst)
}

func newState() *State {
	return &State{mem: map[*Cell]Val{}, maps: map[*Cell][]mapEntry{}, pos: map[*Stream]*Form{}}
}

func (s *State) clone() *State {
	n := &State{mem: make(map[*Cell]Val, len(s.mem)), maps: make(map[*Cell][]mapEntry, len(s.maps)), pos: make(map[*Stream]*Form, len(s.pos))}
	for k, v := range s.mem {
		n.mem[k] = v
	}
	for k, v := range s.maps {
		n.maps[k] = append([]mapEntry(nil), v...)
	}
	for k, v := range s.pos {
		n.pos[k] = v
	}
	n.conds = append([]*BoolVal(nil), s.conds...)
	n.events = append([]Event(nil), s.events...)
	if len(s.subst) > 0 {
		n.subst = make(map[string]*Form, len(s.subst))
		for k, v := range s.subst {
			n.subst[k] = v
		}
	}
	return n
}

type Outcome struct {
	Kind string // "return", "panic", "stuck", "cutoff", "loopback"
	Fr   *frame // for loopback outcomes: the frame at the back edge
	St   *State
	Ret  Val
	Why  string
	Pos  token.Pos
}

type frame struct {
	fn       *ssa.Function
	env      map[ssa.Value]Val
	bindings []Val
	forks    map[*ssa.BasicBlock]int
	visits   map[*ssa.BasicBlock]int
	iters    map[ssa.Value]int
	defers   []*ssa.Defer
	stopAt   *ssa.BasicBlock
}

func (f *frame) clone() *frame {
	n := &frame{fn: f.fn, env: make(map[ssa.Value]Val, len(f.env)), bindings: f.bindings, forks: make(map[*ssa.BasicBlock]int, len(f.forks)), stopAt: f.stopAt}
	for k, v := range f.env {
		n.env[k] = v
	}
	for k, v := range f.forks {
		n.forks[k] = v
	}
	if len(f.iters) > 0 {
		n.iters = make(map[ssa.Value]int, len(f.iters))
		for k, v := range f.iters {
			n.iters[k] = v
		}
	}
	if len(f.visits) > 0 {
		n.visits = make(map[*ssa.BasicBlock]int, len(f.visits))
		for k, v := range f.visits {
			n.visits[k] = v
		}
	}
	n.defers = append([]*ssa.Defer(nil), f.defers...)
	return n
}

type Engine struct {
	P        *Program
	A        *Atoms
	WordBits int
	// Opaque decides which prism functions are kept as uninterpreted
	// applications instead of being inlined.
	Opaque func(fn *ssa.Function) bool
	// EvalInits makes loads of package-level variables use the value
	// computed by abstractly interpreting the package initialiser.
	EvalInits bool
	MaxSteps  int
	MaxPaths  int
	MaxDepth  int
	// FailReads explores the failure outcome of stream reads too.
	FailReads bool
	// MaxForks bounds how often the same symbolic branch may be forked on
	// one path (1 = loops with symbolic conditions are not followed; k > 1
	// explores up to k iterations of a parse loop and cuts the path off
	// afterwards with outcome kind "cutoff").
	MaxForks int
	// TrackFieldStores selects struct fields (by owner type and name) whose stores are
	// recorded as "fieldstore" events carrying the position of the store instruction.
	TrackFieldStores func(owner types.Type, field string) bool
	// fieldOf: the struct type a symbolic field atom ("white.Y") was made for
	fieldOf map[string]types.Type
	// MaxIter bounds the number of iterations of unconditional `for { }`
	// loops (parse loops) on one path; further iterations end the path with
	// outcome kind "cutoff".
	MaxIter int
	// Prune, when set, is asked at every symbolic fork whether the branch on
	// which cond holds should be dropped (recorded as a "cutoff" outcome).
	// Used to keep bounded explorations of parse loops focused.
	Prune func(cond *BoolVal) bool
	// RunOnce makes (*sync.Once).Do run its argument (once-ness and ordering
	// are C11's business); RunInitFuncs follows the declared init functions
	// of a package when its initial state is evaluated (EvalInits).
	RunOnce      bool
	RunInitFuncs bool
	// TrackWrites records a "write-nonlocal" event for every store into storage
	// that was not allocated during the run (package-level variables, pointees
	// of arguments): the footprint of a function on state that outlives it.
	TrackWrites bool
	// LoadHook may supply the value of a load (used for storage whose content
	// is changed behind the interpreter's back by uninterpreted callees);
	// StoreHook observes every store into a cell.
	// NonNil names uninterpreted values known not to be nil (a premise the
	// caller discharges elsewhere): comparisons with nil are decided.
	NonNil    func(v Val) bool
	LoadHook  func(st *State, p *Ptr) (Val, bool)
	StoreHook func(st *State, p *Ptr, v Val)
	// PruneByFacts drops a branch whose condition is refuted, in integer linear
	// arithmetic, by the conditions already on the path (n < 40 refutes n >= 128).
	PruneByFacts bool
	// TrackBounds records a "bounds" event (index or slice bounds against
	// the length, with the path conditions then in force) for every slice
	// indexing and slicing operation.
	TrackBounds bool
	// InlineIf, when set, restricts inlining of prism callees to those it
	// accepts (given the actual arguments); the others become call events.
	InlineIf func(st *State, fn *ssa.Function, args, bindings []Val) bool
	// TraceCalls records an event for calls of the selected functions even
	// though they are inlined.
	TraceCalls func(fn *ssa.Function) bool
	// PruneInfeasible drops branches whose condition cannot hold for
	// non-negative atoms in exact arithmetic (e.g. 0 > 132 + 12·count).
	// Wrap-around is deliberately not modelled: use only where well-formed
	// input is analysed.
	PruneInfeasible bool
	// SeqCalls makes results of the named uninterpreted calls distinct per
	// call (stateful callees such as a segment reader).
	SeqCalls func(fn string) bool
	// GenericLoops summarises counting loops by one generic iteration even
	// when their bounds are constants (used for the table builders).
	GenericLoops bool

	steps      int
	paths      int
	nextCell   int
	constMaps  map[*Cell][]mapEntry
	started    time.Time
	globals    map[*ssa.Global]*Cell
	initVals   map[*ssa.Global]Val
	initDone   map[*ssa.Package]bool
	opaqueMem  map[string]*Cell
	constCells map[*Cell]Val
	cellGlobal map[*Cell]*ssa.Global
	streams    int
	loopWhy    string
	inInit     bool
}

func NewEngine(p *Program) *Engine {
	wb := 64
	if p.Arch == "386" || p.Arch == "arm" {
		wb = 32
	}
	return &Engine{started: time.Now(), P: p, A: newAtoms(), WordBits: wb, MaxSteps: 3_000_000, MaxPaths: 5000, MaxDepth: 12,
		globals: map[*ssa.Global]*Cell{}, initVals: map[*ssa.Global]Val{}, initDone: map[*ssa.Package]bool{}, opaqueMem: map[string]*Cell{}, constCells: map[*Cell]Val{}, constMaps: map[*Cell][]mapEntry{}}
}

// engineTimeBudget bounds the wall-clock time one engine may spend; on the
// current tree every run takes well under two seconds.
const engineTimeBudget = 25 * time.Second

func (e *Engine) newCell(name string, t types.Type) *Cell {
	e.nextCell++
	return &Cell{ID: e.nextCell, Name: name, Type: t}
}

// ---------------------------------------------------------------------------
// value construction

func ratFromConst(c constant.Value) (*big.Rat, bool) {
	switch c.Kind() {
	case constant.Int:
		if i, ok := constant.Int64Val(c); ok {
			return new(big.Rat).SetInt64(i), true
		}
		bi, ok := new(big.Int).SetString(c.ExactString(), 10)
		if !ok {
			return nil, false
		}
		return new(big.Rat).SetInt(bi), true
	case constant.Float:
		n := constant.Num(c)
		d := constant.Denom(c)
		if n.Kind() == constant.Int && d.Kind() == constant.Int {
			nn, ok1 := new(big.Int).SetString(n.ExactString(), 10)
			dd, ok2 := new(big.Int).SetString(d.ExactString(), 10)
			if ok1 && ok2 && dd.Sign() != 0 {
				return new(big.Rat).SetFrac(nn, dd), true
			}
		}
		f, _ := constant.Float64Val(c)
		r := new(big.Rat)
		if r.SetFloat64(f) == nil {
			return nil, false
		}
		return r, true
	}
	return nil, false
}

// roundToType rounds an exact constant to the float type it is used at
// (the compiled code multiplies by the rounded value).
func roundToType(r *big.Rat, t types.Type) *big.Rat {
	bits, ok := isFloatType(t)
	if !ok {
		return r
	}
	if bits == 32 {
		f, _ := r.Float32()
		out := new(big.Rat)
		if out.SetFloat64(float64(f)) != nil {
			return out
		}
		return r
	}
	f, _ := r.Float64()
	out := new(big.Rat)
	if out.SetFloat64(f) != nil {
		return out
	}
	return r
}

func (e *Engine) constVal(c *ssa.Const) Val {
	t := c.Type()
	if c.Value == nil {
		return e.zeroVal(t)
	}
	switch c.Value.Kind() {
	case constant.Bool:
		return boolConst(constant.BoolVal(c.Value))
	case constant.String:
		return &StrVal{S: constant.StringVal(c.Value)}
	case constant.Int, constant.Float:
		r, ok := ratFromConst(c.Value)
		if !ok {
			return &Opaque{Key: "const:" + c.Value.ExactString(), Type: t}
		}
		return formRat(roundToType(r, t))
	}
	return &Opaque{Key: "const:" + c.Value.ExactString(), Type: t}
}

func (e *Engine) zeroVal(t types.Type) Val {
	switch u := t.Underlying().(type) {
	case *types.Basic:
		switch {
		case u.Info()&types.IsBoolean != 0:
			return boolConst(false)
		case u.Info()&types.IsString != 0:
			return &StrVal{}
		case u.Info()&types.IsNumeric != 0:
			return formInt(0)
		}
		return &Opaque{Key: "nil", Type: t}
	case *types.Struct:
		a := &Agg{Type: t, Elems: make([]Val, u.NumFields())}
		for i := range a.Elems {
			a.Elems[i] = e.zeroVal(u.Field(i).Type())
		}
		return a
	case *types.Array:
		if u.Len() > 4096 {
			return &Opaque{Key: "zero-array", Type: t}
		}
		a := &Agg{Type: t, Elems: make([]Val, u.Len())}
		z := e.zeroVal(u.Elem())
		for i := range a.Elems {
			a.Elems[i] = z
		}
		return a
	case *types.Slice:
		return &SliceVal{Nil: true, Lo: formInt(0), Len: formInt(0), Elem: u.Elem()}
	case *types.Interface:
		if isErrorType(t) {
			return &ErrVal{IsNil: true}
		}
		return &Opaque{Key: "nil", Type: t}
	}
	return &Opaque{Key: "nil", Type: t}
}

// SymVal builds a symbolic value of type t named name.
func (e *Engine) SymVal(name string, t types.Type) Val {
	switch u := t.Underlying().(type) {
	case *types.Basic:
		switch {
		case u.Info()&types.IsBoolean != 0:
			return &BoolVal{Op: "atom", K: name}
		case u.Info()&types.IsString != 0:
			return &Opaque{Key: name, Type: t}
		case u.Info()&types.IsNumeric != 0:
			return e.A.Var(name, t)
		}
	case *types.Struct:
		a := &Agg{Type: t, Elems: make([]Val, u.NumFields())}
		for i := range a.Elems {
			a.Elems[i] = e.SymVal(name+"."+u.Field(i).Name(), u.Field(i).Type())
			if e.fieldOf == nil {
				e.fieldOf = map[string]types.Type{}
			}
			e.fieldOf[name+"."+u.Field(i).Name()] = t
		}
		return a
	case *types.Array:
		if u.Len() <= 64 {
			a := &Agg{Type: t, Elems: make([]Val, u.Len())}
			for i := range a.Elems {
				a.Elems[i] = e.SymVal(fmt.Sprintf("%s[%d]", name, i), u.Elem())
			}
			return a
		}
	case *types.Slice:
		base := &Opaque{Key: name, Type: t}
		return &SliceVal{Base: base, Lo: formInt(0), Len: e.A.App("len", types.Typ[types.Int], base), Elem: u.Elem()}
	case *types.Pointer:
		c := e.newCell("*"+name, u.Elem())
		c.Name = "*" + name
		e.opaqueMem[fmt.Sprintf("cell%d", c.ID)] = c
		return &Ptr{Cell: c}
	case *types.Signature:
		return &Opaque{Key: name, Type: t}
	}
	return &Opaque{Key: name, Type: t}
}

// ---------------------------------------------------------------------------
// memory

func (e *Engine) cellVal(st *State, c *Cell) Val {
	if v, ok := st.mem[c]; ok {
		return v
	}
	if v, ok := e.constCells[c]; ok {
		st.mem[c] = v
		return v
	}
	if g := e.cellGlobal[c]; g != nil && e.EvalInits && !e.inInit {
		if v, ok := e.globalInitVal(g); ok {
			st.mem[c] = v
			return v
		}
	}
	var v Val
	if strings.HasPrefix(c.Name, "*") || strings.HasPrefix(c.Name, "g:") {
		v = e.SymVal(strings.TrimPrefix(strings.TrimPrefix(c.Name, "*"), "g:"), c.Type)
	} else {
		v = e.zeroVal(c.Type)
	}
	st.mem[c] = v
	return v
}

func selectPath(v Val, path []int) (Val, bool) {
	for _, i := range path {
		if t, ok := v.(Tuple); ok {
			if i < 0 || i >= len(t) {
				return nil, false
			}
			v = t[i]
			continue
		}
		a, ok := v.(*Agg)
		if !ok || i < 0 || i >= len(a.Elems) {
			return nil, false
		}
		v = a.Elems[i]
	}
	return v, true
}

func updatePath(v Val, path []int, nv Val) (Val, bool) {
	if len(path) == 0 {
		return nv, true
	}
	a, ok := v.(*Agg)
	if !ok || path[0] < 0 || path[0] >= len(a.Elems) {
		return nil, false
	}
	inner, ok := updatePath(a.Elems[path[0]], path[1:], nv)
	if !ok {
		return nil, false
	}
	return a.with(path[0], inner), true
}

func (e *Engine) load(st *State, p *Ptr, t types.Type) (Val, string) {
	if e.LoadHook != nil {
		if v, ok := e.LoadHook(st, p); ok {
			return v, ""
		}
	}
	if p.Cell == nil {
		if p.Base != nil && p.SymIdx != nil {
			return e.elemOf(p.Base, p.SymIdx, t), ""
		}
		return nil, "load through unknown pointer"
	}
	v, ok := selectPath(e.cellVal(st, p.Cell), p.Path)
	if !ok {
		return nil, "load: bad path " + p.Key()
	}
	if p.SymIdx != nil {
		if a, ok := v.(*Agg); ok {
			if c, ok := p.SymIdx.ConstInt(); ok && c >= 0 && int(c) < len(a.Elems) {
				return a.Elems[c], ""
			}
			// a table of constants that is an affine function of its index
			// (t[i] = i/255) reads as that function of the index
			if f := affineTable(a); f != nil {
				return f(p.SymIdx), ""
			}
			return e.appOfType("index", t, &Opaque{Key: valKey(a)}, p.SymIdx), ""
		}
		if o, ok := v.(*Opaque); ok {
			return e.elemOf(o, p.SymIdx, t), ""
		}
		return nil, "load: symbolic index into " + valKey(v)
	}
	return v, ""
}

// affineTable: all elements are constants with elems[i] = a·i + b (at least 3 elements).
func affineTable(a *Agg) func(idx *Form) *Form {
	if len(a.Elems) < 3 {
		return nil
	}
	cs := make([]*big.Rat, len(a.Elems))
	for i, el := range a.Elems {
		f, ok := el.(*Form)
		if !ok {
			return nil
		}
		c, isC := f.Const()
		if !isC {
			return nil
		}
		cs[i] = c
	}
	b := cs[0]
	step := new(big.Rat).Sub(cs[1], cs[0])
	for i := 2; i < len(cs); i++ {
		want := new(big.Rat).Add(b, new(big.Rat).Mul(step, big.NewRat(int64(i), 1)))
		if want.Cmp(cs[i]) != 0 {
			return nil
		}
	}
	if step.Sign() == 0 {
		return nil
	}
	return func(idx *Form) *Form { return idx.Mul(formRat(step)).Add(formRat(b)) }
}

// elemOf is element idx of an opaque indexable value.
func (e *Engine) elemOf(base *Opaque, idx *Form, t types.Type) Val {
	return e.appOfType("index", t, base, idx)
}

// appOfType makes an uninterpreted application whose shape follows type t.
func (e *Engine) appOfType(fn string, t types.Type, args ...Val) Val {
	switch u := t.Underlying().(type) {
	case *types.Basic:
		if u.Info()&types.IsNumeric != 0 {
			return e.A.App(fn, t, args...)
		}
		if u.Info()&types.IsBoolean != 0 {
			return &BoolVal{Op: "atom", K: e.A.AppAtom(fn, t, args...).Key}
		}
	case *types.Struct:
		key := e.A.AppAtom(fn, t, args...).Key
		a := &Agg{Type: t, Elems: make([]Val, u.NumFields())}
		for i := range a.Elems {
			a.Elems[i] = e.appOfType("."+u.Field(i).Name(), u.Field(i).Type(), &Opaque{Key: key, Type: t, Fn: fn, Args: args})
		}
		return a
	case *types.Array:
		if u.Len() <= 64 {
			key := e.A.AppAtom(fn, t, args...).Key
			a := &Agg{Type: t, Elems: make([]Val, u.Len())}
			for i := range a.Elems {
				a.Elems[i] = e.appOfType("index", u.Elem(), &Opaque{Key: key, Type: t, Fn: fn, Args: args}, formInt(int64(i)))
			}
			return a
		}
	case *types.Tuple:
		tp := make(Tuple, u.Len())
		for i := range tp {
			tp[i] = e.appOfType(fmt.Sprintf("%s#%d", fn, i), u.At(i).Type(), args...)
		}
		return tp
	case *types.Slice:
		base := &Opaque{Key: e.A.AppAtom(fn, t, args...).Key, Type: t, Fn: fn, Args: args}
		return &SliceVal{Base: base, Lo: formInt(0), Len: e.A.App("len", types.Typ[types.Int], base), Elem: u.Elem()}
	}
	return &Opaque{Key: e.A.AppAtom(fn, t, args...).Key, Type: t, Fn: fn, Args: args}
}

func (e *Engine) store(st *State, p *Ptr, v Val) string {
	if p.Cell == nil {
		st.addEvent(Event{Kind: "store", Fn: "store", Recv: p, Args: []Val{v}})
		return ""
	}
	if p.SymIdx != nil {
		if c, ok := p.SymIdx.ConstInt(); ok {
			q := &Ptr{Cell: p.Cell, Path: append(append([]int(nil), p.Path...), int(c))}
			return e.store(st, q, v)
		}
		st.addEvent(Event{Kind: "store", Fn: "store", Recv: p, Args: []Val{v}})
		return ""
	}
	nv, ok := updatePath(e.cellVal(st, p.Cell), p.Path, v)
	if !ok {
		return "store: bad path " + p.Key()
	}
	if e.StoreHook != nil {
		e.StoreHook(st, p, v)
	}
	if e.TrackWrites && !p.Cell.Alloc && !e.inInit {
		// a write to storage that was not allocated during this run: a
		// package-level variable or something reached through an argument
		st.addEvent(Event{Kind: "write-nonlocal", Fn: p.Cell.Name, Recv: p, Args: []Val{v}})
	}
	st.mem[p.Cell] = nv
	return ""
}

// ---------------------------------------------------------------------------
// running functions

// Run interprets fn with the given arguments from a fresh or given state.
func (e *Engine) Run(fn *ssa.Function, args []Val, st *State) []Outcome {
	if st == nil {
		st = newState()
	}
	return e.call(st, fn, args, nil, 0)
}

func (e *Engine) stuck(st *State, why string, pos token.Pos) []Outcome {
	return []Outcome{{Kind: "stuck", St: st, Why: why, Pos: pos}}
}

func (e *Engine) call(st *State, fn *ssa.Function, args []Val, bindings []Val, depth int) []Outcome {
	if len(fn.Blocks) == 0 {
		return e.stuck(st, "function without body: "+fn.String(), fn.Pos())
	}
	if depth > e.MaxDepth {
		return e.stuck(st, "inlining depth exceeded at "+fn.String(), fn.Pos())
	}
	fr := &frame{fn: fn, env: map[ssa.Value]Val{}, bindings: bindings, forks: map[*ssa.BasicBlock]int{}}
	for i, p := range fn.Params {
		if i < len(args) {
			fr.env[p] = args[i]
		} else {
			fr.env[p] = e.SymVal(p.Name(), p.Type())
		}
	}
	return e.exec(st, fr, fn.Blocks[0], nil, 0, depth)
}

func (e *Engine) val(st *State, fr *frame, v ssa.Value) Val {
	switch x := v.(type) {
	case *ssa.Const:
		return e.constVal(x)
	case *ssa.Function:
		return &FuncVal{Fn: x}
	case *ssa.Global:
		return &Ptr{Cell: e.globalCell(x)}
	case *ssa.FreeVar:
		for i, fv := range fr.fn.FreeVars {
			if fv == x && i < len(fr.bindings) {
				return fr.bindings[i]
			}
		}
		return e.SymVal(x.Name(), x.Type())
	case *ssa.Builtin:
		return &Opaque{Key: "builtin:" + x.Name(), Type: x.Type()}
	}
	if r, ok := fr.env[v]; ok {
		return r
	}
	// value defined on another path (should not happen in well-formed SSA)
	return e.SymVal("undef:"+v.Name(), v.Type())
}

func (e *Engine) globalCell(g *ssa.Global) *Cell {
	if c, ok := e.globals[g]; ok {
		return c
	}
	pt := g.Type().(*types.Pointer).Elem()
	name := g.Pkg.Pkg.Name() + "." + g.Name()
	c := e.newCell("g:"+name, pt)
	e.globals[g] = c
	if e.cellGlobal == nil {
		e.cellGlobal = map[*Cell]*ssa.Global{}
	}
	e.cellGlobal[c] = g
	return c
}

func (e *Engine) exec(st *State, fr *frame, b, pred *ssa.BasicBlock, idx, depth int) []Outcome {
	for {
		// phis (evaluated simultaneously)
		if idx == 0 && pred != nil {
			pi := -1
			for i, p := range b.Preds {
				if p == pred {
					pi = i
				}
			}
			var phis []*ssa.Phi
			var vals []Val
			for _, in := range b.Instrs {
				phi, ok := in.(*ssa.Phi)
				if !ok {
					break
				}
				phis = append(phis, phi)
				vals = append(vals, e.val(st, fr, phi.Edges[pi]))
			}
			for i, phi := range phis {
				fr.env[phi] = vals[i]
			}
			idx = len(phis)
		}
		var next *ssa.BasicBlock
		for i := idx; i < len(b.Instrs); i++ {
			e.steps++
			if e.steps > e.MaxSteps {
				return e.stuck(st, "step budget exceeded", b.Instrs[i].Pos())
			}
			if e.steps&63 == 0 && time.Since(e.started) > engineTimeBudget {
				return e.stuck(st, "time budget of the abstract interpretation exceeded: the exploration of this code does not stay within bounds", b.Instrs[i].Pos())
			}
			if e.steps&255 == 0 && resourceExceeded.Load() {
				return e.stuck(st, "memory budget of the checker exceeded: the exploration of this code does not stay within bounds", b.Instrs[i].Pos())
			}
			in := b.Instrs[i]
			if lk, ok := in.(*ssa.Lookup); ok {
				if outs, handled := e.forkLookup(st, fr, lk, b, pred, i, depth); handled {
					return outs
				}
			}
			switch in := in.(type) {
			case *ssa.DebugRef:
			case *ssa.Phi:
				// entry block cannot have phis; handled above
			case *ssa.Jump:
				next = b.Succs[0]
			case *ssa.If:
				c, ok := e.val(st, fr, in.Cond).(*BoolVal)
				if !ok {
					return e.stuck(st, "non-boolean condition", in.Pos())
				}
				if c.Const != nil {
					if e.GenericLoops && isLoopHeader(b) && fr.stopAt != b {
						if outs, ok := e.summariseLoop(st, fr, b, in, c, depth); ok {
							return outs
						}
						return e.stuck(st, "counting loop cannot be summarised by one generic iteration: "+e.loopWhy, e.condPos(in))
					}
					if e.MaxIter > 0 && isLoopHeader(b) && fr.stopAt != b && !dependsOnPhiOf(b, in.Cond, 0) {
						// a parse loop whose header test has the same answer in every
						// iteration (a guard on something outside the loop): bounded
						// like `for { }`
						if fr.visits == nil {
							fr.visits = map[*ssa.BasicBlock]int{}
						}
						fr.visits[b]++
						if fr.visits[b] > e.MaxIter {
							return []Outcome{{Kind: "cutoff", St: st, Why: "iteration bound reached", Pos: e.condPos(in)}}
						}
					}
					if *c.Const {
						next = b.Succs[0]
					} else {
						next = b.Succs[1]
					}
					break
				}
				// a condition the path has already decided (the same comparison
				// of the same values) does not fork again
				if !isLoopHeader(b) {
					ck, nk := c.Key(), c.Not().Key()
					decided := 0
					for _, pc := range st.conds {
						switch pc.Key() {
						case ck:
							decided = 1
						case nk:
							decided = -1
						}
					}
					if decided != 0 {
						if decided > 0 {
							next = b.Succs[0]
						} else {
							next = b.Succs[1]
						}
						break
					}
				}
				// symbolic branch: a loop header is summarised, anything else forks
				if isLoopHeader(b) {
					if outs, ok := e.summariseLoop(st, fr, b, in, c, depth); ok {
						return outs
					}
					if e.MaxIter > 0 {
						// a parse loop whose header tests a symbolic value: follow it for a bounded number of iterations
						if fr.visits == nil {
							fr.visits = map[*ssa.BasicBlock]int{}
						}
						fr.visits[b]++
						if fr.visits[b] > e.MaxIter {
							return []Outcome{{Kind: "cutoff", St: st, Why: "iteration bound reached", Pos: e.condPos(in)}}
						}
						goto plainFork
					}
					return e.stuck(st, "loop with the symbolic condition "+trunc(c.Key(), 100)+" cannot be summarised by one generic iteration: "+e.loopWhy, e.condPos(in))
				}
			plainFork:
				fr.forks[b]++
				if fr.forks[b] > 1 {
					if e.MaxForks > 1 {
						if fr.forks[b] > e.MaxForks {
							return []Outcome{{Kind: "cutoff", St: st, Why: "iteration bound reached", Pos: e.condPos(in)}}
						}
					} else {
						return e.stuck(st, "symbolic branch revisited (loop with a symbolic condition) "+trunc(c.Key(), 100), e.condPos(in))
					}
				}
				// outside the statement's domain: a chromaticity (ciexyy.Color) with y == 0 has
				// no XYZ value — a guard for it concerns no input the properties speak of
				if e.outsideDomain(c) {
					next = b.Succs[1]
					break
				}
				if e.outsideDomain(c.Not()) {
					next = b.Succs[0]
					break
				}
				e.paths++
				if e.paths > e.MaxPaths {
					return e.stuck(st, "path budget exceeded", in.Pos())
				}
				st2 := st.clone()
				fr2 := fr.clone()
				if c.Src == nil {
					cc := *c
					cc.Src = in.Cond
					ex := e.exactArith(st, fr, in.Cond, 0)
					cc.Exact = &ex
					c = &cc
				}
				st.conds = append(st.conds, c)
				st2.conds = append(st2.conds, c.Not())
				st.learn(c)
				st2.learn(c.Not())
				e.learnZero(st, c)
				e.learnZero(st2, c.Not())
				if c.Op == "prefix" {
					// HasPrefix(s, p) with known elements: s[i] == p[i] for every i < len(p)
					for _, eq := range e.prefixEqualities(st, c) {
						st.conds = append(st.conds, eq)
						st.learn(eq)
					}
				}
				var outs []Outcome
				if e.PruneByFacts {
					prior := st.conds[:len(st.conds)-1]
					if e.refutes(prior, c) {
						return e.exec(st2, fr2, b.Succs[1], b, 0, depth)
					}
					if e.refutes(prior, c.Not()) {
						return e.exec(st, fr, b.Succs[0], b, 0, depth)
					}
				}
				if e.PruneInfeasible {
					if e.infeasible(c) {
						return e.exec(st2, fr2, b.Succs[1], b, 0, depth)
					}
					if e.infeasible(c.Not()) {
						return e.exec(st, fr, b.Succs[0], b, 0, depth)
					}
				}
				if e.Prune != nil && e.Prune(c) {
					outs = append(outs, Outcome{Kind: "cutoff", St: st, Why: "pruned", Pos: e.condPos(in)})
				} else {
					outs = e.exec(st, fr, b.Succs[0], b, 0, depth)
				}
				if e.Prune != nil && e.Prune(c.Not()) {
					outs = append(outs, Outcome{Kind: "cutoff", St: st2, Why: "pruned", Pos: e.condPos(in)})
				} else {
					outs = append(outs, e.exec(st2, fr2, b.Succs[1], b, 0, depth)...)
				}
				return outs
			case *ssa.Return:
				var ret Val
				switch len(in.Results) {
				case 0:
				case 1:
					ret = e.val(st, fr, in.Results[0])
				default:
					tp := make(Tuple, len(in.Results))
					for k, r := range in.Results {
						tp[k] = e.val(st, fr, r)
					}
					ret = tp
				}
				return []Outcome{{Kind: "return", St: st, Ret: ret, Pos: in.Pos()}}
			case *ssa.Panic:
				return []Outcome{{Kind: "panic", St: st, Ret: e.val(st, fr, in.X), Pos: in.Pos(), Why: valKey(e.val(st, fr, in.X))}}
			case *ssa.RunDefers:
				// the deferred calls run now, last first, on the state reached so far
				// (recover() reports no panic: panicking paths end where they panic)
				if len(fr.defers) == 0 {
					break
				}
				type pend struct {
					st *State
					fr *frame
				}
				cur := []pend{{st, fr}}
				var outs []Outcome
				for k := len(fr.defers) - 1; k >= 0; k-- {
					d := fr.defers[k]
					var nxt []pend
					for _, c := range cur {
						results := e.doCall(c.st, c.fr, d, depth)
						for ri, res := range results {
							if res.Kind != "value" {
								outs = append(outs, res)
								continue
							}
							f2 := c.fr
							if ri < len(results)-1 {
								f2 = c.fr.clone()
							}
							nxt = append(nxt, pend{res.St, f2})
						}
					}
					cur = nxt
				}
				if len(cur) == 1 && len(outs) == 0 {
					st, fr = cur[0].st, cur[0].fr
					fr.defers = nil
					break
				}
				for _, c := range cur {
					c.fr.defers = nil
					outs = append(outs, e.exec(c.st, c.fr, b, pred, i+1, depth)...)
				}
				return outs
			case *ssa.Defer:
				fr.defers = append(fr.defers, in)
			case *ssa.Go, *ssa.Select, *ssa.Send:
				return e.stuck(st, fmt.Sprintf("unsupported instruction %T", in), in.Pos())
			case *ssa.Store:
				p, ok := e.val(st, fr, in.Addr).(*Ptr)
				if !ok {
					return e.stuck(st, "store through non-pointer "+valKey(e.val(st, fr, in.Addr)), in.Pos())
				}
				if why := e.store(st, p, e.val(st, fr, in.Val)); why != "" {
					return e.stuck(st, why, in.Pos())
				}
				if e.TrackFieldStores != nil {
					if fa, ok := in.Addr.(*ssa.FieldAddr); ok {
						if pt, ok := fa.X.Type().Underlying().(*types.Pointer); ok {
							if stt, ok := pt.Elem().Underlying().(*types.Struct); ok && e.TrackFieldStores(pt.Elem(), stt.Field(fa.Field).Name()) {
								st.addEvent(Event{Kind: "fieldstore", Fn: stt.Field(fa.Field).Name(), Pos: in.Pos()})
							}
						}
					}
				}
			case *ssa.MapUpdate:
				m, ok := e.val(st, fr, in.Map).(*MapVal)
				if !ok {
					st.addEvent(Event{Kind: "mapupdate", Fn: "mapupdate", Recv: e.val(st, fr, in.Map), Args: []Val{e.val(st, fr, in.Key), e.val(st, fr, in.Value)}, Pos: in.Pos()})
					break
				}
				st.maps[m.Cell] = append(st.maps[m.Cell], mapEntry{e.val(st, fr, in.Key), e.val(st, fr, in.Value)})
			case *ssa.Call:
				results := e.doCall(st, fr, in, depth)
				if len(results) == 1 && results[0].Kind == "value" {
					fr.env[in] = results[0].Ret
					st = results[0].St
					break
				}
				var outs []Outcome
				for k, res := range results {
					if res.Kind != "value" {
						outs = append(outs, res)
						continue
					}
					f2 := fr
					if k < len(results)-1 {
						f2 = fr.clone()
					}
					f2.env[in] = res.Ret
					outs = append(outs, e.exec(res.St, f2, b, pred, i+1, depth)...)
				}
				return outs
			case ssa.Value:
				v, why := e.evalValue(st, fr, in)
				if why != "" {
					return e.stuck(st, why, e.instrPos(in.(ssa.Instruction)))
				}
				fr.env[in] = v
			default:
				return e.stuck(st, fmt.Sprintf("unsupported instruction %T", in), in.Pos())
			}
			if next != nil {
				break
			}
		}
		if next == nil {
			return e.stuck(st, "fell off block", token.NoPos)
		}
		if next == fr.stopAt {
			return []Outcome{{Kind: "loopback", St: st, Fr: fr}}
		}
		if e.MaxIter > 0 && next.Dominates(b) && isLoopHeader(next) {
			if _, isIf := next.Instrs[len(next.Instrs)-1].(*ssa.If); !isIf {
				if fr.visits == nil {
					fr.visits = map[*ssa.BasicBlock]int{}
				}
				fr.visits[next]++
				if fr.visits[next] >= e.MaxIter {
					return []Outcome{{Kind: "cutoff", St: st, Why: "iteration bound reached", Pos: e.instrPos(next.Instrs[0])}}
				}
			}
		}
		pred, b, idx = b, next, 0
	}
}

// dependsOnPhiOf: v is computed (within a few steps) from a phi of block b — a
// quantity the loop headed by b carries from one iteration to the next.
func dependsOnPhiOf(b *ssa.BasicBlock, v ssa.Value, depth int) bool {
	if depth > 8 {
		return true
	}
	if ph, ok := v.(*ssa.Phi); ok {
		return ph.Block() == b
	}
	in, ok := v.(ssa.Instruction)
	if !ok {
		return false
	}
	if _, isLoad := v.(*ssa.UnOp); isLoad && v.(*ssa.UnOp).Op == token.MUL {
		return true // a load: memory the loop may have written
	}
	for _, op := range in.Operands(nil) {
		if op != nil && *op != nil && dependsOnPhiOf(b, *op, depth+1) {
			return true
		}
	}
	return false
}

// outsideDomain: c says that the y of a symbolic chromaticity (a field Y of a
// ciexyy.Color the caller supplies) is zero.
func (e *Engine) outsideDomain(c *BoolVal) bool {
	if c == nil || c.Op != "==" || e.fieldOf == nil {
		return false
	}
	a, okA := c.A.(*Form)
	b, okB := c.B.(*Form)
	if !okA || !okB {
		return false
	}
	if z, isC := a.Const(); isC && z.Sign() == 0 {
		a, b = b, a
	}
	if z, isC := b.Const(); !isC || z.Sign() != 0 {
		return false
	}
	n, ok := a.SingleAtom()
	if !ok || !strings.HasSuffix(n, ".Y") {
		return false
	}
	t, ok := e.fieldOf[n].(*types.Named)
	return ok && t.Obj().Pkg() != nil && t.Obj().Pkg().Path() == ModPath+"/ciexyy" && t.Obj().Name() == "Color"
}

// isLoopHeader reports whether b has a back edge (a predecessor it dominates).
func isLoopHeader(b *ssa.BasicBlock) bool {
	for _, p := range b.Preds {
		if b.Dominates(p) {
			return true
		}
	}
	return false
}

func (e *Engine) instrPos(in ssa.Instruction) token.Pos {
	if in.Pos().IsValid() {
		return in.Pos()
	}
	var ops []*ssa.Value
	for _, op := range in.Operands(ops) {
		if op != nil && *op != nil && (*op).Pos().IsValid() {
			return (*op).Pos()
		}
	}
	for _, o := range in.Block().Instrs {
		if o.Pos().IsValid() {
			return o.Pos()
		}
	}
	return in.Parent().Pos()
}

func (e *Engine) condPos(in *ssa.If) token.Pos {
	if v, ok := in.Cond.(ssa.Instruction); ok {
		return e.instrPos(v)
	}
	return e.instrPos(in)
}

// ---------------------------------------------------------------------------
// non-call value instructions

func (e *Engine) asForm(v Val) (*Form, bool) {
	f, ok := v.(*Form)
	return f, ok
}

func (e *Engine) evalValue(st *State, fr *frame, in ssa.Value) (Val, string) {
	switch in := in.(type) {
	case *ssa.Alloc:
		c := e.newCell(in.Comment, in.Type().(*types.Pointer).Elem())
		c.Alloc = true
		if c.Name == "" {
			c.Name = in.Name()
		}
		// local cells start zeroed
		c.Name = strings.TrimPrefix(c.Name, "*")
		if strings.HasPrefix(c.Name, "g:") {
			c.Name = "l" + c.Name
		}
		st.mem[c] = e.zeroVal(c.Type)
		return &Ptr{Cell: c}, ""
	case *ssa.BinOp:
		return e.binop(in.Op, e.val(st, fr, in.X), e.val(st, fr, in.Y), in.X.Type(), in.Type())
	case *ssa.UnOp:
		x := e.val(st, fr, in.X)
		switch in.Op {
		case token.MUL:
			if g, ok := in.X.(*ssa.Global); ok {
				if g.Name() == "init$guard" {
					return boolConst(false), ""
				}
				if v, ok := e.globalInitVal(g); ok {
					if _, written := st.mem[e.globalCell(g)]; !written {
						return v, ""
					}
				}
			}
			p, ok := x.(*Ptr)
			if !ok {
				if o, ok := x.(*Opaque); ok {
					return e.appOfType("deref", in.Type(), o), ""
				}
				return nil, "load through non-pointer " + valKey(x)
			}
			return e.load(st, p, in.Type())
		case token.SUB:
			f, ok := x.(*Form)
			if !ok {
				return nil, "negation of non-number"
			}
			return f.Neg(), ""
		case token.NOT:
			b, ok := x.(*BoolVal)
			if !ok {
				return nil, "! of non-boolean"
			}
			return b.Not(), ""
		case token.XOR:
			f, ok := x.(*Form)
			if !ok {
				return nil, "^ of non-number"
			}
			w, signed, _ := intTypeInfo(in.Type(), e.WordBits)
			bv := e.toBV(f, w, signed)
			ones := bvConst(new(big.Int).Sub(new(big.Int).Lsh(big.NewInt(1), uint(w)), big.NewInt(1)), w)
			return e.fromBV(bv.bitwise("^", ones), in.Type()), ""
		}
		return nil, "unsupported unary op " + in.Op.String()
	case *ssa.ChangeType:
		return e.val(st, fr, in.X), ""
	case *ssa.ChangeInterface:
		return e.val(st, fr, in.X), ""
	case *ssa.MakeInterface:
		return e.val(st, fr, in.X), ""
	case *ssa.Convert:
		x := e.val(st, fr, in.X)
		// a narrowing integer conversion of a value the path has confined to the
		// target's range keeps the value
		if f, ok := x.(*Form); ok && e.PruneByFacts {
			tw, tsigned, toInt := intTypeInfo(in.Type(), e.WordBits)
			fw, _, fromInt := intTypeInfo(in.X.Type(), e.WordBits)
			if toInt && fromInt && tw < fw && !tsigned && intForm(f) {
				dropsLive := false
				for _, bit := range e.toBV(f, fw, false).Bits[tw:] {
					if bit.Kind != '0' {
						dropsLive = true // otherwise the ordinary truncation is already exact
					}
				}
				if _, isC := f.Const(); !isC && dropsLive {
					facts := e.factsOf(st.conds)
					max := formRat(new(big.Rat).SetInt(new(big.Int).Sub(new(big.Int).Lsh(big.NewInt(1), uint(tw)), big.NewInt(1))))
					if lo, _ := e.proveGE0(f, facts); lo {
						if hi, _ := e.proveGE0(max.Sub(f), facts); hi {
							return f, ""
						}
					}
				}
			}
		}
		if b, ok := in.Type().Underlying().(*types.Basic); ok && b.Kind() == types.String {
			// string(b) of a byte slice assembled from decimal renderings and constant bytes
			if _, isSl := x.(*SliceVal); isSl {
				if parts, ok := e.textOf(st, x, 0); ok {
					return mergeText(parts), ""
				}
			}
		}
		return e.convert(x, in.X.Type(), in.Type())
	case *ssa.Extract:
		t, ok := e.val(st, fr, in.Tuple).(Tuple)
		if !ok || in.Index >= len(t) {
			return nil, "extract from non-tuple " + valKey(e.val(st, fr, in.Tuple))
		}
		return t[in.Index], ""
	case *ssa.Field:
		x := e.val(st, fr, in.X)
		a, ok := x.(*Agg)
		if !ok {
			if o, ok := x.(*Opaque); ok {
				st := in.X.Type().Underlying().(*types.Struct)
				return e.appOfType("."+st.Field(in.Field).Name(), in.Type(), o), ""
			}
			return nil, "field of non-aggregate " + valKey(x)
		}
		return a.Elems[in.Field], ""
	case *ssa.FieldAddr:
		x := e.val(st, fr, in.X)
		p, ok := x.(*Ptr)
		if !ok {
			if o, ok := x.(*Opaque); ok {
				// pointer of unknown provenance: give it a symbolic pointee
				key := "deref:" + o.Key + ":" + in.X.Type().String()
				c := e.opaqueMem[key]
				if c == nil {
					c = e.newCell("*"+o.Key, in.X.Type().Underlying().(*types.Pointer).Elem())
					e.opaqueMem[key] = c
				}
				return &Ptr{Cell: c, Path: []int{in.Field}}, ""
			}
			return nil, "field address of non-pointer " + valKey(x)
		}
		if p.SymIdx != nil || p.Cell == nil {
			return nil, "field address under symbolic index"
		}
		return &Ptr{Cell: p.Cell, Path: append(append([]int(nil), p.Path...), in.Field)}, ""
	case *ssa.Index:
		x := e.val(st, fr, in.X)
		idx, ok := e.val(st, fr, in.Index).(*Form)
		if !ok {
			return nil, "non-numeric index"
		}
		switch x := x.(type) {
		case *Agg:
			if c, ok := idx.ConstInt(); ok && c >= 0 && int(c) < len(x.Elems) {
				return x.Elems[c], ""
			}
			return e.appOfType("index", in.Type(), &Opaque{Key: valKey(x)}, idx), ""
		case *Opaque:
			return e.elemOf(x, idx, in.Type()), ""
		case *StrVal:
			if c, ok := idx.ConstInt(); ok && c >= 0 && int(c) < len(x.S) {
				return formInt(int64(x.S[c])), ""
			}
		}
		return nil, "index of " + valKey(x)
	case *ssa.IndexAddr:
		x := e.val(st, fr, in.X)
		idx, ok := e.val(st, fr, in.Index).(*Form)
		if !ok {
			return nil, "non-numeric index"
		}
		et := in.Type().(*types.Pointer).Elem()
		switch x := x.(type) {
		case *Ptr: // pointer to array
			if x.Cell == nil || x.SymIdx != nil {
				return nil, "index address under symbolic index"
			}
			if c, ok := idx.ConstInt(); ok {
				return &Ptr{Cell: x.Cell, Path: append(append([]int(nil), x.Path...), int(c)), Elem: et}, ""
			}
			return &Ptr{Cell: x.Cell, Path: x.Path, SymIdx: idx, Elem: et}, ""
		case *SliceVal:
			off := x.Lo.Add(idx)
			if e.TrackBounds && x.Len != nil {
				st.addEvent(Event{Kind: "bounds", Fn: "index", Args: []Val{idx, x.Len}, Pos: in.Pos(), Instr: in, Conds: append([]*BoolVal(nil), st.conds...)})
			}
			if x.Arr != nil {
				if c, ok := off.ConstInt(); ok {
					return &Ptr{Cell: x.Arr.Cell, Path: append(append([]int(nil), x.Arr.Path...), int(c)), Elem: et}, ""
				}
				return &Ptr{Cell: x.Arr.Cell, Path: x.Arr.Path, SymIdx: off, Elem: et}, ""
			}
			if x.Base != nil {
				return &Ptr{Base: x.Base, SymIdx: off, Elem: et}, ""
			}
			return &Ptr{Base: &Opaque{Key: "nil-slice"}, SymIdx: off, Elem: et}, ""
		case *Opaque:
			return &Ptr{Base: x, SymIdx: idx, Elem: et}, ""
		}
		return nil, "index address of " + valKey(x)
	case *ssa.Slice:
		return e.sliceOp(st, fr, in)
	case *ssa.MakeSlice:
		ln, _ := e.val(st, fr, in.Len).(*Form)
		if ln == nil {
			return nil, "make with non-numeric length"
		}
		et := in.Type().Underlying().(*types.Slice).Elem()
		e.nextCell++
		base := &Opaque{Key: fmt.Sprintf("make#%d", e.nextCell), Type: in.Type(), Fn: "make", Args: []Val{ln}}
		var capV Val = ln
		if in.Cap != nil {
			if cf, ok := e.val(st, fr, in.Cap).(*Form); ok {
				capV = cf
			}
		}
		st.addEvent(Event{Kind: "make", Fn: "make", Args: []Val{ln, capV}, Pos: in.Pos()})
		return &SliceVal{Base: base, Lo: formInt(0), Len: ln, Elem: et}, ""
	case *ssa.MakeMap:
		c := e.newCell("map", in.Type())
		return &MapVal{Name: fmt.Sprintf("map#%d", c.ID), Cell: c}, ""
	case *ssa.MakeClosure:
		fv := &FuncVal{Fn: in.Fn.(*ssa.Function)}
		for _, b := range in.Bindings {
			fv.Bindings = append(fv.Bindings, e.val(st, fr, b))
		}
		return fv, ""
	case *ssa.Lookup:
		x := e.val(st, fr, in.X)
		k := e.val(st, fr, in.Index)
		if s, ok := x.(*StrVal); ok {
			if f, ok := k.(*Form); ok {
				if c, ok := f.ConstInt(); ok && c >= 0 && int(c) < len(s.S) {
					return formInt(int64(s.S[c])), ""
				}
			}
		}
		if m, ok := x.(*MapVal); ok {
			// last matching update with an identical key
			ents := e.mapEntries(st, m)
			for i := len(ents) - 1; i >= 0; i-- {
				if valKey(ents[i].K) == valKey(k) {
					if in.CommaOk {
						return Tuple{ents[i].V, boolConst(true)}, ""
					}
					return ents[i].V, ""
				}
			}
		}
		if in.CommaOk {
			tt := in.Type().(*types.Tuple)
			return Tuple{e.appOfType("lookup", tt.At(0).Type(), x, k), &BoolVal{Op: "atom", K: "has(" + valKey(x) + "," + valKey(k) + ")"}}, ""
		}
		return e.appOfType("lookup", in.Type(), x, k), ""
	case *ssa.TypeAssert:
		x := e.val(st, fr, in.X)
		// dynamic type known?
		if in.CommaOk {
			// the parsers' stream stands for the *bufio.Reader their loader hands them (rule
			// C07.only-through-tee): probing it for Discard (a forward-only skip) succeeds,
			// probing it for anything else the model does not offer fails
			if rd, isR := x.(*ReaderVal); isR {
				if it, isI := in.AssertedType.Underlying().(*types.Interface); isI {
					has := it.NumMethods() > 0
					for k := 0; k < it.NumMethods(); k++ {
						switch it.Method(k).Name() {
						case "Read", "ReadByte", "Discard":
						default:
							has = false
						}
					}
					return Tuple{rd, boolConst(has)}, ""
				}
				return Tuple{e.zeroVal(in.AssertedType), boolConst(false)}, ""
			}
			ok := &BoolVal{Op: "atom", K: "istype(" + valKey(x) + "," + typeString(in.AssertedType) + ")"}
			nv := x
			if o, isO := x.(*Opaque); isO {
				nv = &Opaque{Key: o.Key, Type: in.AssertedType, Dyn: in.AssertedType, Fn: o.Fn, Args: o.Args}
			}
			return Tuple{nv, ok}, ""
		}
		return x, ""
	case *ssa.Range:
		x := e.val(st, fr, in.X)
		if fr.iters == nil {
			fr.iters = map[ssa.Value]int{}
		}
		fr.iters[in] = 0
		return &IterVal{Over: x, Of: in}, ""
	case *ssa.Next:
		it, ok := e.val(st, fr, in.Iter).(*IterVal)
		if !ok || in.IsString {
			return nil, "range over a string is not interpreted"
		}
		tt := in.Type().(*types.Tuple)
		idx := fr.iters[it.Of]
		fr.iters[it.Of] = idx + 1
		if m, ok := it.Over.(*MapVal); ok {
			// recorded updates in insertion order, later identical keys override earlier ones
			var ents []mapEntry
			for _, en := range st.maps[m.Cell] {
				dup := false
				for i := range ents {
					if valKey(ents[i].K) == valKey(en.K) {
						ents[i].V = en.V
						dup = true
					}
				}
				if !dup {
					ents = append(ents, en)
				}
			}
			if idx < len(ents) {
				return Tuple{boolConst(true), ents[idx].K, ents[idx].V}, ""
			}
			return Tuple{boolConst(false), e.zeroVal(tt.At(1).Type()), e.zeroVal(tt.At(2).Type())}, ""
		}
		// symbolic map: the n-th element exists or not
		name := fmt.Sprintf("%s#%d", valKey(it.Over), idx)
		return Tuple{&BoolVal{Op: "atom", K: "hasnext(" + name + ")"}, e.appOfType("mapkey", tt.At(1).Type(), it.Over, formInt(int64(idx))), e.appOfType("mapval", tt.At(2).Type(), it.Over, formInt(int64(idx)))}, ""
	}
	return nil, fmt.Sprintf("unsupported value instruction %T", in)
}

func (e *Engine) sliceOp(st *State, fr *frame, in *ssa.Slice) (Val, string) {
	x := e.val(st, fr, in.X)
	var lo, hi *Form
	if in.Low != nil {
		lo, _ = e.val(st, fr, in.Low).(*Form)
		if lo == nil {
			return nil, "non-numeric slice bound"
		}
	} else {
		lo = formInt(0)
	}
	if in.High != nil {
		hi, _ = e.val(st, fr, in.High).(*Form)
		if hi == nil {
			return nil, "non-numeric slice bound"
		}
	}
	switch x := x.(type) {
	case *Ptr: // pointer to array
		at, ok := in.X.Type().Underlying().(*types.Pointer).Elem().Underlying().(*types.Array)
		if !ok {
			return nil, "slice of pointer to non-array"
		}
		if hi == nil {
			hi = formInt(at.Len())
		}
		return &SliceVal{Arr: x, Lo: lo, Len: hi.Sub(lo), Elem: at.Elem()}, ""
	case *SliceVal:
		if hi == nil {
			hi = x.Len
		}
		if e.TrackBounds && x.Len != nil && (in.Low != nil || in.High != nil) {
			st.addEvent(Event{Kind: "bounds", Fn: "slice", Args: []Val{lo, hi, x.Len}, Pos: in.Pos(), Instr: in, Conds: append([]*BoolVal(nil), st.conds...)})
		}
		return &SliceVal{Arr: x.Arr, Base: x.Base, Lo: x.Lo.Add(lo), Len: hi.Sub(lo), Elem: x.Elem, Nil: x.Nil && in.Low == nil && in.High == nil}, ""
	case *StrVal:
		l, ok1 := lo.ConstInt()
		h := int64(len(x.S))
		ok2 := true
		if hi != nil {
			h, ok2 = hi.ConstInt()
		}
		if ok1 && ok2 && l >= 0 && h <= int64(len(x.S)) && l <= h {
			return &StrVal{S: x.S[l:h]}, ""
		}
	case *Opaque:
		if hi == nil {
			hi = e.A.App("len", types.Typ[types.Int], x)
		}
		if e.TrackBounds && (in.Low != nil || in.High != nil) {
			st.addEvent(Event{Kind: "bounds", Fn: "slice", Args: []Val{lo, hi, e.A.App("len", types.Typ[types.Int], x)}, Pos: in.Pos(), Instr: in, Conds: append([]*BoolVal(nil), st.conds...)})
		}
		var et types.Type
		if s, ok := in.Type().Underlying().(*types.Slice); ok {
			et = s.Elem()
		}
		return &SliceVal{Base: x, Lo: lo, Len: hi.Sub(lo), Elem: et}, ""
	}
	return nil, "slice of " + valKey(x)
}

// ---------------------------------------------------------------------------
// arithmetic

func cmpRat(op token.Token, a, b *big.Rat) bool {
	c := a.Cmp(b)
	switch op {
	case token.LSS:
		return c < 0
	case token.LEQ:
		return c <= 0
	case token.GTR:
		return c > 0
	case token.GEQ:
		return c >= 0
	case token.EQL:
		return c == 0
	case token.NEQ:
		return c != 0
	}
	return false
}

func (e *Engine) binop(op token.Token, x, y Val, xt, rt types.Type) (Val, string) {
	switch op {
	case token.EQL, token.NEQ, token.LSS, token.LEQ, token.GTR, token.GEQ:
		return e.compare(op, x, y, xt)
	}
	if bx, ok := x.(*BoolVal); ok {
		by, _ := y.(*BoolVal)
		if by == nil {
			return nil, "boolean op with non-boolean"
		}
		switch op {
		case token.AND, token.LAND:
			if bx.Const != nil {
				if *bx.Const {
					return by, ""
				}
				return boolConst(false), ""
			}
			if by.Const != nil {
				if *by.Const {
					return bx, ""
				}
				return boolConst(false), ""
			}
			return &BoolVal{Op: "and", A: bx, B: by}, ""
		case token.OR, token.LOR:
			if bx.Const != nil {
				if *bx.Const {
					return boolConst(true), ""
				}
				return by, ""
			}
			if by.Const != nil {
				if *by.Const {
					return boolConst(true), ""
				}
				return bx, ""
			}
			return &BoolVal{Op: "or", A: bx, B: by}, ""
		}
		return nil, "unsupported boolean op " + op.String()
	}
	fx, ok1 := x.(*Form)
	fy, ok2 := y.(*Form)
	if !ok1 || !ok2 {
		if sx, ok := x.(*StrVal); ok && op == token.ADD {
			if sy, ok := y.(*StrVal); ok {
				return &StrVal{S: sx.S + sy.S}, ""
			}
		}
		if op == token.ADD {
			// string concatenation of string forms
			parts := func(v Val) ([]Val, bool) {
				switch s := v.(type) {
				case *StrVal:
					if s.S == "" {
						return nil, true
					}
					return []Val{s}, true
				case *StrForm:
					return s.Parts, true
				}
				return nil, false
			}
			if px, ok := parts(x); ok {
				if py, ok := parts(y); ok {
					all := append(append([]Val(nil), px...), py...)
					// merge adjacent constants
					var merged []Val
					for _, p := range all {
						if s, ok := p.(*StrVal); ok && len(merged) > 0 {
							if last, ok := merged[len(merged)-1].(*StrVal); ok {
								merged[len(merged)-1] = &StrVal{S: last.S + s.S}
								continue
							}
						}
						merged = append(merged, p)
					}
					return &StrForm{Parts: merged}, ""
				}
			}
		}
		return e.appOfType("op"+op.String(), rt, x, y), ""
	}
	fbits, isF := isFloatType(rt)
	f32 := isF && fbits == 32
	mark := func(f *Form) *Form {
		if f32 {
			g := *f
			g.F32 = true
			return &g
		}
		return f
	}
	w, signed, isInt := intTypeInfo(rt, e.WordBits)
	switch op {
	case token.ADD:
		return e.wrapInt(mark(fx.Add(fy)), w, signed, isInt), ""
	case token.SUB:
		return e.wrapInt(mark(fx.Sub(fy)), w, signed, isInt), ""
	case token.MUL:
		return e.wrapInt(mark(fx.Mul(fy)), w, signed, isInt), ""
	case token.QUO:
		if isInt {
			cx, okx := fx.ConstInt()
			cy, oky := fy.ConstInt()
			if okx && oky && cy != 0 {
				return formInt(cx / cy), ""
			}
			// unsigned division by 2^k is a right shift
			if oky && !signed && cy > 0 && cy&(cy-1) == 0 && cy > 1 {
				if _, isAtomLike := fx.SingleAtom(); isAtomLike {
					sh := 0
					for v := cy; v > 1; v >>= 1 {
						sh++
					}
					bv := e.toBV(fx, w, signed)
					if !strings.HasPrefix(bv.Key(), "{") && bvIsInputBits(bv) {
						return e.fromBV(bv.shr(sh, false), rt), ""
					}
				}
			}
			return e.A.App("idiv", rt, fx, fy), ""
		}
		if c, ok := fy.Const(); ok && c.Sign() == 0 {
			return e.A.App("div0", rt, fx), ""
		}
		return mark(fx.Div(fy)), ""
	case token.REM:
		cx, okx := fx.ConstInt()
		cy, oky := fy.ConstInt()
		if okx && oky && cy != 0 {
			return formInt(cx % cy), ""
		}
		// unsigned remainder by 2^k keeps the low k bits
		if oky && !signed && cy > 1 && cy&(cy-1) == 0 {
			if _, isAtomLike := fx.SingleAtom(); isAtomLike {
				k := 0
				for v := cy; v > 1; v >>= 1 {
					k++
				}
				bv := e.toBV(fx, w, signed)
				if bvIsInputBits(bv) {
					mask := bvConst(big.NewInt(cy-1), w)
					return e.fromBV(bv.bitwise("&", mask), rt), ""
				}
			}
		}
		return e.A.App("rem", rt, fx, fy), ""
	case token.SHL, token.SHR:
		k, ok := fy.ConstInt()
		if !ok {
			return e.A.App("shift"+op.String(), rt, fx, fy), ""
		}
		bv := e.toBV(fx, w, signed)
		if k >= int64(w) {
			if op == token.SHL || !signed {
				return formInt(0), ""
			}
			k = int64(w)
		}
		if op == token.SHL {
			return e.fromBV(bv.shl(int(k)), rt), ""
		}
		return e.fromBV(bv.shr(int(k), signed), rt), ""
	case token.AND, token.OR, token.XOR, token.AND_NOT:
		bx := e.toBV(fx, w, signed)
		by := e.toBV(fy, w, signed)
		return e.fromBV(bx.bitwise(op.String(), by), rt), ""
	}
	return nil, "unsupported binary op " + op.String()
}

// wrapInt reduces integer constants modulo the type width (symbolic integer
// forms are kept as mathematical integers; wrap-around is the business of
// C09's rules, not of the forms).
func (e *Engine) wrapInt(f *Form, w int, signed, isInt bool) Val {
	if !isInt {
		return f
	}
	c, ok := f.Const()
	if !ok || !c.IsInt() {
		return f
	}
	v := new(big.Int).Set(c.Num())
	mod := new(big.Int).Lsh(big.NewInt(1), uint(w))
	v.Mod(v, mod)
	if signed && v.Bit(w-1) == 1 {
		v.Sub(v, mod)
	}
	return formRat(new(big.Rat).SetInt(v))
}

func (e *Engine) compare(op token.Token, x, y Val, xt types.Type) (Val, string) {
	ops := op.String()
	switch a := x.(type) {
	case *Form:
		b, ok := y.(*Form)
		if !ok {
			return nil, "comparison of number with non-number"
		}
		ca, oka := a.Const()
		cb, okb := b.Const()
		if oka && okb {
			return boolConst(cmpRat(op, ca, cb)), ""
		}
		if (op == token.EQL || op == token.LEQ || op == token.GEQ) && a.Equal(b) {
			return boolConst(true), ""
		}
		if (op == token.NEQ || op == token.LSS || op == token.GTR) && a.Equal(b) {
			return boolConst(false), ""
		}
		// a value with a single undetermined bit (x & 0x20) compared with a
		// constant: canonical form is the comparison with the bit-clear value,
		// so that  x&m == m  and  x&m != 0  are the same condition
		if (op == token.EQL || op == token.NEQ) && xt != nil && (oka != okb) {
			if w, signed, isInt := intTypeInfo(xt, e.WordBits); isInt {
				v, k := a, cb
				if oka {
					v, k = b, ca
				}
				if k.IsInt() {
					bv := e.toBV(v, w, signed)
					free := -1
					n := 0
					for i, bit := range bv.Bits {
						if bit.Kind != '0' && bit.Kind != '1' {
							free = i
							n++
						}
					}
					if n == 1 {
						k0 := new(big.Int)
						for i, bit := range bv.Bits {
							if bit.Kind == '1' {
								k0.SetBit(k0, i, 1)
							}
						}
						k1 := new(big.Int).SetBit(new(big.Int).Set(k0), free, 1)
						kk := new(big.Int).Set(k.Num())
						if !signed || kk.Sign() >= 0 {
							switch {
							case kk.Cmp(k0) == 0:
								return &BoolVal{Op: ops, A: v, B: formRat(new(big.Rat).SetInt(k0))}, ""
							case kk.Cmp(k1) == 0:
								flip := "!="
								if op == token.NEQ {
									flip = "=="
								}
								return &BoolVal{Op: flip, A: v, B: formRat(new(big.Rat).SetInt(k0))}, ""
							default:
								return boolConst(op == token.NEQ), ""
							}
						}
					}
				}
			}
		}
		return &BoolVal{Op: ops, A: a, B: b}, ""
	case *BoolVal:
		b, ok := y.(*BoolVal)
		if ok && a.Const != nil && b.Const != nil {
			eq := *a.Const == *b.Const
			if op == token.NEQ {
				eq = !eq
			}
			return boolConst(eq), ""
		}
		if ok && b.Const != nil {
			if (*b.Const) == (op == token.EQL) {
				return a, ""
			}
			return a.Not(), ""
		}
		return &BoolVal{Op: ops, A: x, B: y}, ""
	case *ErrVal:
		if b, ok := y.(*Opaque); ok && a.IsNil && b.Key != "nil" && (strings.Contains(b.Key, "Err") || strings.Contains(b.Key, "EOF")) {
			// a nil error never equals a sentinel error variable
			return boolConst(op == token.NEQ), ""
		}
		if b, ok := y.(*ErrVal); ok {
			if a.IsNil && b.IsNil {
				return boolConst(op == token.EQL), ""
			}
			if a.IsNil != b.IsNil {
				return boolConst(op == token.NEQ), ""
			}
		}
		return &BoolVal{Op: ops, A: x, B: y}, ""
	case *StrVal:
		if b, ok := y.(*StrVal); ok {
			switch op {
			case token.EQL:
				return boolConst(a.S == b.S), ""
			case token.NEQ:
				return boolConst(a.S != b.S), ""
			}
		}
	case *Agg:
		if b, ok := y.(*Agg); ok && len(a.Elems) == len(b.Elems) {
			// elementwise: all constant-equal → true; any constant-different → false
			all := true
			for i := range a.Elems {
				r, _ := e.compare(token.EQL, a.Elems[i], b.Elems[i], nil)
				rb, _ := r.(*BoolVal)
				if rb == nil || rb.Const == nil {
					all = false
					continue
				}
				if !*rb.Const {
					return boolConst(op == token.NEQ), ""
				}
			}
			if all {
				return boolConst(op == token.EQL), ""
			}
		}
	case *Opaque:
		if b, ok := y.(*Opaque); ok && a.Key == b.Key {
			return boolConst(op == token.EQL), ""
		}
		if e.NonNil != nil && (op == token.EQL || op == token.NEQ) {
			if b, ok := y.(*Opaque); ok {
				if (b.Key == "nil" && a.Key != "nil" && e.NonNil(a)) || (a.Key == "nil" && b.Key != "nil" && e.NonNil(b)) {
					return boolConst(op == token.NEQ), ""
				}
			}
		}
		if b, ok := y.(*ErrVal); ok && b.IsNil && a.Key != "nil" && (strings.Contains(a.Key, "Err") || strings.Contains(a.Key, "EOF")) && (op == token.EQL || op == token.NEQ) {
			// a sentinel error variable is never nil
			return boolConst(op == token.NEQ), ""
		}
	case *SliceVal:
		// comparison with nil
		if b, ok := y.(*SliceVal); ok && b.Nil {
			if a.Nil {
				return boolConst(op == token.EQL), ""
			}
			if a.Arr != nil || (a.Base != nil && a.Base.Fn == "make") {
				return boolConst(op == token.NEQ), ""
			}
		}
	case *FuncVal:
		// a function or closure value is never nil
		if b, ok := y.(*Opaque); ok && b.Key == "nil" && (op == token.EQL || op == token.NEQ) {
			return boolConst(op == token.NEQ), ""
		}
	case *Ptr:
		if yo, ok := y.(*Opaque); ok && a.Cell != nil { // p == nil
			if yo.Key == "nil" && !a.Cell.Alloc && strings.HasPrefix(a.Cell.Name, "*") && strings.Contains(a.Cell.Name, ".") && len(a.Path) == 0 && a.SymIdx == nil && (op == token.EQL || op == token.NEQ) {
				// a pointer held in a field of storage the caller supplied: either way
				return &BoolVal{Op: ops, A: x, B: y}, ""
			}
			return boolConst(op == token.NEQ), ""
		}
		if b, ok := y.(*Ptr); ok {
			return boolConst((a.Key() == b.Key()) == (op == token.EQL)), ""
		}
	}
	if e2, ok := y.(*ErrVal); ok && e2.IsNil {
		if _, isPtr := x.(*Ptr); isPtr {
			return boolConst(op == token.NEQ), ""
		}
	}
	return &BoolVal{Op: ops, A: x, B: y}, ""
}

// toBV converts an integer form to a bit vector of width w.
func (e *Engine) toBV(f *Form, w int, signed bool) *BV {
	if c, ok := f.Const(); ok && c.IsInt() {
		return bvConst(c.Num(), w)
	}
	if a, ok := f.SingleAtom(); ok {
		at := e.A.get(a)
		if at != nil && at.Kind == "bv" {
			return at.BV.resize(w, signed)
		}
		if at != nil && at.Type != nil {
			if aw, asigned, isInt := intTypeInfo(at.Type, e.WordBits); isInt {
				return bvAtom(a, aw, w, asigned)
			}
		}
		return bvAtom(a, w, w, signed)
	}
	// a sum of bit-disjoint parts (hi<<32 + lo, x*256 + y) is their bitwise or
	if bv := e.disjointSum(f, w, signed); bv != nil {
		return bv
	}
	// arbitrary form: name it
	key := "{" + f.Key() + "}"
	e.A.intern(&Atom{Key: key, Kind: "app", Fn: "form", Args: []Val{f}})
	return bvAtom(key, w, w, signed)
}

// disjointSum recognises c0 + Σ 2^k·atom whose parts occupy disjoint bits.
func (e *Engine) disjointSum(f *Form, w int, signed bool) *BV {
	if d, ok := f.D.constVal(); !ok || d.Cmp(big.NewRat(1, 1)) != 0 || len(f.N.t) < 2 || len(f.N.t) > 9 {
		return nil
	}
	var parts []*BV
	for _, t := range f.N.t {
		if !t.c.IsInt() || t.c.Sign() <= 0 {
			return nil
		}
		if len(t.m.vars) == 0 {
			parts = append(parts, bvConst(t.c.Num(), w))
			continue
		}
		if len(t.m.vars) != 1 || t.m.vars[0].p != 1 {
			return nil
		}
		n := t.c.Num()
		k := n.BitLen() - 1
		if new(big.Int).Lsh(big.NewInt(1), uint(k)).Cmp(n) != 0 || k >= w {
			return nil
		}
		at := e.A.get(t.m.vars[0].a)
		if at == nil {
			return nil
		}
		var b *BV
		switch {
		case at.Kind == "bv":
			b = at.BV.resize(w, false)
		case at.Type != nil:
			aw, asigned, isInt := intTypeInfo(at.Type, e.WordBits)
			if !isInt || asigned {
				return nil
			}
			b = bvAtom(t.m.vars[0].a, aw, w, false)
		default:
			return nil
		}
		// the shift must not push live bits out of the word
		for i := w - k; i < w; i++ {
			if i >= 0 && b.Bits[i].Kind != '0' {
				return nil
			}
		}
		parts = append(parts, b.shl(k))
	}
	out := bvConst(new(big.Int), w)
	for _, p := range parts {
		for i := range p.Bits {
			if p.Bits[i].Kind == '0' {
				continue
			}
			if out.Bits[i].Kind != '0' {
				return nil
			}
			out.Bits[i] = p.Bits[i]
		}
	}
	return out
}

// fromBV converts a bit vector back to a form.
func (e *Engine) fromBV(b *BV, t types.Type) *Form {
	if v, ok := b.constVal(); ok {
		w, signed, _ := intTypeInfo(t, e.WordBits)
		if signed && w > 0 && v.Bit(w-1) == 1 {
			v.Sub(v, new(big.Int).Lsh(big.NewInt(1), uint(w)))
		}
		return formRat(new(big.Rat).SetInt(v))
	}
	if a, aw, ok := b.wholeAtom(); ok {
		at := e.A.get(a)
		if at != nil && at.Type != nil {
			if w, _, isInt := intTypeInfo(at.Type, e.WordBits); isInt && w == aw {
				return formAtom(a)
			}
		}
		if at != nil && at.Kind == "app" && at.Fn == "form" && aw == len(b.Bits) {
			return at.Args[0].(*Form)
		}
	}
	key := "bv<" + b.Key() + ">"
	e.A.intern(&Atom{Key: key, Kind: "bv", BV: b, Type: t})
	return formAtom(key)
}

// BVOf exposes the bit-level description of an integer value of type t.
func (e *Engine) BVOf(f *Form, t types.Type) *BV {
	w, signed, ok := intTypeInfo(t, e.WordBits)
	if !ok {
		w, signed = 64, false
	}
	return e.toBV(f, w, signed)
}

func (e *Engine) convert(x Val, from, to types.Type) (Val, string) {
	f, isForm := x.(*Form)
	tw, tsigned, toInt := intTypeInfo(to, e.WordBits)
	fw, fsigned, fromInt := intTypeInfo(from, e.WordBits)
	_, toFloat := isFloatType(to)
	_, fromFloat := isFloatType(from)
	switch {
	case isForm && fromInt && toInt:
		if c, ok := f.Const(); ok && c.IsInt() {
			return e.wrapInt(f, tw, tsigned, true), ""
		}
		if tw > fw || (tw == fw && fsigned == tsigned) {
			if tw > fw && fsigned && !tsigned {
				// sign extension then reinterpretation: keep symbolic value (documented approximation)
			}
			return f, ""
		}
		if tw == fw {
			return f, ""
		}
		// narrowing: truncate bits
		bv := e.toBV(f, fw, fsigned).resize(tw, false)
		return e.fromBV(bv, to), ""
	case isForm && fromInt && toFloat:
		return f, ""
	case isForm && fromFloat && toFloat:
		return f, ""
	case isForm && fromFloat && toInt:
		if c, ok := f.Const(); ok {
			// truncation toward zero
			n := new(big.Int).Quo(c.Num(), c.Denom())
			return e.wrapInt(formRat(new(big.Rat).SetInt(n)), tw, tsigned, true), ""
		}
		return e.A.App("trunc:"+typeString(to), to, f), ""
	}
	// []byte("constant"): a slice over a fresh array of known bytes
	if sv, ok := x.(*StrVal); ok {
		if sl, ok := to.Underlying().(*types.Slice); ok {
			if b, ok := sl.Elem().Underlying().(*types.Basic); ok && b.Kind() == types.Uint8 && len(sv.S) <= 256 {
				c := e.newCell("bytes", types.NewArray(sl.Elem(), int64(len(sv.S))))
				a := &Agg{Type: c.Type, Elems: make([]Val, len(sv.S))}
				for i := range a.Elems {
					a.Elems[i] = formInt(int64(sv.S[i]))
				}
				e.constCells[c] = a
				return &SliceVal{Arr: &Ptr{Cell: c}, Lo: formInt(0), Len: formInt(int64(len(sv.S))), Elem: sl.Elem()}, ""
			}
		}
	}
	// string / byte-slice conversions and everything else
	return e.appOfType("convert:"+typeString(to), to, x), ""
}

// infeasible reports whether an ordering/equality comparison of two forms
// cannot hold when every atom is a non-negative quantity (input bytes, bit
// vectors of input bytes, lengths).
func (e *Engine) infeasible(c *BoolVal) bool {
	if c == nil || c.Const != nil {
		return false
	}
	a, okA := c.A.(*Form)
	b, okB := c.B.(*Form)
	if !okA || !okB {
		return false
	}
	d := a.Sub(b)
	if dc, ok := d.D.constVal(); !ok || dc.Sign() <= 0 {
		return false
	}
	allNonPos, allNonNeg := true, true
	konst := new(big.Rat)
	for _, t := range d.N.t {
		if len(t.m.vars) == 0 {
			konst = t.c
			continue
		}
		for _, v := range t.m.vars {
			at := e.A.get(v.a)
			nonneg := false
			if at != nil {
				switch {
				case at.Kind == "byte", at.Kind == "bv":
					nonneg = true
				case at.Fn == "len", at.Fn == "index", at.Fn == "idiv":
					nonneg = true
				}
				if at.Type != nil {
					if _, signed, isInt := intTypeInfo(at.Type, e.WordBits); isInt && !signed {
						nonneg = true
					}
				}
			}
			if !nonneg {
				return false
			}
		}
		if t.c.Sign() > 0 {
			allNonPos = false
		}
		if t.c.Sign() < 0 {
			allNonNeg = false
		}
	}
	switch c.Op {
	case ">":
		return allNonPos && konst.Sign() <= 0
	case ">=":
		return allNonPos && konst.Sign() < 0
	case "<":
		return allNonNeg && konst.Sign() >= 0
	case "<=":
		return allNonNeg && konst.Sign() > 0
	case "==":
		return (allNonNeg && konst.Sign() > 0) || (allNonPos && konst.Sign() < 0)
	}
	return false
}

// bvIsInputBits reports whether every bit of b is a constant or a bit of a
// byte / field atom (so that shifting it is meaningful provenance).
func bvIsInputBits(b *BV) bool {
	for _, bit := range b.Bits {
		if bit.Kind == '?' {
			return false
		}
	}
	return true
}

// mapEntries returns the recorded updates of a map, including those made
// while the package initial state was evaluated.
func (e *Engine) mapEntries(st *State, m *MapVal) []mapEntry {
	if ents, ok := st.maps[m.Cell]; ok && len(ents) > 0 {
		return ents
	}
	return e.constMaps[m.Cell]
}

// forkLookup: a look-up with a symbolic key in a small map of constant keys
// is a case split over the entries (key == k1 → v1, …, none → zero value).
func (e *Engine) forkLookup(st *State, fr *frame, in *ssa.Lookup, b, pred *ssa.BasicBlock, i, depth int) ([]Outcome, bool) {
	m, ok := e.val(st, fr, in.X).(*MapVal)
	if !ok {
		return nil, false
	}
	ents := e.mapEntries(st, m)
	if len(ents) == 0 || len(ents) > 16 {
		return nil, false
	}
	key := e.val(st, fr, in.Index)
	// later updates of the same key win
	var uniq []mapEntry
	seen := map[string]bool{}
	for k := len(ents) - 1; k >= 0; k-- {
		kk := valKey(ents[k].K)
		if kk == valKey(key) {
			return nil, false // decided syntactically by the ordinary path
		}
		if !constKey(ents[k].K) {
			return nil, false
		}
		if !seen[kk] {
			seen[kk] = true
			uniq = append(uniq, ents[k])
		}
	}
	mt, _ := in.X.Type().Underlying().(*types.Map)
	if mt == nil {
		return nil, false
	}
	result := func(v Val, found bool) Val {
		if in.CommaOk {
			return Tuple{v, boolConst(found)}
		}
		return v
	}
	var outs []Outcome
	rem, remFr := st, fr
	e.paths += len(uniq)
	if e.paths > e.MaxPaths {
		return e.stuck(st, "path budget exceeded", in.Pos()), true
	}
	for _, en := range uniq {
		cv, why := e.compare(token.EQL, key, en.K, mt.Key())
		c, _ := cv.(*BoolVal)
		if why != "" || c == nil {
			return nil, false
		}
		if c.Const != nil {
			if *c.Const {
				remFr.env[in] = result(en.V, true)
				return append(outs, e.exec(rem, remFr, b, pred, i+1, depth)...), true
			}
			continue
		}
		stI, frI := rem.clone(), remFr.clone()
		stI.conds = append(stI.conds, c)
		stI.learn(c)
		frI.env[in] = result(en.V, true)
		outs = append(outs, e.exec(stI, frI, b, pred, i+1, depth)...)
		rem.conds = append(rem.conds, c.Not())
	}
	remFr.env[in] = result(e.zeroVal(mt.Elem()), false)
	return append(outs, e.exec(rem, remFr, b, pred, i+1, depth)...), true
}

func constKey(v Val) bool {
	switch x := v.(type) {
	case *Form:
		_, ok := x.Const()
		return ok
	case *Agg:
		for _, el := range x.Elems {
			if !constKey(el) {
				return false
			}
		}
		return true
	case *StrVal:
		return true
	}
	return false
}
