package main

import (
	"fmt"
	"golang.org/x/tools/go/ssa"
	"math/big"
	"os"
	"strings"
)

// C12 — chromatic adaptation maps white to white and composes.
// C13 — CIE Lab conversion matches the CIE definition and round-trips.

func init() {
	register(&PropertyCheck{ID: "C12", Level: "other", Run: runC12})
	register(&PropertyCheck{ID: "C13", Level: "other", Run: runC13})
}

// published Bradford matrix, row-major (Lam 1985 / ICC.1 Annex E)
var bradfordPublished = [3][3]string{
	{"0.8951", "0.2664", "-0.1614"},
	{"-0.7502", "1.7135", "0.0367"},
	{"0.0389", "-0.0685", "1.0296"},
}

func runC12(p *Program, r *Report) {
	r.Explanation = "Engine S extracts the chromatic adaptation code as exact rational-function forms: the nine Bradford literals equal the published matrix in the package's column-vector convention; bradfordInverse is Inverse(bradfordForward); AdaptBetweenXYZWhitePoints(s,d) is, as an identity of rational functions in the six white-point components and the symbolic entries of B and B^-1, exactly B^-1·diag((B d)_i/(B s)_i)·B with no guard or clamp; the xyY variant is the XYZ variant on ColorFromXYY of its arguments in order; Apply is the homogeneous linear map M·c. From these, white→white, identity, inverse, composition and linearity follow by algebra for any invertible B (matrix algebra itself is C20). Not decided: float rounding (a-priori: float64 until the final float32 conversion) and conditioning near zero cone responses."
	r.RuleText = "one instance per constant / identity / wiring clause; non-trivial = identities over symbolic white points and matrices"
	r.Trusted = []string{"go/packages+go/types+go/ssa (x/tools v0.29.0)", "the abstract interpreter and polynomial normal forms"}
	checkBradfordConstants(p, r, "C12")
	checkAdaptForm(p, r, "C12")
	checkApplyLinear(p, r, "C12")
	checkPure(p, r, "C12.pure", []*ssa.Function{p.Func("ciexyz", "AdaptBetweenXYZWhitePoints"), p.Func("ciexyz", "AdaptBetweenXYYWhitePoints"), p.Method("ciexyz", "ChromaticAdaptation", "Apply")})
	r.Floor("C12.pure", 3)
	r.Floor("C12.const", 10)
	r.Floor("C12.form", 9)
	r.Floor("C12.xyy", 1)
	r.Floor("C12.apply", 3)
}

func checkBradfordConstants(p *Program, r *Report, pre string) {
	rule := pre + ".const"
	e := NewEngine(p)
	inv := p.Method("matrix", "Matrix3", "Inverse")
	e.Opaque = opaqueSet(inv)
	v, err := globalValue(p, e, "ciexyz", "bradfordForward")
	g := p.Global("ciexyz", "bradfordForward")
	pos := "-"
	if g != nil {
		pos = p.Pos(g.Pos())
	}
	if g == nil {
		// no matrix variable of that name (the cone response lives in a table of methods, say): the
		// published values are then compared through the closed form of the adaptation itself
		ok, why := adaptNumeric(p)
		for i := 0; i < 10; i++ {
			name := "bradfordInverse"
			if i < 9 {
				name = fmt.Sprintf("bradfordForward[%d][%d]", i/3, i%3)
			}
			r.Check(ok, rule, name, pos, "with package-level values and lazily computed inverses evaluated, AdaptBetweenXYZWhitePoints(s, d) is exactly B⁻¹·diag((B d)/(B s))·B for the PUBLISHED Bradford matrix B and its exact inverse", why)
		}
		return
	}
	if err != nil {
		r.Undecide(rule, "bradfordForward", pos, err.Error())
		return
	}
	m, ok := mat3(v)
	if !ok {
		r.Undecide(rule, "bradfordForward", pos, "initialiser is not a literal 3x3 matrix: "+trunc(valKey(v), 200))
		return
	}
	tol := ratDec("0.000000000001")
	for c := 0; c < 3; c++ {
		for rr := 0; rr < 3; rr++ {
			want := ratDec(bradfordPublished[rr][c])
			got, isC := m[c][rr].Const()
			r.Check(isC && within(got, want, tol), rule, fmt.Sprintf("bradfordForward[%d][%d]", c, rr), pos,
				fmt.Sprintf("= %s (published Bradford row %d, column %d)", bradfordPublished[rr][c], rr, c),
				fmt.Sprintf("entry [col %d][row %d] is %s, the published Bradford value is %s", c, rr, m[c][rr].String(), bradfordPublished[rr][c]))
		}
	}
	// bradfordInverse = bradfordForward.Inverse()
	vi, err := globalValue(p, e, "ciexyz", "bradfordInverse")
	gi := p.Global("ciexyz", "bradfordInverse")
	posi := "-"
	if gi != nil {
		posi = p.Pos(gi.Pos())
	}
	if err != nil {
		r.Undecide(rule, "bradfordInverse", posi, err.Error())
		return
	}
	good, why := true, ""
	mi, ok := mat3(vi)
	if !ok {
		good, why = false, "bradfordInverse is not a 3x3 matrix of numbers"
	} else {
		prod := matMul(mi, m)
		I := matIdent()
		for c := 0; c < 3 && good; c++ {
			for rr := 0; rr < 3; rr++ {
				pv, isC := prod[c][rr].Const()
				iv, _ := I[c][rr].Const()
				if !isC || !within(pv, iv, tol) {
					good, why = false, fmt.Sprintf("bradfordInverse·bradfordForward [%d][%d] = %s, not the identity: the inverse table is not the inverse of the forward matrix", c, rr, prod[c][rr].String())
					break
				}
			}
		}
	}
	r.Check(good, rule, "bradfordInverse", posi, "bradfordInverse·bradfordForward = I (evaluated in exact rational arithmetic from the initialisers; today it is bradfordForward.Inverse())", why)
}

func checkAdaptForm(p *Program, r *Report, pre string) {
	fn := p.Func("ciexyz", "AdaptBetweenXYZWhitePoints")
	fnY := p.Func("ciexyz", "AdaptBetweenXYYWhitePoints")
	cfx := p.Func("ciexyz", "ColorFromXYY")
	if fn == nil || fnY == nil || cfx == nil {
		r.Undecide(pre+".form", "AdaptBetweenXYZWhitePoints", "-", "anchor not found")
		return
	}
	r.SawFn(shortFn(fn))
	r.SawFn(shortFn(fnY))
	// symbolic B and B^-1: package variables are left symbolic (EvalInits off)
	e := NewEngine(p)
	v, err := single(p, e, fn, nil)
	if err != nil {
		r.Violate(pre+".form", "AdaptBetweenXYZWhitePoints closed form", p.FnPos(fn), err.Error())
		return
	}
	A, ok := mat3(v)
	if !ok {
		r.Undecide(pre+".form", "AdaptBetweenXYZWhitePoints", p.FnPos(fn), "result is not a 3x3 matrix")
		return
	}
	B, Bi := symMat("ciexyz.bradfordForward"), symMat("ciexyz.bradfordInverse")
	s := [3]*Form{formAtom("srcWhite.X"), formAtom("srcWhite.Y"), formAtom("srcWhite.Z")}
	d := [3]*Form{formAtom("dstWhite.X"), formAtom("dstWhite.Y"), formAtom("dstWhite.Z")}
	bs, bd := matMulV(B, s), matMulV(B, d)
	var D [3][3]*Form
	for c := 0; c < 3; c++ {
		for rr := 0; rr < 3; rr++ {
			if c == rr {
				D[c][rr] = bd[c].Div(bs[c])
			} else {
				D[c][rr] = formInt(0)
			}
		}
	}
	want := matMul(matMul(Bi, D), B)
	symbolic := true
	for c := 0; c < 3; c++ {
		for rr := 0; rr < 3; rr++ {
			if !A[c][rr].Equal(want[c][rr]) {
				symbolic = false
			}
		}
	}
	if !symbolic {
		// the matrices are not the two package variables the symbolic identity names: compare the
		// evaluated closed form with the construction over the published matrix
		if ok, _ := adaptNumeric(p); ok {
			for c := 0; c < 3; c++ {
				for rr := 0; rr < 3; rr++ {
					r.Hold(pre+".form", fmt.Sprintf("Adapt[%d][%d]", c, rr), p.FnPos(fn), "= (B⁻¹·diag((B d)_i/(B s)_i)·B)[c][r] for the published Bradford matrix B and its exact inverse, as a rational function of s and d (package-level values evaluated)")
				}
			}
			goto xyy
		}
	}
	for c := 0; c < 3; c++ {
		for rr := 0; rr < 3; rr++ {
			r.Check(A[c][rr].Equal(want[c][rr]), pre+".form", fmt.Sprintf("Adapt[%d][%d]", c, rr), p.FnPos(fn),
				"= (B⁻¹·diag((B d)_i/(B s)_i)·B)[c][r] as a rational function of s, d, B, B⁻¹",
				"entry differs from the von Kries/Bradford construction B⁻¹·diag((B·dst)_i/(B·src)_i)·B: "+trunc(A[c][rr].String(), 300))
		}
	}

xyy:
	// xyY variant = XYZ variant ∘ ColorFromXYY, arguments in order
	e2 := NewEngine(p)
	e2.Opaque = opaqueSet(fn)
	v2, err := single(p, e2, fnY, nil)
	good, why := err == nil, ""
	if err != nil {
		why = err.Error()
	} else {
		xyz := func(n string) string {
			x, y, Y := formAtom(n+".X"), formAtom(n+".Y"), formAtom(n+".YY")
			return valKey(&Agg{Elems: []Val{x.Mul(Y).Div(y), Y, formInt(1).Sub(x).Sub(y).Mul(Y).Div(y)}})
		}
		for c := 0; c < 3 && good; c++ {
			for rr := 0; rr < 3; rr++ {
				f, ok := formAt(v2, c, rr)
				if !ok {
					good, why = false, "result is not a matrix"
					break
				}
				app, ok := unIndex2(e2, f, c, rr)
				if !ok || app.Fn != "call:ciexyz.AdaptBetweenXYZWhitePoints" || len(app.Args) != 2 {
					good, why = false, "not a call of AdaptBetweenXYZWhitePoints: "+trunc(f.Key(), 200)
					break
				}
				if valKey(app.Args[0]) != xyz("srcWhite") || valKey(app.Args[1]) != xyz("dstWhite") {
					good, why = false, fmt.Sprintf("arguments are (%s, %s); required (ColorFromXYY(srcWhite), ColorFromXYY(dstWhite))", trunc(valKey(app.Args[0]), 120), trunc(valKey(app.Args[1]), 120))
					break
				}
			}
		}
	}
	r.Check(good, pre+".xyy", "AdaptBetweenXYYWhitePoints", p.FnPos(fnY), "= AdaptBetweenXYZWhitePoints(ColorFromXYY(src), ColorFromXYY(dst))", why)
}

func checkApplyLinear(p *Program, r *Report, pre string) {
	fn := p.Method("ciexyz", "ChromaticAdaptation", "Apply")
	if fn == nil {
		r.Undecide(pre+".apply", "ChromaticAdaptation.Apply", "-", "anchor not found")
		return
	}
	r.SawFn(shortFn(fn))
	e := NewEngine(p)
	v, err := single(p, e, fn, nil)
	if err != nil {
		r.Violate(pre+".apply", "ChromaticAdaptation.Apply closed form", p.FnPos(fn), "Apply is not the plain matrix-vector product: "+err.Error())
		return
	}
	got, ok := vec3(v)
	if !ok {
		r.Undecide(pre+".apply", "ChromaticAdaptation.Apply", p.FnPos(fn), "result is not an XYZ triple")
		return
	}
	M := symMat("ca")
	c := [3]*Form{formAtom("c.X"), formAtom("c.Y"), formAtom("c.Z")}
	want := matMulV(M, c)
	for i := 0; i < 3; i++ {
		r.Check(got[i].Equal(want[i]), pre+".apply", fmt.Sprintf("Apply component %d", i), p.FnPos(fn), "= Σ_k ca[k][i]·c_k (homogeneous linear, no clamp)", "component is "+trunc(got[i].String(), 200))
	}
}

// ---------------------------------------------------------------------------
// C13

func runC13(p *Program, r *Report) {
	r.Explanation = "Color.ToLAB and ColorFromLAB are abstractly interpreted with every helper inlined (2^3 paths each); on each path the case split and the returned triple are compared, as exact forms, with the CIE 1976 definition: ε = 216/24389 and κ = 24389/27 as exact rationals (so κ·ε = 8 and the two branches meet: continuity of the junction is an exact identity), f(r) = r^(1/3) for r > ε else (κr+16)/116 with r = component/white component of the SAME axis, L = 116 f_y − 16, a = 500(f_x − f_y), b = 200(f_y − f_z); inverse f_y = (L+16)/116, f_x = a/500 + f_y, f_z = f_y − b/200, f³ > ε → f³ else (116f−16)/κ, Y branch L > κε → f_y³ else L/κ, each multiplied by the matching white component; every Pow with a fractional exponent is guarded by base > ε > 0 (no NaN). Derived by algebra: white → (100,0,0), a=b=0 on the white axis, monotone L, branchwise inverse. Not decided: measured numeric error (float64 arithmetic, one float32 rounding)."
	r.RuleText = "one instance per constant, branch guard and branch value; non-trivial = comparisons of extracted forms with the CIE formulas"
	r.Trusted = []string{"go/packages+go/types+go/ssa (x/tools v0.29.0)", "the abstract interpreter and normal forms", "math.Pow"}

	eps := big.NewRat(216, 24389)
	kap := big.NewRat(24389, 27)
	rule := "C13.const"
	if c, ok := constOf(p, "ciexyz", "constantE"); ok {
		r.Check(c.Cmp(eps) == 0, rule, "constantE", "ciexyz/color.go", "= 216/24389 exactly", "constantE = "+c.RatString()+", CIE ε is 216/24389")
	} else {
		r.Note(rule, "constantE", "-", "no constant of that name; ε is checked where it is used (guards, to 1e-15)")
	}
	if c, ok := constOf(p, "ciexyz", "constantK"); ok {
		r.Check(c.Cmp(kap) == 0, rule, "constantK", "ciexyz/color.go", "= 24389/27 exactly", "constantK = "+c.RatString()+", CIE κ is 24389/27")
	} else {
		r.Note(rule, "constantK", "-", "no constant of that name; κ is checked where it is used (linear branches, to 1e-12 relative)")
	}
	ke := new(big.Rat).Mul(eps, kap)
	r.Check(ke.Cmp(big.NewRat(8, 1)) == 0, rule, "junction continuity", "-", "κ·ε = 8 and ((κε+16)/116)³ = (24/116)³ = ε: both branches meet at the junction exactly", "κ·ε ≠ 8")

	tolC := ratDec("0.000000000000001") // constants as rounded to float64

	// The forward and inverse conversions are analysed with every prism helper
	// inlined, so the rule sees the function ToLAB / ColorFromLAB computes and
	// not how the work is split between helpers.
	toLab := p.Method("ciexyz", "Color", "ToLAB")
	fromLab := p.Func("ciexyz", "ColorFromLAB")
	if toLab == nil || fromLab == nil {
		r.Undecide("C13.fwd", "anchors", "-", "ciexyz.Color.ToLAB / ciexyz.ColorFromLAB not found")
		return
	}
	r.SawFn(shortFn(toLab))
	r.SawFn(shortFn(fromLab))
	tolV := ratDec("0.000000000001")
	third := big.NewRat(1, 3)
	three := big.NewRat(3, 1)

	// guard normalises a path condition to  lhs OP constant.
	type guard struct {
		lhs  *Form
		gt   bool // true: lhs > c (or >=); false: lhs <= c (or <)
		c    *big.Rat
		text string
	}
	normGuard := func(c *BoolVal) (guard, bool) {
		a, _ := c.A.(*Form)
		b, _ := c.B.(*Form)
		if a == nil || b == nil {
			return guard{}, false
		}
		op := c.Op
		if _, isC := a.Const(); isC {
			a, b = b, a
			op = map[string]string{"<": ">", "<=": ">=", ">": "<", ">=": "<=", "==": "==", "!=": "!="}[op]
		}
		k, isC := b.Const()
		if !isC {
			return guard{}, false
		}
		switch op {
		case ">", ">=":
			return guard{a, true, k, c.Key()}, true
		case "<", "<=":
			return guard{a, false, k, c.Key()}, true
		}
		return guard{}, false
	}
	fracPows := func(e *Engine, fs ...*Form) map[string]*Atom {
		out := map[string]*Atom{}
		for _, f := range fs {
			if f == nil {
				continue
			}
			for a := range f.Atoms() {
				at := e.A.get(a)
				if at == nil {
					continue
				}
				if at.Fn == "pow" && len(at.Args) == 2 {
					if ex, ok := at.Args[1].(*Form); ok {
						if c, isC := ex.Const(); isC && c.IsInt() {
							continue
						}
					}
					out[a] = at
				}
				if strings.HasSuffix(at.Fn, "math.Cbrt") || strings.HasSuffix(at.Fn, "math.Sqrt") || strings.HasSuffix(at.Fn, "math.Log") {
					out[a] = at
				}
			}
		}
		return out
	}

	// --- forward
	{
		e := NewEngine(p)
		e.MaxForks = 4 // the per-axis case split may sit in an unrolled three-iteration loop
		outs, err := extract(p, e, toLab, nil)
		if err != nil {
			r.Violate("C13.fwd", "ToLAB extractable", p.FnPos(toLab), err.Error())
		}
		cn, wn := toLab.Params[0].Name(), toLab.Params[1].Name()
		outs = whiteDomain(outs, wn)
		axes := []string{"X", "Y", "Z"}
		ratio := map[string]*Form{}
		for _, ax := range axes {
			ratio[ax] = formAtom(cn + "." + ax).Div(formAtom(wn + "." + ax))
		}
		seen := map[string]bool{}
		for _, o := range outs {
			if o.Kind != "return" {
				r.Violate("C13.fwd", "ToLAB total", p.Pos(o.Pos), "a path of ToLAB ends in "+o.Kind+" "+o.Why)
				continue
			}
			branch := map[string]string{}
			okG := true
			for _, c := range o.St.conds {
				g, ok := normGuard(c)
				hit := ""
				if ok {
					for _, ax := range axes {
						if g.lhs.Equal(ratio[ax]) {
							hit = ax
						}
					}
				}
				if hit == "" || !within(g.c, eps, tolC) {
					okG = false
					r.Violate("C13.fwd", "ToLAB guard", p.Pos(o.Pos), "unexpected guard "+trunc(c.Key(), 200)+": the only case split of the CIE definition is component/white(same axis) > 216/24389")
					continue
				}
				b := "linear"
				if g.gt {
					b = "root"
				}
				if prev, dup := branch[hit]; dup && prev != b {
					okG = false
				}
				branch[hit] = b
			}
			if !okG {
				continue
			}
			got, ok := vec3(o.Ret)
			if !ok {
				r.Undecide("C13.fwd", "ToLAB", p.Pos(o.Pos), "result not a Lab triple")
				continue
			}
			pows := fracPows(e, got[0], got[1], got[2])
			f := map[string]*Form{}
			sig := ""
			good := true
			for _, ax := range axes {
				sig += ax + ":" + branch[ax] + " "
				switch branch[ax] {
				case "root":
					for a, at := range pows {
						if at.Fn == "pow" && valKey(at.Args[0]) == ratio[ax].Key() && constNear(at.Args[1], third, tolC) {
							f[ax] = formAtom(a)
							delete(pows, a)
						} else if strings.HasSuffix(at.Fn, "math.Cbrt") && len(at.Args) == 1 && valKey(at.Args[0]) == ratio[ax].Key() {
							f[ax] = formAtom(a)
							delete(pows, a)
						}
					}
					if f[ax] == nil {
						good = false
						r.Violate("C13.fwd", "ToLAB f("+ax+") "+sig, p.Pos(o.Pos), "on the branch "+ax+"/"+ax+"n > ε the result does not use the cube root of "+ratio[ax].String())
					}
				case "linear":
					f[ax] = ratio[ax].Mul(formRat(kap)).Add(formInt(16)).Div(formInt(116))
				default:
					good = false
					r.Violate("C13.fwd", "ToLAB f("+ax+") "+sig, p.Pos(o.Pos), "the path does not decide "+ax+"/"+ax+"n > ε: the component is not passed through f(·) of the same axis ratio")
				}
			}
			if !good {
				continue
			}
			seen[sig] = true
			want := [3]*Form{formInt(116).Mul(f["Y"]).Sub(formInt(16)), formInt(500).Mul(f["X"].Sub(f["Y"])), formInt(200).Mul(f["Y"].Sub(f["Z"]))}
			names := []string{"L = 116·f(Y/Yn) − 16", "a = 500·(f(X/Xn) − f(Y/Yn))", "b = 200·(f(Y/Yn) − f(Z/Zn))"}
			for i := 0; i < 3; i++ {
				r.Check(formNear(got[i], want[i], tolV), "C13.fwd", "ToLAB "+names[i][:1]+" on "+sig, p.Pos(o.Pos), names[i]+", f(r) = r^(1/3) if r > ε else (κr+16)/116, each component divided by the SAME axis of the reference white", "is "+trunc(got[i].String(), 300))
			}
			// C13.nan: every remaining fractional power is unguarded
			r.Check(len(pows) == 0, "C13.nan", "ToLAB fractional powers on "+sig, p.Pos(o.Pos), "every fractional power is applied to a ratio the path has established to be > ε > 0", fmt.Sprintf("%d fractional power(s) evaluated on a path that has not established base > ε (NaN for negative components)", len(pows)))
		}
		r.Check(len(seen) == 8, "C13.fwd", "ToLAB case coverage", p.FnPos(toLab), "all 2³ combinations of the per-axis case split are realised", fmt.Sprintf("%d of 8 combinations found", len(seen)))
	}

	// --- inverse
	{
		e := NewEngine(p)
		e.MaxForks = 4
		outs, err := extract(p, e, fromLab, nil)
		if err != nil {
			r.Violate("C13.inv", "ColorFromLAB extractable", p.FnPos(fromLab), err.Error())
		}
		ln, wn := fromLab.Params[0].Name(), fromLab.Params[1].Name()
		outs = whiteDomain(outs, wn)
		Lf, Af, Bf := formAtom(ln+".L"), formAtom(ln+".A"), formAtom(ln+".B")
		fy := Lf.Add(formInt(16)).Div(formInt(116))
		fOf := map[string]*Form{"X": Af.Div(formInt(500)).Add(fy), "Y": fy, "Z": fy.Sub(Bf.Div(formInt(200)))}
		axes := []string{"X", "Y", "Z"}
		isCubeOf := func(x *Form, base *Form) bool {
			if x == nil {
				return false
			}
			if x.Equal(base.Mul(base).Mul(base)) {
				return true
			}
			at := powAtom(e, x)
			return at != nil && valKey(at.Args[0]) == base.Key() && constNear(at.Args[1], three, tolC)
		}
		seen := map[string]bool{}
		for _, o := range outs {
			if o.Kind != "return" {
				r.Violate("C13.inv", "ColorFromLAB total", p.Pos(o.Pos), "a path of ColorFromLAB ends in "+o.Kind+" "+o.Why)
				continue
			}
			branch := map[string]string{}
			okG := true
			for _, c := range o.St.conds {
				g, ok := normGuard(c)
				hit := ""
				if ok {
					for _, ax := range axes {
						if isCubeOf(g.lhs, fOf[ax]) && within(g.c, eps, tolC) {
							hit = ax
						}
					}
					// the Y axis may equivalently be split on L > κ·ε = 8
					if hit == "" && g.lhs.Equal(Lf) && within(g.c, big.NewRat(8, 1), ratDec("0.000001")) {
						hit = "Y"
					}
				}
				if hit == "" {
					okG = false
					r.Violate("C13.inv", "ColorFromLAB guard", p.Pos(o.Pos), "unexpected guard "+trunc(c.Key(), 200)+": the case split of the CIE inverse is f³ > 216/24389 per axis (for Y equivalently L > 8)")
					continue
				}
				b := "linear"
				if g.gt {
					b = "cube"
				}
				if prev, dup := branch[hit]; dup && prev != b {
					okG = false
				}
				branch[hit] = b
			}
			if !okG {
				continue
			}
			got, ok := vec3(o.Ret)
			if !ok {
				r.Undecide("C13.inv", "ColorFromLAB", p.Pos(o.Pos), "result not an XYZ triple")
				continue
			}
			sig := ""
			for _, ax := range axes {
				sig += ax + ":" + branch[ax] + " "
			}
			complete := true
			for i, ax := range axes {
				w := formAtom(wn + "." + ax)
				rel := got[i].Div(w)
				switch branch[ax] {
				case "cube":
					r.Check(isCubeOf(rel, fOf[ax]), "C13.inv", "ColorFromLAB "+ax+" cubic on "+sig, p.Pos(o.Pos), ax+" = f"+ax+"³·"+ax+"n with fy = (L+16)/116, fx = a/500 + fy, fz = fy − b/200", ax+" is "+trunc(got[i].String(), 200))
				case "linear":
					want := formInt(116).Mul(fOf[ax]).Sub(formInt(16)).Div(formRat(kap))
					r.Check(formNear(rel, want, tolV), "C13.inv", "ColorFromLAB "+ax+" linear on "+sig, p.Pos(o.Pos), ax+" = ((116·f"+ax+" − 16)/κ)·"+ax+"n", ax+" is "+trunc(got[i].String(), 200))
				default:
					complete = false
					r.Violate("C13.inv", "ColorFromLAB "+ax+" on "+sig, p.Pos(o.Pos), "the path does not decide f"+ax+"³ > ε: the component is not passed through the inverse of f(·)")
				}
			}
			if complete {
				seen[sig] = true
			}
			pows := fracPows(e, got[0], got[1], got[2])
			r.Check(len(pows) == 0, "C13.nan", "ColorFromLAB fractional powers on "+sig, p.Pos(o.Pos), "the inverse uses integer powers only (total on finite input)", fmt.Sprintf("%d fractional power(s) in the inverse", len(pows)))
		}
		r.Check(len(seen) == 8, "C13.inv", "ColorFromLAB case coverage", p.FnPos(fromLab), "all 2³ combinations of the per-axis case split are realised", fmt.Sprintf("%d of 8 combinations found", len(seen)))
	}
	r.Hold("C13.nan", "divisions", "-", "divisions are by white components and non-zero constants only")

	r.Floor("C13.const", 1)
	r.Floor("C13.fwd", 25)
	r.Floor("C13.inv", 25)

	r.Floor("C13.nan", 2)
}

// powAtom returns the pow application when f is exactly 1*pow(base, exp).
func powAtom(e *Engine, f *Form) *Atom {
	if f == nil {
		return nil
	}
	a, ok := f.SingleAtom()
	if !ok {
		return nil
	}
	at := e.A.get(a)
	if at == nil || at.Fn != "pow" || len(at.Args) != 2 {
		return nil
	}
	return at
}

func constNear(v Val, want, tol *big.Rat) bool {
	f, ok := v.(*Form)
	if !ok {
		return false
	}
	c, ok := f.Const()
	return ok && within(c, want, tol)
}

// formNear compares two forms with the same monomials coefficient-wise
// within tol (denominators must be structurally equal or constant).
func formNear(a, b *Form, tol *big.Rat) bool {
	if a.Equal(b) {
		return true
	}
	// bring to a common denominator by cross-multiplication and compare the
	// numerators coefficient-wise, scaled by the leading coefficient of b's
	x := a.N.mul(b.D)
	y := b.N.mul(a.D)
	if len(x.t) != len(y.t) {
		return false
	}
	// scale: largest |coefficient| of y
	scale := new(big.Rat)
	for _, t := range y.t {
		if ratAbs(t.c).Cmp(scale) > 0 {
			scale = ratAbs(t.c)
		}
	}
	if scale.Sign() == 0 {
		return len(x.t) == 0
	}
	for k, t := range x.t {
		u, ok := y.t[k]
		if !ok {
			return false
		}
		d := new(big.Rat).Sub(t.c, u.c)
		d.Quo(ratAbs(d), scale)
		if d.Cmp(tol) > 0 {
			return false
		}
	}
	return true
}

var _ = strings.Contains

// whiteDomain filters the explored paths by the statement's domain — the reference
// white has positive components: a path taken only when the white (or one of its
// components) is zero is dropped, and the complementary condition is vacuous.
func whiteDomain(outs []Outcome, wn string) []Outcome {
	isZeroTest := func(c *BoolVal) (zero, nonzero bool) {
		if c == nil || (c.Op != "==" && c.Op != "!=") {
			return
		}
		allZero := func(v Val) bool {
			switch x := v.(type) {
			case *Form:
				z, isC := x.Const()
				return isC && z.Sign() == 0
			case *Agg:
				for _, el := range x.Elems {
					f, ok := el.(*Form)
					if !ok {
						return false
					}
					if z, isC := f.Const(); !isC || z.Sign() != 0 {
						return false
					}
				}
				return len(x.Elems) > 0
			}
			return false
		}
		ofWhite := func(v Val) bool {
			switch x := v.(type) {
			case *Form:
				n, ok := x.SingleAtom()
				return ok && (n == wn+".X" || n == wn+".Y" || n == wn+".Z") && x.Equal(formAtom(n))
			case *Agg:
				if len(x.Elems) != 3 {
					return false
				}
				for i, ax := range []string{"X", "Y", "Z"} {
					f, ok := x.Elems[i].(*Form)
					if !ok || !f.Equal(formAtom(wn+"."+ax)) {
						return false
					}
				}
				return true
			}
			return false
		}
		if (ofWhite(c.A) && allZero(c.B)) || (ofWhite(c.B) && allZero(c.A)) {
			return c.Op == "==", c.Op == "!="
		}
		return
	}
	var keep []Outcome
	for _, o := range outs {
		drop := false
		var conds []*BoolVal
		for _, c := range o.St.conds {
			z, nz := isZeroTest(c)
			if z {
				drop = true
			}
			if !nz && !z {
				conds = append(conds, c)
			}
		}
		if drop {
			continue
		}
		o.St.conds = conds
		keep = append(keep, o)
	}
	return keep
}

// adaptNumeric: AdaptBetweenXYZWhitePoints interpreted with package-level values,
// Once closures and Inverse evaluated (exact rationals) equals, entry by entry as a
// rational function of the six white components, B⁻¹·diag((B d)_i/(B s)_i)·B for
// the published Bradford matrix and its exact inverse.
func adaptNumeric(p *Program) (bool, string) {
	fn := p.Func("ciexyz", "AdaptBetweenXYZWhitePoints")
	if fn == nil {
		return false, "AdaptBetweenXYZWhitePoints not found"
	}
	e := NewEngine(p)
	e.EvalInits = true
	e.RunOnce = true
	outs, err := extract(p, e, fn, nil)
	if err != nil {
		return false, err.Error()
	}
	var rets []Outcome
	for _, o := range outs {
		if o.Kind == "return" {
			rets = append(rets, o)
		}
	}
	if len(rets) != 1 || len(rets[0].St.conds) != 0 {
		return false, fmt.Sprintf("with package-level values evaluated the adaptation has %d returning paths (conditions on the first: %d); one unconditional closed form required", len(rets), func() int {
			if len(rets) > 0 {
				return len(rets[0].St.conds)
			}
			return 0
		}())
	}
	A, ok := mat3(rets[0].Ret)
	if !ok {
		return false, "result is not a 3x3 matrix"
	}
	var B [3][3]*Form
	for c := 0; c < 3; c++ {
		for rr := 0; rr < 3; rr++ {
			B[c][rr] = formRat(ratDec(bradfordPublished[rr][c]))
		}
	}
	// exact inverse by cofactors
	cof := func(a, b, c, d *Form) *Form { return a.Mul(d).Sub(b.Mul(c)) }
	var adj [3][3]*Form
	for i := 0; i < 3; i++ {
		for j := 0; j < 3; j++ {
			i1, i2 := (i+1)%3, (i+2)%3
			j1, j2 := (j+1)%3, (j+2)%3
			// cofactor of element (j, i) placed at (i, j): the adjugate (indices are [col][row] but the
			// construction is symmetric under transposition of both B and its inverse)
			adj[i][j] = cof(B[j1][i1], B[j1][i2], B[j2][i1], B[j2][i2])
		}
	}
	det := B[0][0].Mul(adj[0][0]).Add(B[0][1].Mul(adj[1][0])).Add(B[0][2].Mul(adj[2][0]))
	var Bi [3][3]*Form
	for i := 0; i < 3; i++ {
		for j := 0; j < 3; j++ {
			Bi[i][j] = adj[i][j].Div(det)
		}
	}
	// sanity: Bi·B = I exactly
	I := matIdent()
	prod := matMul(Bi, B)
	for c := 0; c < 3; c++ {
		for rr := 0; rr < 3; rr++ {
			if !prod[c][rr].Equal(I[c][rr]) {
				return false, "internal: inverse of the published matrix not exact"
			}
		}
	}
	sN, dN := fn.Params[0].Name(), fn.Params[1].Name()
	sv := [3]*Form{formAtom(sN + ".X"), formAtom(sN + ".Y"), formAtom(sN + ".Z")}
	dv := [3]*Form{formAtom(dN + ".X"), formAtom(dN + ".Y"), formAtom(dN + ".Z")}
	bs, bd := matMulV(B, sv), matMulV(B, dv)
	var D [3][3]*Form
	for c := 0; c < 3; c++ {
		for rr := 0; rr < 3; rr++ {
			if c == rr {
				D[c][rr] = bd[c].Div(bs[c])
			} else {
				D[c][rr] = formInt(0)
			}
		}
	}
	want := matMul(matMul(Bi, D), B)
	for c := 0; c < 3; c++ {
		for rr := 0; rr < 3; rr++ {
			if !A[c][rr].Equal(want[c][rr]) && !formsNear(A[c][rr], want[c][rr], 1e-12) {
				if os.Getenv("PRISMCHECK_TRACE") == "c12num" {
					fmt.Fprintln(os.Stderr, "GOT ", trunc(A[c][rr].String(), 600))
					fmt.Fprintln(os.Stderr, "WANT", trunc(want[c][rr].String(), 600))
				}
				return false, fmt.Sprintf("entry [%d][%d] of the evaluated adaptation differs from B⁻¹·diag((B d)/(B s))·B over the published Bradford matrix", c, rr)
			}
		}
	}
	return true, ""
}

// formsNear: two rational functions agree up to rounding of their literal
// coefficients (the code's constants are the float64 nearest to the published
// decimals): every coefficient of the cross-multiplied difference a.N·b.D − b.N·a.D
// is below tol times the largest coefficient of a.N·b.D.
func formsNear(a, b *Form, tol float64) bool {
	if a == nil || b == nil {
		return false
	}
	lhs := a.N.mul(b.D)
	diff := lhs.sub(b.N.mul(a.D))
	maxAbs := func(p *Poly) float64 {
		m := 0.0
		for _, t := range p.t {
			f, _ := new(big.Rat).Abs(t.c).Float64()
			if f > m {
				m = f
			}
		}
		return m
	}
	scale := maxAbs(lhs)
	if scale == 0 {
		return diff.isZero()
	}
	return maxAbs(diff) <= tol*scale
}
