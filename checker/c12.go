package main

import (
	"fmt"
	"math/big"
	"strings"

	"golang.org/x/tools/go/ssa"
)

// C12 — chromatic adaptation maps white to white and composes.
// C13 — CIE Lab conversion matches the CIE definition and round-trips.

func init() {
	register(&PropertyCheck{ID: "C12", Level: "other", Run: runC12})
	register(&PropertyCheck{ID: "C13", Level: "other", Run: runC13})
}

// published Bradford matrix, row-major (Lam 1985 / ICC.1 Annex E)
var bradfordPublished = [3][3]string{
	{"0.8951", "0.2664", "-0.1614"},
	{"-0.7502", "1.7135", "0.0367"},
	{"0.0389", "-0.0685", "1.0296"},
}

func runC12(p *Program, r *Report) {
	r.Explanation = "Engine S extracts the chromatic adaptation code as exact rational-function forms: the nine Bradford literals equal the published matrix in the package's column-vector convention; bradfordInverse is Inverse(bradfordForward); AdaptBetweenXYZWhitePoints(s,d) is, as an identity of rational functions in the six white-point components and the symbolic entries of B and B^-1, exactly B^-1·diag((B d)_i/(B s)_i)·B with no guard or clamp; the xyY variant is the XYZ variant on ColorFromXYY of its arguments in order; Apply is the homogeneous linear map M·c. From these, white→white, identity, inverse, composition and linearity follow by algebra for any invertible B (matrix algebra itself is C20). Not decided: float rounding (a-priori: float64 until the final float32 conversion) and conditioning near zero cone responses."
	r.RuleText = "one instance per constant / identity / wiring clause; non-trivial = identities over symbolic white points and matrices"
	r.Trusted = []string{"go/packages+go/types+go/ssa (x/tools v0.29.0)", "the abstract interpreter and polynomial normal forms"}
	checkBradfordConstants(p, r, "C12")
	checkAdaptForm(p, r, "C12")
	checkApplyLinear(p, r, "C12")
	r.Floor("C12.const", 10)
	r.Floor("C12.form", 9)
	r.Floor("C12.xyy", 1)
	r.Floor("C12.apply", 3)
}

func checkBradfordConstants(p *Program, r *Report, pre string) {
	rule := pre + ".const"
	e := NewEngine(p)
	inv := p.Method("matrix", "Matrix3", "Inverse")
	e.Opaque = opaqueSet(inv)
	v, err := globalValue(p, e, "ciexyz", "bradfordForward")
	g := p.Global("ciexyz", "bradfordForward")
	pos := "-"
	if g != nil {
		pos = p.Pos(g.Pos())
	}
	if err != nil {
		r.Undecide(rule, "bradfordForward", pos, err.Error())
		return
	}
	m, ok := mat3(v)
	if !ok {
		r.Undecide(rule, "bradfordForward", pos, "initialiser is not a literal 3x3 matrix: "+trunc(valKey(v), 200))
		return
	}
	tol := ratDec("0.000000000001")
	for c := 0; c < 3; c++ {
		for rr := 0; rr < 3; rr++ {
			want := ratDec(bradfordPublished[rr][c])
			got, isC := m[c][rr].Const()
			r.Check(isC && within(got, want, tol), rule, fmt.Sprintf("bradfordForward[%d][%d]", c, rr), pos,
				fmt.Sprintf("= %s (published Bradford row %d, column %d)", bradfordPublished[rr][c], rr, c),
				fmt.Sprintf("entry [col %d][row %d] is %s, the published Bradford value is %s", c, rr, m[c][rr].String(), bradfordPublished[rr][c]))
		}
	}
	// bradfordInverse = bradfordForward.Inverse()
	vi, err := globalValue(p, e, "ciexyz", "bradfordInverse")
	gi := p.Global("ciexyz", "bradfordInverse")
	posi := "-"
	if gi != nil {
		posi = p.Pos(gi.Pos())
	}
	if err != nil {
		r.Undecide(rule, "bradfordInverse", posi, err.Error())
		return
	}
	good, why := true, ""
	mi, ok := mat3(vi)
	if !ok {
		good, why = false, "bradfordInverse is not a 3x3 matrix of numbers"
	} else {
		prod := matMul(mi, m)
		I := matIdent()
		for c := 0; c < 3 && good; c++ {
			for rr := 0; rr < 3; rr++ {
				pv, isC := prod[c][rr].Const()
				iv, _ := I[c][rr].Const()
				if !isC || !within(pv, iv, tol) {
					good, why = false, fmt.Sprintf("bradfordInverse·bradfordForward [%d][%d] = %s, not the identity: the inverse table is not the inverse of the forward matrix", c, rr, prod[c][rr].String())
					break
				}
			}
		}
	}
	r.Check(good, rule, "bradfordInverse", posi, "bradfordInverse·bradfordForward = I (evaluated in exact rational arithmetic from the initialisers; today it is bradfordForward.Inverse())", why)
}

func checkAdaptForm(p *Program, r *Report, pre string) {
	fn := p.Func("ciexyz", "AdaptBetweenXYZWhitePoints")
	fnY := p.Func("ciexyz", "AdaptBetweenXYYWhitePoints")
	cfx := p.Func("ciexyz", "ColorFromXYY")
	if fn == nil || fnY == nil || cfx == nil {
		r.Undecide(pre+".form", "AdaptBetweenXYZWhitePoints", "-", "anchor not found")
		return
	}
	r.SawFn(shortFn(fn))
	r.SawFn(shortFn(fnY))
	// symbolic B and B^-1: package variables are left symbolic (EvalInits off)
	e := NewEngine(p)
	v, err := single(p, e, fn, nil)
	if err != nil {
		r.Violate(pre+".form", "AdaptBetweenXYZWhitePoints closed form", p.FnPos(fn), err.Error())
		return
	}
	A, ok := mat3(v)
	if !ok {
		r.Undecide(pre+".form", "AdaptBetweenXYZWhitePoints", p.FnPos(fn), "result is not a 3x3 matrix")
		return
	}
	B, Bi := symMat("ciexyz.bradfordForward"), symMat("ciexyz.bradfordInverse")
	s := [3]*Form{formAtom("srcWhite.X"), formAtom("srcWhite.Y"), formAtom("srcWhite.Z")}
	d := [3]*Form{formAtom("dstWhite.X"), formAtom("dstWhite.Y"), formAtom("dstWhite.Z")}
	bs, bd := matMulV(B, s), matMulV(B, d)
	var D [3][3]*Form
	for c := 0; c < 3; c++ {
		for rr := 0; rr < 3; rr++ {
			if c == rr {
				D[c][rr] = bd[c].Div(bs[c])
			} else {
				D[c][rr] = formInt(0)
			}
		}
	}
	want := matMul(matMul(Bi, D), B)
	for c := 0; c < 3; c++ {
		for rr := 0; rr < 3; rr++ {
			r.Check(A[c][rr].Equal(want[c][rr]), pre+".form", fmt.Sprintf("Adapt[%d][%d]", c, rr), p.FnPos(fn),
				"= (B⁻¹·diag((B d)_i/(B s)_i)·B)[c][r] as a rational function of s, d, B, B⁻¹",
				"entry differs from the von Kries/Bradford construction B⁻¹·diag((B·dst)_i/(B·src)_i)·B: "+trunc(A[c][rr].String(), 300))
		}
	}

	// xyY variant = XYZ variant ∘ ColorFromXYY, arguments in order
	e2 := NewEngine(p)
	e2.Opaque = opaqueSet(fn)
	v2, err := single(p, e2, fnY, nil)
	good, why := err == nil, ""
	if err != nil {
		why = err.Error()
	} else {
		xyz := func(n string) string {
			x, y, Y := formAtom(n+".X"), formAtom(n+".Y"), formAtom(n+".YY")
			return valKey(&Agg{Elems: []Val{x.Mul(Y).Div(y), Y, formInt(1).Sub(x).Sub(y).Mul(Y).Div(y)}})
		}
		for c := 0; c < 3 && good; c++ {
			for rr := 0; rr < 3; rr++ {
				f, ok := formAt(v2, c, rr)
				if !ok {
					good, why = false, "result is not a matrix"
					break
				}
				app, ok := unIndex2(e2, f, c, rr)
				if !ok || app.Fn != "call:ciexyz.AdaptBetweenXYZWhitePoints" || len(app.Args) != 2 {
					good, why = false, "not a call of AdaptBetweenXYZWhitePoints: "+trunc(f.Key(), 200)
					break
				}
				if valKey(app.Args[0]) != xyz("srcWhite") || valKey(app.Args[1]) != xyz("dstWhite") {
					good, why = false, fmt.Sprintf("arguments are (%s, %s); required (ColorFromXYY(srcWhite), ColorFromXYY(dstWhite))", trunc(valKey(app.Args[0]), 120), trunc(valKey(app.Args[1]), 120))
					break
				}
			}
		}
	}
	r.Check(good, pre+".xyy", "AdaptBetweenXYYWhitePoints", p.FnPos(fnY), "= AdaptBetweenXYZWhitePoints(ColorFromXYY(src), ColorFromXYY(dst))", why)
}

func checkApplyLinear(p *Program, r *Report, pre string) {
	fn := p.Method("ciexyz", "ChromaticAdaptation", "Apply")
	if fn == nil {
		r.Undecide(pre+".apply", "ChromaticAdaptation.Apply", "-", "anchor not found")
		return
	}
	r.SawFn(shortFn(fn))
	e := NewEngine(p)
	v, err := single(p, e, fn, nil)
	if err != nil {
		r.Violate(pre+".apply", "ChromaticAdaptation.Apply closed form", p.FnPos(fn), "Apply is not the plain matrix-vector product: "+err.Error())
		return
	}
	got, ok := vec3(v)
	if !ok {
		r.Undecide(pre+".apply", "ChromaticAdaptation.Apply", p.FnPos(fn), "result is not an XYZ triple")
		return
	}
	M := symMat("ca")
	c := [3]*Form{formAtom("c.X"), formAtom("c.Y"), formAtom("c.Z")}
	want := matMulV(M, c)
	for i := 0; i < 3; i++ {
		r.Check(got[i].Equal(want[i]), pre+".apply", fmt.Sprintf("Apply component %d", i), p.FnPos(fn), "= Σ_k ca[k][i]·c_k (homogeneous linear, no clamp)", "component is "+trunc(got[i].String(), 200))
	}
}

// ---------------------------------------------------------------------------
// C13

func runC13(p *Program, r *Report) {
	r.Explanation = "Engine S extracts componentToLAB, componentFromLAB, Color.ToLAB and ColorFromLAB as piecewise exact forms and compares them with the CIE 1976 definition: ε = 216/24389 and κ = 24389/27 as exact rationals (so κ·ε = 8 and the two branches meet: continuity of the junction is an exact identity), f(r) = r^(1/3) for r > ε else (κr+16)/116 with r = component/white component of the SAME axis, L = 116 f_y − 16, a = 500(f_x − f_y), b = 200(f_y − f_z); inverse f_y = (L+16)/116, f_x = a/500 + f_y, f_z = f_y − b/200, f³ > ε → f³ else (116f−16)/κ, Y branch L > κε → f_y³ else L/κ, each multiplied by the matching white component; every Pow with a fractional exponent is guarded by base > ε > 0 (no NaN). Derived by algebra: white → (100,0,0), a=b=0 on the white axis, monotone L, branchwise inverse. Not decided: measured numeric error (float64 arithmetic, one float32 rounding)."
	r.RuleText = "one instance per constant, branch guard and branch value; non-trivial = comparisons of extracted forms with the CIE formulas"
	r.Trusted = []string{"go/packages+go/types+go/ssa (x/tools v0.29.0)", "the abstract interpreter and normal forms", "math.Pow"}

	eps := big.NewRat(216, 24389)
	kap := big.NewRat(24389, 27)
	rule := "C13.const"
	if c, ok := constOf(p, "ciexyz", "constantE"); ok {
		r.Check(c.Cmp(eps) == 0, rule, "constantE", "ciexyz/color.go", "= 216/24389 exactly", "constantE = "+c.RatString()+", CIE ε is 216/24389")
	} else {
		r.Undecide(rule, "constantE", "-", "constant not found")
	}
	if c, ok := constOf(p, "ciexyz", "constantK"); ok {
		r.Check(c.Cmp(kap) == 0, rule, "constantK", "ciexyz/color.go", "= 24389/27 exactly", "constantK = "+c.RatString()+", CIE κ is 24389/27")
	} else {
		r.Undecide(rule, "constantK", "-", "constant not found")
	}
	ke := new(big.Rat).Mul(eps, kap)
	r.Check(ke.Cmp(big.NewRat(8, 1)) == 0, rule, "junction continuity", "-", "κ·ε = 8 and ((κε+16)/116)³ = (24/116)³ = ε: both branches meet at the junction exactly", "κ·ε ≠ 8")

	tolC := ratDec("0.000000000000001") // constants as rounded to float64
	epsF := func(f *Form) bool { c, ok := f.Const(); return ok && within(c, eps, tolC) }

	// --- componentToLAB
	ctl := p.Func("ciexyz", "componentToLAB")
	cfl := p.Func("ciexyz", "componentFromLAB")
	toLab := p.Method("ciexyz", "Color", "ToLAB")
	fromLab := p.Func("ciexyz", "ColorFromLAB")
	if ctl == nil || cfl == nil || toLab == nil || fromLab == nil {
		r.Undecide("C13.fwd", "anchors", "-", "componentToLAB/componentFromLAB/ToLAB/ColorFromLAB not found")
		return
	}
	for _, f := range []*ssa.Function{ctl, cfl, toLab, fromLab} {
		r.SawFn(shortFn(f))
	}
	e := NewEngine(p)
	outs, err := extract(p, e, ctl, nil)
	if err != nil || len(outs) != 2 {
		r.Violate("C13.fwd", "componentToLAB shape", p.FnPos(ctl), fmt.Sprintf("expected two branches (cube root / linear), got %d: %v", len(outs), err))
	} else {
		v, w := formAtom(ctl.Params[0].Name()), formAtom(ctl.Params[1].Name())
		ratio := v.Div(w)
		third := big.NewRat(1, 3)
		for _, o := range outs {
			if len(o.St.conds) != 1 {
				r.Violate("C13.fwd", "componentToLAB guard", p.Pos(o.Pos), "branch has more than one guard")
				continue
			}
			c := o.St.conds[0]
			a, _ := c.A.(*Form)
			b, _ := c.B.(*Form)
			gOK := a != nil && b != nil && a.Equal(ratio) && epsF(b)
			val, _ := o.Ret.(*Form)
			switch c.Op {
			case ">":
				r.Check(gOK, "C13.fwd", "componentToLAB guard r>ε", p.Pos(o.Pos), "cube-root branch taken iff v/w > 216/24389", "guard is "+trunc(c.Key(), 200))
				at := powAtom(e, val)
				pOK := at != nil && valKey(at.Args[0]) == ratio.Key() && constNear(at.Args[1], third, tolC)
				r.Check(pOK, "C13.fwd", "componentToLAB cube root", p.Pos(o.Pos), "= Pow(v/w, 1/3)", "value is "+trunc(valKey(o.Ret), 200))
				// C13.nan: fractional power guarded by base > positive constant
				r.Check(gOK && pOK, "C13.nan", "componentToLAB Pow guarded", p.Pos(o.Pos), "Pow(r, 1/3) only evaluated for r > ε > 0", "fractional power not guarded by a positive lower bound on its base")
			case "<=":
				r.Check(gOK, "C13.fwd", "componentToLAB guard r<=ε", p.Pos(o.Pos), "linear branch taken iff v/w <= 216/24389", "guard is "+trunc(c.Key(), 200))
				want := ratio.Mul(formRat(kap)).Add(formInt(16)).Div(formInt(116))
				r.Check(val != nil && formNear(val, want, ratDec("0.000000000001")), "C13.fwd", "componentToLAB linear", p.Pos(o.Pos), "= (κ·v/w + 16)/116", "value is "+trunc(valKey(o.Ret), 200))
			default:
				r.Violate("C13.fwd", "componentToLAB guard", p.Pos(o.Pos), "unexpected guard "+trunc(c.Key(), 200))
			}
		}
	}

	// --- ToLAB with the component function opaque
	e = NewEngine(p)
	e.Opaque = opaqueSet(ctl)
	if v, err := single(p, e, toLab, nil); err != nil {
		r.Violate("C13.fwd", "ToLAB closed form", p.FnPos(toLab), err.Error())
	} else {
		f := func(axis string) *Form {
			return e.A.App("call:ciexyz.componentToLAB", nil, formAtom("c."+axis), formAtom("whitePoint."+axis))
		}
		fx, fy, fz := f("X"), f("Y"), f("Z")
		want := [3]*Form{formInt(116).Mul(fy).Sub(formInt(16)), formInt(500).Mul(fx.Sub(fy)), formInt(200).Mul(fy.Sub(fz))}
		names := []string{"L = 116·f(Y/Yn) − 16", "a = 500·(f(X/Xn) − f(Y/Yn))", "b = 200·(f(Y/Yn) − f(Z/Zn))"}
		got, ok := vec3(v)
		for i := 0; i < 3 && ok; i++ {
			r.Check(got[i].Equal(want[i]), "C13.fwd", "ToLAB "+names[i][:1], p.FnPos(toLab), names[i]+" with each component divided by the SAME axis of the reference white", "is "+trunc(got[i].String(), 300))
		}
		if !ok {
			r.Undecide("C13.fwd", "ToLAB", p.FnPos(toLab), "result not a Lab triple")
		}
	}

	// --- componentFromLAB
	e = NewEngine(p)
	outs, err = extract(p, e, cfl, nil)
	if err != nil || len(outs) != 2 {
		r.Violate("C13.inv", "componentFromLAB shape", p.FnPos(cfl), fmt.Sprintf("expected two branches, got %d: %v", len(outs), err))
	} else {
		f := formAtom(cfl.Params[0].Name())
		three := big.NewRat(3, 1)
		for _, o := range outs {
			if len(o.St.conds) != 1 {
				r.Violate("C13.inv", "componentFromLAB guard", p.Pos(o.Pos), "branch has more than one guard")
				continue
			}
			c := o.St.conds[0]
			a, _ := c.A.(*Form)
			b, _ := c.B.(*Form)
			isCube := func(x *Form) bool {
				if x == nil {
					return false
				}
				if x.Equal(f.Mul(f).Mul(f)) {
					return true
				}
				at := powAtom(e, x)
				return at != nil && valKey(at.Args[0]) == f.Key() && constNear(at.Args[1], three, tolC)
			}
			gOK := isCube(a) && b != nil && epsF(b)
			val, _ := o.Ret.(*Form)
			switch c.Op {
			case ">":
				r.Check(gOK, "C13.inv", "componentFromLAB guard f³>ε", p.Pos(o.Pos), "cubic branch taken iff f³ > 216/24389", "guard is "+trunc(c.Key(), 200)+" (must compare f³, not f, with ε)")
				r.Check(isCube(val), "C13.inv", "componentFromLAB cube", p.Pos(o.Pos), "= f³", "value is "+trunc(valKey(o.Ret), 200))
			case "<=":
				r.Check(gOK, "C13.inv", "componentFromLAB guard f³<=ε", p.Pos(o.Pos), "linear branch taken iff f³ <= 216/24389", "guard is "+trunc(c.Key(), 200))
				want := formInt(116).Mul(f).Sub(formInt(16)).Div(formRat(kap))
				r.Check(val != nil && formNear(val, want, ratDec("0.000000000001")), "C13.inv", "componentFromLAB linear", p.Pos(o.Pos), "= (116 f − 16)/κ", "value is "+trunc(valKey(o.Ret), 200))
			default:
				r.Violate("C13.inv", "componentFromLAB guard", p.Pos(o.Pos), "unexpected guard "+trunc(c.Key(), 200))
			}
		}
	}

	// --- ColorFromLAB with componentFromLAB opaque
	e = NewEngine(p)
	e.Opaque = opaqueSet(cfl)
	outs, err = extract(p, e, fromLab, nil)
	if err != nil || len(outs) != 2 {
		r.Violate("C13.inv", "ColorFromLAB shape", p.FnPos(fromLab), fmt.Sprintf("expected two branches (Y cubic / Y linear), got %d: %v", len(outs), err))
	} else {
		L, A, Bb := formAtom("lab.L"), formAtom("lab.A"), formAtom("lab.B")
		fy := L.Add(formInt(16)).Div(formInt(116))
		fx := A.Div(formInt(500)).Add(fy)
		fz := fy.Sub(Bb.Div(formInt(200)))
		cf := func(x *Form) *Form { return e.A.App("call:ciexyz.componentFromLAB", nil, x) }
		wp := func(a string) *Form { return formAtom("whitePoint." + a) }
		for _, o := range outs {
			got, ok := vec3(o.Ret)
			if !ok || len(o.St.conds) != 1 {
				r.Violate("C13.inv", "ColorFromLAB branch", p.Pos(o.Pos), "branch not of the expected shape")
				continue
			}
			c := o.St.conds[0]
			a, _ := c.A.(*Form)
			b, _ := c.B.(*Form)
			gOK := a != nil && b != nil && a.Equal(L) && constNear(b, big.NewRat(8, 1), ratDec("0.000001"))
			r.Check(got[0].Equal(cf(fx).Mul(wp("X"))), "C13.inv", "ColorFromLAB X "+c.Op, p.Pos(o.Pos), "X = finv(a/500 + (L+16)/116)·Xn", "X is "+trunc(got[0].String(), 200))
			r.Check(got[2].Equal(cf(fz).Mul(wp("Z"))), "C13.inv", "ColorFromLAB Z "+c.Op, p.Pos(o.Pos), "Z = finv((L+16)/116 − b/200)·Zn", "Z is "+trunc(got[2].String(), 200))
			switch c.Op {
			case ">":
				r.Check(gOK, "C13.inv", "ColorFromLAB Y guard L>κε", p.Pos(o.Pos), "cubic Y branch iff L > κ·ε = 8 (⇔ f_y³ > ε: same threshold as the generic branch)", "guard is "+trunc(c.Key(), 200))
				yr := got[1].Div(wp("Y"))
				at := powAtom(e, yr)
				isCube := yr.Equal(fy.Mul(fy).Mul(fy)) || (at != nil && valKey(at.Args[0]) == fy.Key() && constNear(at.Args[1], big.NewRat(3, 1), tolC))
				r.Check(isCube, "C13.inv", "ColorFromLAB Y cubic", p.Pos(o.Pos), "Y = ((L+16)/116)³·Yn", "Y is "+trunc(got[1].String(), 200))
			case "<=":
				r.Check(gOK, "C13.inv", "ColorFromLAB Y guard L<=κε", p.Pos(o.Pos), "linear Y branch iff L <= 8", "guard is "+trunc(c.Key(), 200))
				want := L.Div(formRat(kap)).Mul(wp("Y"))
				r.Check(formNear(got[1], want, ratDec("0.000000000001")), "C13.inv", "ColorFromLAB Y linear", p.Pos(o.Pos), "Y = (L/κ)·Yn", "Y is "+trunc(got[1].String(), 200))
			default:
				r.Violate("C13.inv", "ColorFromLAB guard", p.Pos(o.Pos), "unexpected guard "+trunc(c.Key(), 200))
			}
		}
	}
	// C13.nan for Pow with integer exponent 3: total on finite input — recorded
	r.Hold("C13.nan", "integer powers", "-", "the only other Pow calls have the integer exponent 3 (total on finite input); divisions are by white components and non-zero constants only")

	r.Floor("C13.const", 3)
	r.Floor("C13.fwd", 7)
	r.Floor("C13.inv", 12)
	r.Floor("C13.nan", 2)
}

// powAtom returns the pow application when f is exactly 1*pow(base, exp).
func powAtom(e *Engine, f *Form) *Atom {
	if f == nil {
		return nil
	}
	a, ok := f.SingleAtom()
	if !ok {
		return nil
	}
	at := e.A.get(a)
	if at == nil || at.Fn != "pow" || len(at.Args) != 2 {
		return nil
	}
	return at
}

func constNear(v Val, want, tol *big.Rat) bool {
	f, ok := v.(*Form)
	if !ok {
		return false
	}
	c, ok := f.Const()
	return ok && within(c, want, tol)
}

// formNear compares two forms with the same monomials coefficient-wise
// within tol (denominators must be structurally equal or constant).
func formNear(a, b *Form, tol *big.Rat) bool {
	if a.Equal(b) {
		return true
	}
	// bring to a common denominator by cross-multiplication and compare the
	// numerators coefficient-wise, scaled by the leading coefficient of b's
	x := a.N.mul(b.D)
	y := b.N.mul(a.D)
	if len(x.t) != len(y.t) {
		return false
	}
	// scale: largest |coefficient| of y
	scale := new(big.Rat)
	for _, t := range y.t {
		if ratAbs(t.c).Cmp(scale) > 0 {
			scale = ratAbs(t.c)
		}
	}
	if scale.Sign() == 0 {
		return len(x.t) == 0
	}
	for k, t := range x.t {
		u, ok := y.t[k]
		if !ok {
			return false
		}
		d := new(big.Rat).Sub(t.c, u.c)
		d.Quo(ratAbs(d), scale)
		if d.Cmp(tol) > 0 {
			return false
		}
	}
	return true
}

var _ = strings.Contains
