// prismcheck decides the properties listed in /verif/properties.jsonl for the
// mandykoh/prism sources in /repo by static analysis only: it loads the
// current working tree with go/packages, type-checks it, builds go/ssa, and
// evaluates repository-specific rules. No prism code is executed.
package main

import (
	"encoding/json"
	"flag"
	"fmt"
	"os"
	"runtime"
	"runtime/debug"
	"runtime/pprof"
	"sort"
	"strconv"
	"strings"
	"sync/atomic"
	"time"
)

// PropertyCheck is the static check of one property.
type PropertyCheck struct {
	ID    string
	Level string
	Run   func(p *Program, r *Report)
	// Arch386 says whether the rules are type-size dependent and are repeated
	// under GOARCH=386 in the thorough tier.
	Arch386 bool
}

var registry = map[string]*PropertyCheck{}

func register(pc *PropertyCheck) { registry[pc.ID] = pc }

// resourceExceeded is raised by the memory watchdog; every engine then ends its
// paths as "stuck", so that the rules report undecided instead of the process
// exhausting the machine on code whose exploration does not stay bounded.
var resourceExceeded atomic.Bool

func startWatchdog() {
	go func() {
		var ms runtime.MemStats
		for {
			time.Sleep(200 * time.Millisecond)
			runtime.ReadMemStats(&ms)
			if ms.HeapAlloc > 3<<30 {
				resourceExceeded.Store(true)
			}
		}
	}()
}

func main() {
	startWatchdog()
	if pf := os.Getenv("PRISMCHECK_CPUPROF"); pf != "" {
		// developer aid: CPU profile, stopped after 30 s or at exit
		if f, err := os.Create(pf); err == nil {
			pprof.StartCPUProfile(f)
			go func() { time.Sleep(30 * time.Second); pprof.StopCPUProfile(); f.Close(); os.Exit(3) }()
		}
	}
	prop := flag.String("property", "", "property id (C01..C20)")
	tier := flag.String("tier", os.Getenv("VERIF_TIER"), "quick|thorough")
	repo := flag.String("repo", "/repo", "repository working tree to analyse")
	verif := flag.String("verif", "/verif", "verification directory (evidence, known findings)")
	noEv := flag.Bool("noevidence", false, "do not write evidence or replay files")
	explain := flag.Bool("explain", false, "print every rule instance")
	replay := flag.String("replay", "", "replay file: re-evaluate that one obligation on the current tree")
	list := flag.Bool("list", false, "list registered properties")
	sym := flag.String("sym", "", "developer aid: print the abstract interpretation of pkg:Func or pkg:Type.Method")
	symW := flag.String("symworkers", "", "developer aid: print worker-closure facts of pkg:Func")
	symM := flag.String("symmeta", "", "developer aid: summarise a parser pkg:Func(reader)")
	symForks := flag.Int("symforks", 2, "with -symmeta: iteration bound")
	symF := flag.String("symfn", "", "developer aid: summarise any function pkg:Func or pkg:Type.Method")
	symIter := flag.Int("symiter", 0, "with -symfn: MaxIter")
	symFail := flag.Bool("symfail", false, "with -sym: explore read-failure outcomes")
	flag.Parse()

	if *symF != "" {
		p, err := Load(*repo, "")
		if err != nil {
			fmt.Println(err)
			os.Exit(2)
		}
		debugFn(p, *symF, *symIter, *symForks, *symFail)
		return
	}
	if *symM != "" {
		p, err := Load(*repo, "")
		if err != nil {
			fmt.Println(err)
			os.Exit(2)
		}
		debugMeta(p, *symM, *symForks)
		return
	}
	if os.Getenv("PRISMCHECK_LISTMETA") != "" {
		p, err := Load(*repo, "")
		if err != nil {
			fmt.Println(err)
			os.Exit(2)
		}
		var ns []string
		for _, f := range p.SrcFuncs() {
			if f.Parent() == nil && metaPkg(f) {
				ns = append(ns, shortFn(f))
			}
		}
		sort.Strings(ns)
		for _, n := range ns {
			fmt.Printf("\t%q: true,\n", n)
		}
		return
	}
	if *symW != "" {
		p, err := Load(*repo, "")
		if err != nil {
			fmt.Println(err)
			os.Exit(2)
		}
		debugWorkers(p, *symW)
		return
	}
	if *sym != "" {
		p, err := Load(*repo, "")
		if err != nil {
			fmt.Println(err)
			os.Exit(2)
		}
		debugSym(p, *sym, *symFail)
		return
	}

	if *list {
		var ids []string
		for id := range registry {
			ids = append(ids, id)
		}
		sort.Strings(ids)
		fmt.Println(strings.Join(ids, " "))
		return
	}
	if *tier == "" {
		*tier = "quick"
	}
	replayKey := ""
	if *replay != "" {
		b, err := os.ReadFile(*replay)
		if err != nil {
			fmt.Println("cannot read replay file:", err)
			os.Exit(2)
		}
		var rf struct {
			Property   string     `json:"property"`
			Obligation Obligation `json:"obligation"`
		}
		if err := json.Unmarshal(b, &rf); err != nil {
			fmt.Println("bad replay file:", err)
			os.Exit(2)
		}
		*prop = rf.Property
		replayKey = rf.Obligation.Key
		*noEv = true
	}
	pc := registry[*prop]
	if pc == nil {
		fmt.Printf("unknown property %q\n", *prop)
		os.Exit(2)
	}
	seed, _ := strconv.ParseInt(os.Getenv("VERIF_SEED"), 10, 64)

	r := NewReport(pc.ID, pc.Level)
	r.Tier = *tier
	r.Seed = seed
	cmd := "/verif/bin/prismcheck -property " + pc.ID + " -tier " + *tier
	opts := finishOpts{VerifDir: *verif, NoEvidence: *noEv, CheckerCmd: cmd, ReplayKey: replayKey}

	code := func() (code int) {
		defer func() {
			if e := recover(); e != nil {
				r.Violate("CHECKER", "panic", "-", fmt.Sprintf("checker panicked (treated as failure): %v | %s", e, trunc(strings.ReplaceAll(string(debug.Stack()), "\n", " "), 900)))
				code = r.Finish(opts)
			}
		}()
		archs := []string{""}
		if *tier == "thorough" && pc.Arch386 {
			archs = append(archs, "386")
		}
		for _, arch := range archs {
			p, err := Load(*repo, arch)
			if err != nil {
				r.Violate("LOAD", "load "+arch, "-", err.Error())
				return r.Finish(opts)
			}
			r.prog = p
			scopeProg, metaReach = p, nil
			for _, pk := range p.Prism {
				r.Packages[pk.PkgPath] = true
			}
			label := arch
			if label == "" {
				label = "host"
			}
			r.Arch = append(r.Arch, label)
			if arch == "" {
				pc.Run(p, r)
				reportInitOnly(p, r, pc.ID)
			} else {
				// repeat under the other word size; keys get a suffix so that
				// instances are counted separately
				sub := NewReport(pc.ID, pc.Level)
				sub.prog = p
				pc.Run(p, sub)
				for _, ob := range sub.Obls {
					ob.Key += " [GOARCH=" + arch + "]"
					r.Obls = append(r.Obls, ob)
				}
			}
		}
		if *tier == "thorough" {
			runMutants(pc, r, *repo, *verif)
		}
		return r.Finish(opts)
	}()

	if *explain {
		for _, ob := range r.Obls {
			fmt.Printf("%-9s %-14s %-60s %s  %s\n", ob.Status, ob.Rule, ob.Key, ob.Pos, ob.Detail)
		}
	}
	os.Exit(code)
}
