package main

import (
	"fmt"
	"math/big"
	"sort"

	"golang.org/x/tools/go/ssa"
)

// ---------------------------------------------------------------------------
// transfer-curve specifications (published standards) and the matcher that
// compares an extracted piecewise form with them.

type segSpec struct {
	Kind          string // "lin": A·v ; "pow": A·Pow(B·v + C, G) + D ; "const": A
	A, B, C, G, D string
	F64           bool // the Pow argument must be formed in float64
}

type curveSpec struct {
	Std   string
	Segs  []segSpec
	Cuts  [][2]string // window [lo, hi] for each threshold between consecutive segments
	Below string      // "" or: value for v < first cut when the first segment is a clamp
}

// sRGB: IEC 61966-2-1. Adobe RGB (1998) §4.3.4.2 (γ = 563/256 = 2.19921875).
// ProPhoto / ROMM RGB: ISO 22028-2 (Et = 1/512, 16·Et = 1/32, γ = 1.8).
var eotfSpecs = map[string]curveSpec{
	"srgb": {Std: "IEC 61966-2-1 EOTF", Segs: []segSpec{
		{Kind: "lin", A: "1/12.92"},
		{Kind: "pow", A: "1", B: "1/1.055", C: "0.055/1.055", G: "2.4", D: "0", F64: true}},
		Cuts: [][2]string{{"0.03809", "0.04052"}}},
	"adobergb": {Std: "Adobe RGB (1998) EOTF", Segs: []segSpec{
		{Kind: "pow", A: "1", B: "1", C: "0", G: "563/256", D: "0", F64: true}}},
	"prophotorgb": {Std: "ROMM RGB EOTF", Segs: []segSpec{
		{Kind: "lin", A: "1/16"},
		{Kind: "pow", A: "1", B: "1", C: "0", G: "1.8", D: "0", F64: true}},
		Cuts: [][2]string{{"0.031248", "0.031252"}}},
}

var oetfSpecs = map[string]curveSpec{
	"srgb": {Std: "IEC 61966-2-1 OETF", Segs: []segSpec{
		{Kind: "lin", A: "12.92"},
		{Kind: "pow", A: "1.055", B: "1", C: "0", G: "1/2.4", D: "-0.055", F64: true}},
		Cuts: [][2]string{{"0.002949", "0.003135"}}},
	"adobergb": {Std: "Adobe RGB (1998) OETF", Segs: []segSpec{
		{Kind: "pow", A: "1", B: "1", C: "0", G: "256/563", D: "0", F64: true}}},
	"prophotorgb": {Std: "ROMM RGB OETF", Segs: []segSpec{
		{Kind: "const", A: "0"},
		{Kind: "lin", A: "16"},
		{Kind: "pow", A: "1", B: "1", C: "0", G: "1/1.8", D: "0", F64: true},
		{Kind: "const", A: "1"}},
		Cuts: [][2]string{{"0", "0"}, {"0.00195299", "0.00195326"}, {"1", "1"}}},
}

// ratExpr parses "a", "a/b" with decimal a, b.
func ratExpr(s string) *big.Rat {
	for i := 0; i < len(s); i++ {
		if s[i] == '/' {
			return ratDiv(ratDec(s[:i]), ratDec(s[i+1:]))
		}
	}
	return ratDec(s)
}

type extractedSeg struct {
	Lo, Hi   *big.Rat // nil = unbounded
	LoStrict bool     // v > Lo (else >=)
	HiStrict bool     // v < Hi (else <=)
	Val      *Form
	Pos      string
}

// extractCurve runs a float32→float32 curve function and returns its
// segments ordered by lower bound.
func extractCurve(p *Program, e *Engine, fn *ssa.Function) ([]extractedSeg, error) {
	outs, err := extract(p, e, fn, nil)
	if err != nil {
		return nil, err
	}
	v := fn.Params[0].Name()
	var segs []extractedSeg
	for _, o := range outs {
		if o.Kind != "return" {
			return nil, fmt.Errorf("path at %s ends in %s", p.Pos(o.Pos), o.Kind)
		}
		f, ok := o.Ret.(*Form)
		if !ok {
			return nil, fmt.Errorf("non-numeric result at %s", p.Pos(o.Pos))
		}
		sg := extractedSeg{Val: f, Pos: p.Pos(o.Pos)}
		for _, c := range o.St.conds {
			a, okA := c.A.(*Form)
			b, okB := c.B.(*Form)
			if !okA || !okB {
				return nil, fmt.Errorf("guard %s is not a comparison of numbers", trunc(c.Key(), 100))
			}
			op := c.Op
			// normalise to  v op const
			if an, ok := a.SingleAtom(); !ok || an != v {
				if bn, ok := b.SingleAtom(); ok && bn == v {
					a, b = b, a
					op = map[string]string{"<": ">", "<=": ">=", ">": "<", ">=": "<=", "==": "==", "!=": "!="}[op]
				} else {
					return nil, fmt.Errorf("guard %s does not compare the argument with a constant", trunc(c.Key(), 100))
				}
			}
			k, isC := b.Const()
			if !isC {
				return nil, fmt.Errorf("guard %s does not compare the argument with a constant", trunc(c.Key(), 100))
			}
			switch op {
			case "<", "<=":
				if sg.Hi == nil || k.Cmp(sg.Hi) < 0 {
					sg.Hi, sg.HiStrict = k, op == "<"
				}
			case ">", ">=":
				if sg.Lo == nil || k.Cmp(sg.Lo) > 0 {
					sg.Lo, sg.LoStrict = k, op == ">"
				}
			default:
				return nil, fmt.Errorf("guard %s is not an ordering comparison", trunc(c.Key(), 100))
			}
		}
		segs = append(segs, sg)
	}
	sort.SliceStable(segs, func(i, j int) bool {
		if segs[i].Lo == nil {
			return segs[j].Lo != nil
		}
		if segs[j].Lo == nil {
			return false
		}
		return segs[i].Lo.Cmp(segs[j].Lo) < 0
	})
	return segs, nil
}

// matchSeg compares one extracted segment value with its specification.
func matchSeg(e *Engine, v string, got *Form, sp segSpec) (bool, string) {
	tol := ratDec("0.00000002")
	switch sp.Kind {
	case "const":
		c, ok := got.Const()
		if !ok || !within(c, ratExpr(sp.A), tol) {
			return false, fmt.Sprintf("value is %s, the standard has the constant %s", trunc(got.String(), 120), sp.A)
		}
		return true, "= " + sp.A
	case "lin":
		if !got.IsLinearIn([]string{v}) {
			return false, fmt.Sprintf("value is %s, the standard has the linear segment %s·v", trunc(got.String(), 120), sp.A)
		}
		k, _ := got.LinearCoeff(v)
		if !within(k, ratExpr(sp.A), relTol(ratExpr(sp.A), tol)) {
			return false, fmt.Sprintf("linear segment slope is %s, the standard has %s = %s", fstr(k), sp.A, fstr(ratExpr(sp.A)))
		}
		return true, fmt.Sprintf("= %s·v", fstr(k))
	case "pow":
		// got = A·pow(B·v + C, G) + D
		if d, ok := got.D.constVal(); !ok || d.Cmp(big.NewRat(1, 1)) != 0 {
			return false, "value is " + trunc(got.String(), 120)
		}
		var A, D *big.Rat
		var pw *Atom
		D = new(big.Rat)
		for _, t := range got.N.t {
			switch {
			case len(t.m.vars) == 0:
				D = t.c
			case len(t.m.vars) == 1 && t.m.vars[0].p == 1:
				at := e.A.get(t.m.vars[0].a)
				if at == nil || at.Fn != "pow" || pw != nil {
					return false, "value is " + trunc(got.String(), 120)
				}
				pw, A = at, t.c
			default:
				return false, "value is " + trunc(got.String(), 120)
			}
		}
		if pw == nil {
			return false, fmt.Sprintf("value is %s, the standard has a power segment with exponent %s", trunc(got.String(), 120), sp.G)
		}
		base, okB := pw.Args[0].(*Form)
		exp, okE := pw.Args[1].(*Form)
		if !okB || !okE {
			return false, "power with non-numeric operands"
		}
		g, isC := exp.Const()
		if !isC {
			return false, "power with a non-constant exponent"
		}
		if _, isConstD := base.D.constVal(); !isConstD {
			return false, "power base is " + trunc(base.String(), 120)
		}
		B, _ := base.LinearCoeff(v)
		C := new(big.Rat)
		for _, t := range base.N.t {
			if len(t.m.vars) == 0 {
				C = t.c
			} else if !(len(t.m.vars) == 1 && t.m.vars[0].a == v && t.m.vars[0].p == 1) {
				return false, "power base is " + trunc(base.String(), 120)
			}
		}
		chk := func(name string, got *big.Rat, want string, tol *big.Rat) (bool, string) {
			if !within(got, ratExpr(want), relTol(ratExpr(want), tol)) {
				return false, fmt.Sprintf("%s is %s, the standard has %s = %s", name, fstr(got), want, fstr(ratExpr(want)))
			}
			return true, ""
		}
		if ok, why := chk("exponent", g, sp.G, ratDec("0.00000005")); !ok {
			return false, why
		}
		if ok, why := chk("outer scale", A, sp.A, tol); !ok {
			return false, why
		}
		if ok, why := chk("inner scale", B, sp.B, tol); !ok {
			return false, why
		}
		if ok, why := chk("inner offset", C, sp.C, tol); !ok {
			return false, why
		}
		if ok, why := chk("outer offset", D, sp.D, tol); !ok {
			return false, why
		}
		if sp.F64 && base.F32 {
			return false, "the Pow argument is formed in float32 arithmetic; the 3e-7 budget needs it formed in float64"
		}
		return true, fmt.Sprintf("= %s·Pow(%s·v + %s, %s) + %s", fstr(A), fstr(B), fstr(C), fstr(g), fstr(D))
	}
	return false, "unknown segment kind"
}

// checkCurve compares function fn with spec; one obligation per segment and
// per threshold.
func checkCurve(p *Program, r *Report, rule, key string, fn *ssa.Function, spec curveSpec) {
	if fn == nil {
		r.Undecide(rule, key, "-", "curve function not found")
		return
	}
	r.SawFn(shortFn(fn))
	e := NewEngine(p)
	segs, err := extractCurve(p, e, fn)
	if err != nil {
		r.Undecide(rule, key+" extractable", p.FnPos(fn), err.Error())
		return
	}
	if len(segs) != len(spec.Segs) {
		r.Violate(rule, key+" segments", p.FnPos(fn), fmt.Sprintf("the function has %d segments, %s has %d", len(segs), spec.Std, len(spec.Segs)))
		return
	}
	v := fn.Params[0].Name()
	for i, sg := range segs {
		ok, detail := matchSeg(e, v, sg.Val, spec.Segs[i])
		r.Check(ok, rule, fmt.Sprintf("%s segment %d", key, i), sg.Pos, spec.Std+": "+detail, spec.Std+": "+detail)
		if i+1 < len(segs) {
			cut := spec.Cuts[i]
			hi, lo := sg.Hi, segs[i+1].Lo
			good := hi != nil && lo != nil && hi.Cmp(lo) == 0 && sg.HiStrict != segs[i+1].LoStrict &&
				hi.Cmp(ratDec(cut[0])) >= 0 && hi.Cmp(ratDec(cut[1])) <= 0
			got := "?"
			if hi != nil {
				got = fstr(hi)
			}
			r.Check(good, rule, fmt.Sprintf("%s threshold %d", key, i), sg.Pos,
				fmt.Sprintf("segments meet at %s, inside the window [%s, %s] in which the published branches agree to the tolerance", got, cut[0], cut[1]),
				fmt.Sprintf("segments switch at %s; the published branches only agree inside [%s, %s] — outside it one branch is used where the standard prescribes the other", got, cut[0], cut[1]))
		}
	}
	if segs[0].Lo != nil || segs[len(segs)-1].Hi != nil {
		r.Violate(rule, key+" total", p.FnPos(fn), "the segments do not cover the whole real line")
	}
}

// relTol widens an absolute tolerance to 1e-7 relative (a constant used in
// float32 arithmetic is itself rounded to 6e-8 relative).
func relTol(want, abs *big.Rat) *big.Rat {
	rel := ratMul(ratAbs(want), ratDec("0.0000001"))
	if rel.Cmp(abs) > 0 {
		return rel
	}
	return abs
}
