package main

import (
	"fmt"
	"go/types"
	"math/big"
	"sort"
	"strings"

	"golang.org/x/tools/go/ssa"
)

type quantDecl struct {
	Name string
	Max  int64
	Bits int
}

var quantDecls = []quantDecl{{"NormalisedTo8Bit", 255, 8}, {"NormalisedTo9Bit", 511, 16}, {"NormalisedTo16Bit", 65535, 16}}

func quantFns(p *Program) []*ssa.Function {
	var out []*ssa.Function
	for _, q := range quantDecls {
		out = append(out, p.Func("linear", q.Name))
	}
	return out
}

// checkQuantisers: v <= 0 → 0 ; v >= 1 → MAX ; else Trunc(v·MAX + 1/2).
func checkQuantisers(p *Program, r *Report, pre string) {
	rule := pre + ".quant"
	for _, q := range quantDecls {
		fn := p.Func("linear", q.Name)
		key := "linear." + q.Name
		if fn == nil {
			r.Undecide(rule, key, "-", "quantiser not found")
			continue
		}
		r.SawFn(shortFn(fn))
		e := NewEngine(p)
		segs, err := extractCurve(p, e, fn)
		if err != nil {
			r.Undecide(rule, key, p.FnPos(fn), err.Error())
			continue
		}
		if len(segs) != 3 {
			r.Violate(rule, key+" shape", p.FnPos(fn), fmt.Sprintf("expected 3 segments (clamp low, round, clamp high), got %d: the clamps must be applied to the float before it is converted", len(segs)))
			continue
		}
		v := fn.Params[0].Name()
		zero, one := new(big.Rat), big.NewRat(1, 1)
		lo, mid, hi := segs[0], segs[1], segs[2]
		r.Check(lo.Lo == nil && lo.Hi != nil && lo.Hi.Cmp(zero) == 0 && lo.Val.Equal(formInt(0)), rule, key+" clamp-low", lo.Pos, "v <= 0 ↦ 0", "low clamp is not `v <= 0 → 0`: returns "+lo.Val.String())
		r.Check(hi.Hi == nil && hi.Lo != nil && hi.Lo.Cmp(one) == 0 && hi.Val.Equal(formInt(q.Max)), rule, key+" clamp-high", hi.Pos, fmt.Sprintf("v >= 1 ↦ %d", q.Max), fmt.Sprintf("high clamp is not `v >= 1 → %d`: segment starts at %v and returns %s", q.Max, ratStrOrNil(hi.Lo), hi.Val.String()))
		good, why := false, "rounding segment is "+trunc(mid.Val.String(), 160)
		if an, ok := mid.Val.SingleAtom(); ok {
			at := e.A.get(an)
			if at != nil && strings.HasPrefix(at.Fn, "trunc:") && len(at.Args) == 1 {
				arg, _ := at.Args[0].(*Form)
				want := formAtom(v).Mul(formInt(q.Max)).Add(formRat(big.NewRat(1, 2)))
				w, signed, isInt := intTypeInfo(at.Type, 64)
				wide := isInt && ((signed && w-1 >= q.Bits) || (!signed && w >= q.Bits))
				if q.Max == 511 {
					wide = isInt && ((signed && w-1 >= 9) || (!signed && w >= 9))
				}
				if arg != nil && arg.Equal(want) && wide {
					good = true
					why = fmt.Sprintf("0 < v < 1 ↦ %s(v·%d + 1/2)", at.Fn, q.Max)
				} else if arg != nil {
					why = fmt.Sprintf("rounding segment is %s(%s); required truncation of v·%d + 1/2 in a type holding %d", at.Fn, arg.String(), q.Max, q.Max)
				}
			}
		}
		r.Check(good && mid.Lo != nil && mid.Hi != nil && mid.Lo.Cmp(zero) == 0 && mid.Hi.Cmp(one) == 0, rule, key+" round", mid.Pos, why, why)
	}
}

func ratStrOrNil(x *big.Rat) string {
	if x == nil {
		return "-inf"
	}
	return fstr(x)
}

// encoderForm interprets pkg.To8Bit / To16Bit with the quantisers opaque:
// table[call:quant(v)]; it returns the table read and the quantiser used.
func encoderForm(p *Program, fn *ssa.Function) (ref tableRef, quant string, err error) {
	ref, idx, e, err := entryTable(p, fn)
	if err != nil {
		return ref, "", err
	}
	in, ok := idx.SingleAtom()
	if !ok {
		return ref, "", fmt.Errorf("table index is %s", trunc(idx.String(), 160))
	}
	iat := e.A.get(in)
	if iat == nil || !strings.HasPrefix(iat.Fn, "call:linear.NormalisedTo") || len(iat.Args) != 1 || valKey(iat.Args[0]) != "1*"+fn.Params[0].Name() {
		return ref, "", fmt.Errorf("table index is %s; required a clamping quantiser applied to the unmodified argument", trunc(idx.String(), 160))
	}
	return ref, strings.TrimPrefix(iat.Fn, "call:linear."), nil
}

// checkTableAgreement: the writer's and the reader's view of each encode table agree.
func checkTableAgreement(p *Program, r *Report, pre string) {
	rule := pre + ".table-agreement"
	checkBuilder(p, r, rule, p.Func("linear/lut", "BuildLinearTo8Bit"), 512, "NormalisedTo8Bit")
	checkBuilder(p, r, rule, p.Func("linear/lut", "BuildLinearTo16Bit"), 65536, "NormalisedTo16Bit")
	checkLUTWiring(p, r, rule, false)
	maxOf := map[string]int64{}
	for _, q := range quantDecls {
		maxOf[q.Name] = q.Max
	}
	for _, pk := range curvePkgs {
		for _, d := range []struct {
			fn, table, builder string
		}{{"To8Bit", "linearToEncoded8LUT", "BuildLinearTo8Bit"}, {"To16Bit", "linearToEncoded16LUT", "BuildLinearTo16Bit"}} {
			fn := p.Func(pk, d.fn)
			key := pk + "." + d.fn
			if fn == nil {
				r.Undecide(rule, key, "-", "encoder not found")
				continue
			}
			r.SawFn(shortFn(fn))
			ref, quant, err := encoderForm(p, fn)
			if err != nil {
				r.Violate(rule, key, p.FnPos(fn), err.Error())
				continue
			}
			// table length from its builder's result type
			var n int64 = -1
			if at, ok := ref.Builder.Signature.Results().At(0).Type().Underlying().(*types.Array); ok {
				n = at.Len()
			}
			ok := ref.Builder == p.Func("linear/lut", d.builder) && maxOf[quant] == n-1
			r.Check(ok, rule, key, p.FnPos(fn),
				fmt.Sprintf("= %s[%s(v)]: index range 0..%d equals the table's %d entries, so every float (±Inf included) indexes in range", ref, quant, maxOf[quant], n),
				fmt.Sprintf("encoder indexes %s (length %d) with %s (range 0..%d): writer and reader disagree on the table's resolution", ref, n, quant, maxOf[quant]))
		}
	}
}

// checkNoRawConversion: every float→integer conversion in the colour
// packages lies inside one of the clamping quantisers.
func checkNoRawConversion(p *Program, r *Report, pre string) {
	rule := pre + ".no-raw-conversion"
	allowed := map[*ssa.Function]bool{}
	for _, f := range quantFns(p) {
		allowed[f] = true
	}
	n, inQ := 0, 0
	for _, f := range p.SrcFuncs() {
		if inMeta(f) {
			continue
		}
		for _, b := range f.Blocks {
			for _, in := range b.Instrs {
				cv, ok := in.(*ssa.Convert)
				if !ok {
					continue
				}
				_, fromF := isFloatType(cv.X.Type())
				_, _, toI := intTypeInfo(cv.Type(), 64)
				if !fromF || !toI {
					continue
				}
				n++
				if allowed[f] {
					inQ++
					r.Hold(rule, fmt.Sprintf("%s convert#%d", shortFn(f), inQ), p.InstrPos(cv), "float→integer conversion inside a clamping quantiser (dominated by both clamp tests, see .quant)")
				} else {
					r.Violate(rule, fmt.Sprintf("%s convert", shortFn(f)), p.InstrPos(cv), fmt.Sprintf("raw conversion %s→%s outside the clamping quantisers: out-of-range and infinite values wrap or are implementation-defined instead of clipping", typeString(cv.X.Type()), typeString(cv.Type())))
				}
			}
		}
	}
	_ = n
}

// checkEncoders: the colour types' To* methods and EncodeColor route through
// the right tables with alpha handled as documented (shared with C14.enc).
func checkEncoders(p *Program, r *Report, rule string) {
	qf := quantFns(p)
	for _, sp := range allSpaces {
		src := tableSource(sp)
		lut8 := tableBase(p, src, "To8Bit")
		lut16 := tableBase(p, src, "To16Bit")
		for _, m := range []struct {
			name   string
			lut    *Opaque
			idxQ   string
			alphaQ string
			premul bool
		}{
			{"ToNRGBA", lut8, "NormalisedTo9Bit", "NormalisedTo8Bit", false},
			{"ToRGBA", lut8, "NormalisedTo9Bit", "NormalisedTo8Bit", true},
			{"ToRGBA64", lut16, "NormalisedTo16Bit", "NormalisedTo16Bit", true},
		} {
			fn := p.Method(sp, "Color", m.name)
			key := sp + ".Color." + m.name
			if fn == nil {
				r.Undecide(rule, key, "-", "method not found")
				continue
			}
			r.SawFn(shortFn(fn))
			e := wiringEngine(p, true)
			v, err := single(p, e, fn, nil)
			if err != nil {
				r.Violate(rule, key, p.FnPos(fn), err.Error())
				continue
			}
			alpha := formAtom("alpha")
			for i, ch := range chanNames {
				arg := formAtom("c.RGB." + ch)
				if m.premul {
					arg = arg.Mul(alpha)
				}
				want := e.A.App("index", nil, m.lut, e.A.App("call:linear."+m.idxQ, nil, arg))
				f, ok := formAt(v, i)
				how := "trcEncode(c." + ch + ")"
				if m.premul {
					how = "trcEncode(c." + ch + "·alpha)"
				}
				r.Check(ok && f.Equal(want), rule, key+" "+ch, p.FnPos(fn), "= "+how+" through the "+src+" encode table", "channel "+ch+" is "+trunc(valKey(f), 200)+"; required "+want.Key())
			}
			a, ok := formAt(v, 3)
			wantA := e.A.App("call:linear."+m.alphaQ, nil, alpha)
			r.Check(ok && a.Equal(wantA), rule, key+" A", p.FnPos(fn), "A = "+m.alphaQ+"(alpha) of the unscaled parameter", "A is "+trunc(valKey(a), 160)+"; required "+wantA.Key())
		}
	}
	// ToLinearRGBA64
	fn := p.Method("linear", "RGB", "ToLinearRGBA64")
	if fn == nil {
		r.Undecide(rule, "linear.RGB.ToLinearRGBA64", "-", "not found")
		return
	}
	r.SawFn(shortFn(fn))
	e := NewEngine(p)
	e.Opaque = opaqueSet(qf...)
	v, err := single(p, e, fn, nil)
	if err != nil {
		r.Violate(rule, "linear.RGB.ToLinearRGBA64", p.FnPos(fn), err.Error())
		return
	}
	alpha := formAtom("alpha")
	for i, ch := range chanNames {
		want := e.A.App("call:linear.NormalisedTo16Bit", nil, formAtom("c."+ch).Mul(alpha))
		f, ok := formAt(v, i)
		r.Check(ok && f.Equal(want), rule, "linear.RGB.ToLinearRGBA64 "+ch, p.FnPos(fn), "= NormalisedTo16Bit(c."+ch+"·alpha)", "channel is "+trunc(valKey(f), 160))
	}
	a, ok := formAt(v, 3)
	r.Check(ok && a.Equal(e.A.App("call:linear.NormalisedTo16Bit", nil, alpha)), rule, "linear.RGB.ToLinearRGBA64 A", p.FnPos(fn), "A = NormalisedTo16Bit(alpha)", "A is "+trunc(valKey(a), 160))
}

func runC02(p *Program, r *Report) {
	r.Explanation = "Decided for every float32 at once from the shape of the code: (quant) the three quantisers are `v <= 0 → 0; v >= 1 → MAX; else Trunc(v·MAX + 1/2)` with the clamps applied to the float BEFORE conversion (so ±Inf and huge values clip) in a result type wide enough for MAX; (curve) the three encode curves equal the published OETFs constant by constant with thresholds inside the agreement window; (table-agreement) the builders fill all N entries with quantiser(curve(float32(i)/(N−1))), the encoders index exactly that table with a clamping quantiser whose MAX is N−1 (index provably in range: no panic for any float; step 1/511 resp. 1/65535), each table is built from its package's own curve; (no-raw-conversion) no other float→integer conversion exists in the colour packages; (wiring) all colour types route through the right tables. Derived: monotone = monotone quantiser ∘ monotone table ∘ monotone quantiser; half-step/half-code accuracy from table agreement. Not decided: NaN (Go leaves uintN(NaN) implementation-defined; 0 on amd64/arm64), monotonicity of math.Pow itself, measured error."
	r.RuleText = "one instance per quantiser clause, curve segment/threshold, builder clause, table variable, encoder, conversion site and colour-type channel"
	r.Trusted = []string{"go/packages+go/types+go/ssa (x/tools v0.29.0)", "the abstract interpreter and normal forms", "math.Pow monotone and accurate to < 1 ulp", "published transfer functions embedded in the checker"}
	r.Assumptions = []string{"uintN(NaN) == 0 (amd64/arm64 behaviour; the language leaves it implementation-defined)"}
	checkQuantisers(p, r, "C02")
	checkCurves(p, r, "", "C02.curve")
	checkTableAgreement(p, r, "C02")
	checkNoRawConversion(p, r, "C02")
	checkEncoders(p, r, "C02.wire")
	checkOnceSingle(p, r, "C02.wire")
	r.Floor("C02.quant", 9)
	r.Floor("C02.curve", 10)
	r.Floor("C02.table-agreement", 19)
	r.Floor("C02.no-raw-conversion", 3)
	r.Floor("C02.wire", 52)
}

// ---------------------------------------------------------------------------
// C14

func runC14(p *Program, r *Report) {
	r.Explanation = "Decided from extracted forms: (dec) every decoder returns alpha = A/MAX exactly (MAX 255 for the 8-bit constructors, 65535 for the generic ones) and the zero colour with alpha 0 for A == 0, with channels un-premultiplied by that same alpha; (enc) every encoder writes A = NormalisedToN(alpha) of the UNSCALED alpha parameter, with the same MAX the decoder divided by (table agreement), premultiplied encoders scale channels by alpha, the non-premultiplied one does not; (wire) LineariseColor/EncodeColor thread the decoder's alpha into the encoder unchanged. Derived: alpha is bit-identical for all 65,536 (256) values because |MAX·fl(A/MAX) − A| ≤ 2u·MAX < 1/2; opaque colours make the three constructors coincide. NOT claimed: preservation of `channel <= alpha` after rounding (depends on rounding direction at 2^31 pairs — no static argument in reach)."
	r.RuleText = "one instance per decoder/encoder channel and alpha clause and per colour-function wiring"
	r.Trusted = []string{"go/packages+go/types+go/ssa (x/tools v0.29.0)", "the abstract interpreter and normal forms"}
	checkDecodeConstructors(p, r, "C14.dec")
	checkRGBFromLinear(p, r, "C14.dec")
	checkEncoders(p, r, "C14.enc")
	checkQuantisers(p, r, "C14.enc")
	checkColorFuncs(p, r, "C14.wire")
	// "opaque colours decode to the same linear value through all three constructors" rests on the
	// 8-bit and the 16-bit decode tables sampling the curve at the same real argument
	// (i/255 = 257i/65535, each one correctly rounded division)
	checkBuilder(p, r, "C14.sample", p.Func("linear/lut", "Build8BitToLinear"), 256, "")
	checkBuilder(p, r, "C14.sample", p.Func("linear/lut", "Build16BitToLinear"), 65536, "")
	// "linearising or encoding any pixel": the image converters hand every pixel, alpha
	// included, to the per-colour function and store its result unchanged — rule set C10,
	// re-evaluated on the same tree as a premise
	sub := NewReport("C10", "other")
	runC10(p, sub)
	for _, ob := range sub.Obls {
		ob.Rule = "C14.premise-" + ob.Rule
		ob.Key = "C14.premise-" + ob.Key
		r.Obls = append(r.Obls, ob)
	}
	for f := range sub.Functions {
		r.SawFn(f)
	}
	r.Floor("C14.sample", 2)
	r.Floor("C14.dec", 50)
	r.Floor("C14.enc", 50)
	r.Floor("C14.wire", 8)
}

// checkRGBFromLinear: a == 0 → zero; channels r/a, alpha a/65535.
func checkRGBFromLinear(p *Program, r *Report, rule string) {
	fn := p.Func("linear", "RGBFromLinear")
	if fn == nil {
		r.Undecide(rule, "linear.RGBFromLinear", "-", "not found")
		return
	}
	r.SawFn(shortFn(fn))
	e := NewEngine(p)
	outs, err := extract(p, e, fn, nil)
	if err != nil {
		r.Violate(rule, "linear.RGBFromLinear", p.FnPos(fn), err.Error())
	}
	aKey := "invoke:RGBA#3(c)"
	sawZero, sawGeneral := false, false
	for _, o := range outs {
		tp, _ := o.Ret.(Tuple)
		ac, ok := alphaCaseOf(o, aKey)
		if len(tp) != 2 || !ok {
			r.Violate(rule, "linear.RGBFromLinear guard", p.Pos(o.Pos), "guard is ["+trunc(condKeys(o), 120)+"]; the only case split is on the value of the colour's alpha")
			continue
		}
		a, _ := tp[1].(*Form)
		if ac.zero {
			sawZero = true
			zero := a != nil && a.Equal(formInt(0))
			for i := range chanNames {
				f, ok := formAt(tp[0], i)
				if !ok || !f.Equal(formInt(0)) {
					zero = false
				}
			}
			r.Check(zero, rule, "linear.RGBFromLinear transparent", p.Pos(o.Pos), "a == 0 ↦ zero colour, alpha 0", "transparent colour decodes to "+trunc(valKey(o.Ret), 120))
			continue
		}
		if !ac.nonZero {
			r.Violate(rule, "linear.RGBFromLinear guard", p.Pos(o.Pos), "a path un-premultiplies without having excluded a == 0")
			continue
		}
		if len(ac.sub) == 0 {
			sawGeneral = true
		}
		aAtom := formAtom(aKey).Subst(ac.sub)
		for i, ch := range chanNames {
			f, ok := formAt(tp[0], i)
			want := formAtom(fmt.Sprintf("invoke:RGBA#%d(c)", i)).Div(aAtom)
			r.Check(ok && f.Subst(ac.sub).Equal(want), rule, "linear.RGBFromLinear "+ch+ac.tag, p.Pos(o.Pos), "= "+strings.ToLower(ch)+"/a", "channel is "+trunc(valKey(f), 160))
		}
		r.Check(a != nil && a.Subst(ac.sub).Equal(aAtom.Div(formInt(65535))), rule, "linear.RGBFromLinear alpha"+ac.tag, p.Pos(o.Pos), "alpha = a/65535", "alpha is "+trunc(valKey(tp[1]), 120))
	}
	r.Check(sawZero && sawGeneral, rule, "linear.RGBFromLinear cases", p.FnPos(fn), "the a == 0 case and the general case both exist", fmt.Sprintf("zero case found: %v, general case found: %v", sawZero, sawGeneral))
}

// checkColorFuncs: LineariseColor = ToLinearRGBA64(ColorFromEncodedColor),
// EncodeColor = ToRGBA64(ColorFromLinearColor), alpha threaded unchanged.
func checkColorFuncs(p *Program, r *Report, rule string) {
	for _, sp := range allSpaces {
		for _, d := range []struct{ fn, ctor, conv string }{
			{"LineariseColor", "ColorFromEncodedColor", "ToLinearRGBA64"},
			{"EncodeColor", "ColorFromLinearColor", "ToRGBA64"},
		} {
			fn := p.Func(sp, d.fn)
			ctor := p.Func(sp, d.ctor)
			var conv *ssa.Function
			if d.conv == "ToLinearRGBA64" {
				conv = p.Method("linear", "RGB", d.conv)
			} else {
				conv = p.Method(sp, "Color", d.conv)
			}
			key := sp + "." + d.fn
			if fn == nil || ctor == nil || conv == nil {
				r.Undecide(rule, key, "-", "function not found")
				continue
			}
			r.SawFn(shortFn(fn))
			e := NewEngine(p)
			e.Opaque = opaqueSet(ctor, conv)
			v, err := single(p, e, fn, nil)
			if err != nil {
				if why, ok := sameAsComposition(p, fn, ctor, conv, d.conv == "ToLinearRGBA64"); ok {
					r.Check(true, rule, key, p.FnPos(fn), fmt.Sprintf("= %s(c) → .%s(alpha) with the constructor's alpha passed through unchanged", d.ctor, d.conv), "")
					continue
				} else if why != "" {
					err = fmt.Errorf("%v; %s", err, why)
				}
				r.Violate(rule, key, p.FnPos(fn), err.Error())
				continue
			}
			// result = conv(ctor(c)#0[.RGB], ctor(c)#1)
			good, why := false, "result is "+trunc(valKey(v), 200)
			if f, ok := formAt(v, 0); ok {
				if an, ok := f.SingleAtom(); ok {
					at := e.A.get(an)
					// field .R of call:conv(recv, alpha)
					if at != nil && len(at.Args) == 1 {
						if o, ok := at.Args[0].(*Opaque); ok && strings.HasPrefix(o.Fn, "call:") && strings.HasSuffix(o.Fn, "."+d.conv) && len(o.Args) == 2 {
							recv, alpha := valKey(o.Args[0]), valKey(o.Args[1])
							ck := "call:" + sp + "." + d.ctor
							if strings.Contains(recv, ck+"#0(c)") && !strings.Contains(recv, "#1(c)") && alpha == "1*"+ck+"#1(c)" {
								good = true
							} else {
								why = fmt.Sprintf("%s is applied to (%s, %s); required (%s's colour, %s's alpha unchanged)", d.conv, trunc(recv, 100), trunc(alpha, 100), d.ctor, d.ctor)
							}
						}
					}
				}
			}
			if !good {
				if _, ok := sameAsComposition(p, fn, ctor, conv, d.conv == "ToLinearRGBA64"); ok {
					good = true
				}
			}
			r.Check(good, rule, key, p.FnPos(fn), fmt.Sprintf("= %s(c) → .%s(alpha) with the constructor's alpha passed through unchanged", d.ctor, d.conv), why)
		}
	}
}

// sameAsComposition: fn does not call ctor and conv itself, but what it computes
// is, path by path, what conv(ctor(c)) computes when both are read down to the
// shared primitives of package linear (RGBFromEncoded/RGBFromLinear and the two
// RGBA64 conversions, with the transfer functions they are handed): the same
// conditions select the same results.
func sameAsComposition(p *Program, fn, ctor, conv *ssa.Function, convOnRGB bool) (string, bool) {
	prims := opaqueSet(p.Func("linear", "RGBFromEncoded"), p.Func("linear", "RGBFromLinear"),
		p.Method("linear", "RGB", "ToLinearRGBA64"), p.Method("linear", "RGB", "ToEncodedRGBA64"))
	e := NewEngine(p)
	e.Opaque = prims
	args := symArgs(e, fn)
	if len(args) != 1 || len(ctor.Params) != 1 {
		return "", false
	}
	describe := func(outs []Outcome) (map[string]string, bool) {
		m := map[string]string{}
		for _, o := range outs {
			if o.Kind != "return" {
				return nil, false
			}
			var cs []string
			for _, c := range o.St.conds {
				cs = append(cs, c.Key())
			}
			sort.Strings(cs)
			m[strings.Join(cs, " && ")] = valKey(o.Ret)
		}
		return m, true
	}
	got, ok := describe(e.Run(fn, args, nil))
	if !ok {
		return "", false
	}
	want := map[string]string{}
	for _, o := range e.Run(ctor, args, nil) {
		tp, _ := o.Ret.(Tuple)
		if o.Kind != "return" || len(tp) != 2 {
			return "", false
		}
		recv := tp[0]
		if convOnRGB {
			a, isAgg := recv.(*Agg)
			if !isAgg || len(a.Elems) != 1 {
				return "", false
			}
			recv = a.Elems[0]
		}
		var sub map[string]string
		if prims(conv) {
			// the conversion is itself one of the primitives: its application, as a callee would leave it
			var cs []string
			for _, c := range o.St.conds {
				cs = append(cs, c.Key())
			}
			sort.Strings(cs)
			res := e.appOfType("call:"+shortFn(conv), conv.Signature.Results().At(0).Type(), recv, tp[1])
			sub = map[string]string{strings.Join(cs, " && "): valKey(res)}
		} else if sub, ok = describe(e.Run(conv, []Val{recv, tp[1]}, o.St.clone())); !ok {
			return "", false
		}
		for k, v := range sub {
			want[k] = v
		}
	}
	if len(got) != len(want) || len(got) == 0 {
		return fmt.Sprintf("read down to the linear primitives it has %d cases, the composition of the constructor and the conversion %d", len(got), len(want)), false
	}
	for k, v := range want {
		if got[k] != v {
			return fmt.Sprintf("read down to the linear primitives it yields %s where the composition of the constructor and the conversion yields %s", trunc(got[k], 160), trunc(v, 160)), false
		}
	}
	return "", true
}

// checkAlphaNRGBA (C04.alpha): ColorFromNRGBA alpha = A/255, ToNRGBA A = NormalisedTo8Bit(alpha).
func checkAlphaNRGBA(p *Program, r *Report, rule string) {
	for _, sp := range allSpaces {
		fn := p.Func(sp, "ColorFromNRGBA")
		if fn == nil {
			r.Undecide(rule, sp+".ColorFromNRGBA alpha", "-", "not found")
		} else {
			e := wiringEngine(p, false)
			v, err := single(p, e, fn, nil)
			a, ok := formAt(v, 1)
			r.Check(err == nil && ok && a.Equal(formAtom("c.A").Div(formInt(255))), rule, sp+".ColorFromNRGBA alpha", p.FnPos(fn), "alpha = float32(c.A)/255", fmt.Sprintf("alpha is %s (%v)", trunc(valKey(a), 100), err))
		}
		m := p.Method(sp, "Color", "ToNRGBA")
		if m == nil {
			r.Undecide(rule, sp+".Color.ToNRGBA A", "-", "not found")
			continue
		}
		e := wiringEngine(p, true)
		v, err := single(p, e, m, nil)
		a, ok := formAt(v, 3)
		want := e.A.App("call:linear.NormalisedTo8Bit", nil, formAtom("alpha"))
		r.Check(err == nil && ok && a.Equal(want), rule, sp+".Color.ToNRGBA A", p.FnPos(m), "A = NormalisedTo8Bit(alpha), MAX 255 = the decoder's divisor, so A round-trips for all 256 values", fmt.Sprintf("A is %s (%v)", trunc(valKey(a), 100), err))
	}
}
