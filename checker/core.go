package main

import (
	"fmt"
	"go/token"
	"go/types"
	"os"
	"path/filepath"
	"sort"
	"strings"

	"golang.org/x/tools/go/packages"
	"golang.org/x/tools/go/ssa"
	"golang.org/x/tools/go/ssa/ssautil"
)

// ModPath is the module path of the repository under analysis.
const ModPath = "github.com/mandykoh/prism"

// expectedPackages is the number of prism packages confirmed by reading the
// repository; a load that yields fewer is a failure (a static tool only sees
// what was parsed).
const expectedPackages = 18

// Program is the loaded, type-checked and SSA-built repository.
type Program struct {
	Dir     string
	Arch    string
	Fset    *token.FileSet
	All     []*packages.Package          // every package incl. dependencies
	Prism   []*packages.Package          // prism packages only (non-test)
	ByPath  map[string]*packages.Package // import path -> package
	SSA     *ssa.Program
	SSAPkg  map[string]*ssa.Package // import path -> ssa package
	srcFns  []*ssa.Function         // all source functions of prism packages (incl. anonymous)
	fnCount int

	initOnlyCache map[*ssa.Global]*stateFinding
	initReads     map[*ssa.Global]bool
	execCtx       map[*ssa.Function]*execCtx
}

// Load loads /repo (or dir) with full syntax and builds SSA.
func Load(dir, goarch string) (*Program, error) {
	env := append(os.Environ(),
		"GOFLAGS=-mod=mod", "GOPROXY=off", "GOSUMDB=off", "GOWORK=off", "GOTOOLCHAIN=local", "CGO_ENABLED=0")
	if goarch != "" {
		env = append(env, "GOARCH="+goarch)
	}
	fset := token.NewFileSet()
	cfg := &packages.Config{
		Mode:  packages.LoadAllSyntax,
		Dir:   dir,
		Fset:  fset,
		Env:   env,
		Tests: false,
	}
	pkgs, err := packages.Load(cfg, "./...")
	if err != nil {
		return nil, fmt.Errorf("packages.Load: %v", err)
	}
	if len(pkgs) == 0 {
		return nil, fmt.Errorf("no packages loaded from %s", dir)
	}
	var errs []string
	packages.Visit(pkgs, nil, func(p *packages.Package) {
		for _, e := range p.Errors {
			errs = append(errs, e.Error())
		}
	})
	if len(errs) > 0 {
		return nil, fmt.Errorf("type-check/load errors: %s", strings.Join(errs, "; "))
	}
	p := &Program{Dir: dir, Arch: goarch, Fset: fset, ByPath: map[string]*packages.Package{}, SSAPkg: map[string]*ssa.Package{}}
	packages.Visit(pkgs, nil, func(pk *packages.Package) {
		p.All = append(p.All, pk)
		p.ByPath[pk.PkgPath] = pk
	})
	for _, pk := range pkgs {
		if pk.PkgPath == ModPath || strings.HasPrefix(pk.PkgPath, ModPath+"/") {
			p.Prism = append(p.Prism, pk)
		}
	}
	sort.Slice(p.Prism, func(i, j int) bool { return p.Prism[i].PkgPath < p.Prism[j].PkgPath })
	if len(p.Prism) < expectedPackages {
		return nil, fmt.Errorf("only %d prism packages loaded, expected at least %d", len(p.Prism), expectedPackages)
	}
	prog, _ := ssautil.AllPackages(pkgs, ssa.InstantiateGenerics)
	prog.Build()
	p.SSA = prog
	for _, pk := range p.All {
		if sp := prog.Package(pk.Types); sp != nil {
			p.SSAPkg[pk.PkgPath] = sp
		}
	}
	for _, pk := range p.Prism {
		sp := p.SSAPkg[pk.PkgPath]
		if sp == nil {
			return nil, fmt.Errorf("no SSA for %s", pk.PkgPath)
		}
		var fns []*ssa.Function
		for _, m := range sp.Members {
			switch m := m.(type) {
			case *ssa.Function:
				fns = append(fns, m)
			case *ssa.Type:
				for _, t := range []types.Type{m.Type(), types.NewPointer(m.Type())} {
					ms := prog.MethodSets.MethodSet(t)
					for i := 0; i < ms.Len(); i++ {
						if f := prog.MethodValue(ms.At(i)); f != nil && f.Synthetic == "" && f.Pkg == sp {
							fns = append(fns, f)
						}
					}
				}
			}
		}
		seen := map[*ssa.Function]bool{}
		var add func(f *ssa.Function)
		add = func(f *ssa.Function) {
			if f == nil || seen[f] {
				return
			}
			seen[f] = true
			p.srcFns = append(p.srcFns, f)
			for _, a := range f.AnonFuncs {
				add(a)
			}
		}
		sort.Slice(fns, func(i, j int) bool { return fns[i].String() < fns[j].String() })
		for _, f := range fns {
			add(f)
		}
	}
	return p, nil
}

// SrcFuncs returns every source-level function (including closures and the
// package initialisers) of the prism packages.
func (p *Program) SrcFuncs() []*ssa.Function { return p.srcFns }

func (p *Program) pkgPath(short string) string {
	if short == "" || short == "prism" {
		return ModPath
	}
	return ModPath + "/" + short
}

// Func resolves a package-level function through the type-checked package
// scope. short is the path below the module root ("srgb", "meta/icc").
func (p *Program) Func(short, name string) *ssa.Function {
	sp := p.SSAPkg[p.pkgPath(short)]
	if sp == nil {
		return nil
	}
	return sp.Func(name)
}

// Method resolves a method of a named type (value or pointer receiver).
func (p *Program) Method(short, typeName, method string) *ssa.Function {
	pk := p.ByPath[p.pkgPath(short)]
	if pk == nil {
		return nil
	}
	obj, _ := pk.Types.Scope().Lookup(typeName).(*types.TypeName)
	if obj == nil {
		return nil
	}
	for _, t := range []types.Type{obj.Type(), types.NewPointer(obj.Type())} {
		sel := p.SSA.MethodSets.MethodSet(t).Lookup(pk.Types, method)
		if sel != nil {
			return p.SSA.MethodValue(sel)
		}
	}
	return nil
}

// Global resolves a package-level variable.
func (p *Program) Global(short, name string) *ssa.Global {
	sp := p.SSAPkg[p.pkgPath(short)]
	if sp == nil {
		return nil
	}
	return sp.Var(name)
}

// ExtFunc resolves a function of a dependency or the standard library.
func (p *Program) ExtFunc(path, name string) *ssa.Function {
	sp := p.SSAPkg[path]
	if sp == nil {
		return nil
	}
	return sp.Func(name)
}

// Pos renders a position relative to the repository root.
func (p *Program) Pos(pos token.Pos) string {
	if !pos.IsValid() {
		return "-"
	}
	ps := p.Fset.Position(pos)
	rel, err := filepath.Rel(p.Dir, ps.Filename)
	if err != nil || strings.HasPrefix(rel, "..") {
		rel = ps.Filename
	}
	return fmt.Sprintf("%s:%d", rel, ps.Line)
}

// FnPos is the position of a function, falling back to its parent's.
func (p *Program) FnPos(f *ssa.Function) string {
	if f == nil {
		return "-"
	}
	if f.Pos().IsValid() {
		return p.Pos(f.Pos())
	}
	if f.Parent() != nil {
		return p.FnPos(f.Parent())
	}
	return "-"
}

// InstrPos finds the best position for an instruction (many SSA instructions
// have NoPos; fall back to operands and neighbours).
func (p *Program) InstrPos(in ssa.Instruction) string {
	if in == nil {
		return "-"
	}
	if in.Pos().IsValid() {
		return p.Pos(in.Pos())
	}
	var ops []*ssa.Value
	for _, op := range in.Operands(ops) {
		if op != nil && *op != nil && (*op).Pos().IsValid() {
			return p.Pos((*op).Pos())
		}
	}
	if b := in.Block(); b != nil {
		for _, o := range b.Instrs {
			if o.Pos().IsValid() {
				return p.Pos(o.Pos())
			}
		}
		return p.FnPos(b.Parent())
	}
	return "-"
}

// shortFn is a stable, human readable key for a function.
func shortFn(f *ssa.Function) string {
	if f == nil {
		return "<nil>"
	}
	s := f.String()
	s = strings.ReplaceAll(s, ModPath+"/", "")
	s = strings.ReplaceAll(s, ModPath+".", "prism.")
	return s
}

// isPrismFn reports whether f belongs to the module under analysis.
func isPrismFn(f *ssa.Function) bool {
	if f == nil {
		return false
	}
	for f.Parent() != nil {
		f = f.Parent()
	}
	if f.Pkg == nil {
		// synthetic wrappers (method-expression thunks, bound-method closures)
		// of a prism method belong to prism: they only forward to the method
		if f.Synthetic != "" && f.Object() != nil && f.Object().Pkg() != nil {
			pp := f.Object().Pkg().Path()
			return pp == ModPath || strings.HasPrefix(pp, ModPath+"/")
		}
		return false
	}
	pp := f.Pkg.Pkg.Path()
	return pp == ModPath || strings.HasPrefix(pp, ModPath+"/")
}

func isPrismPkg(pk *types.Package) bool {
	if pk == nil {
		return false
	}
	return pk.Path() == ModPath || strings.HasPrefix(pk.Path(), ModPath+"/")
}
