package main

import (
	"fmt"
	"strings"

	"golang.org/x/tools/go/ssa"
)

const parallelPath = "github.com/mandykoh/go-parallel"

// workerSite is one parallel.RunWorkers(parallelism, closure) call reached on
// one path of its enclosing function, together with the abstract
// interpretation of one generic iteration of the closure's loops.
type workerSite struct {
	Parent   *ssa.Function
	Closure  *ssa.Function
	Conds    []*BoolVal // path conditions of the parent at the call
	ParArg   Val        // the parallelism argument
	Pos      string
	Events   []Event // loop facts of the closure
	Err      string  // non-empty when the closure is not of the striped-loop form
	E        *Engine
	ParentSt *State
	Ret      Val // what the parent returns on this path
	// A closure whose body splits into several paths (a helper computing the
	// worker's row band with a case split) yields one site per path: Group
	// identifies the RunWorkers call, CaseConds the closure's path conditions.
	Group     int
	NCases    int
	CaseIdx   int
	CaseConds []*BoolVal
}

// analyseWorkers interprets parent symbolically and every worker closure it
// hands to parallel.RunWorkers.
func analyseWorkers(p *Program, parent *ssa.Function) ([]workerSite, []Outcome, error) {
	e := NewEngine(p)
	outs, err := extract(p, e, parent, nil)
	if err != nil {
		return nil, outs, err
	}
	outs = atLeastAsLarge(e, parent, outs)
	var sites []workerSite
	group := 0
	for _, o := range outs {
		if o.Kind != "return" {
			continue
		}
		for _, ev := range o.St.events {
			if ev.Kind != "call" || ev.Fn != "go-parallel.RunWorkers" && !strings.HasSuffix(ev.Fn, "parallel.RunWorkers") {
				continue
			}
			ws := workerSite{Parent: parent, Conds: o.St.conds, Pos: p.Pos(ev.Pos), E: e, ParentSt: o.St, Ret: o.Ret}
			if len(ev.Args) != 2 {
				ws.Err = "unexpected RunWorkers arguments"
				sites = append(sites, ws)
				continue
			}
			ws.ParArg = ev.Args[0]
			fv, ok := ev.Args[1].(*FuncVal)
			if !ok {
				ws.Err = "worker is not a function literal"
				sites = append(sites, ws)
				continue
			}
			ws.Closure = fv.Fn
			// one generic iteration of the closure's loops
			e.GenericLoops = true
			st := o.St.clone()
			st.events = nil
			st.conds = nil
			args := []Val{e.A.Var("workerNum", fv.Fn.Params[0].Type()), e.A.Var("workerCount", fv.Fn.Params[1].Type())}
			couts := e.call(st, fv.Fn, args, fv.Bindings, 0)
			e.GenericLoops = false
			group++
			ws.Group = group
			bad := ""
			for _, co := range couts {
				if co.Kind != "return" {
					bad = co.Kind + ": " + co.Why + " at " + p.Pos(co.Pos)
				}
			}
			if bad != "" || len(couts) == 0 || len(couts) > 8 {
				if bad == "" {
					bad = fmt.Sprintf("%d paths", len(couts))
				}
				ws.Err = "worker closure is not a pair of counting loops with per-pixel stores only: " + bad
				ws.NCases = 1
				sites = append(sites, ws)
				continue
			}
			for ci, co := range couts {
				c := ws
				c.CaseIdx = ci
				c.NCases = len(couts)
				c.Events = co.St.events
				c.CaseConds = co.St.conds
				sites = append(sites, c)
			}
		}
	}
	return sites, outs, nil
}

// atLeastAsLarge applies the domain of the image statements to the explored paths
// of a function with a destination (draw.Image) and a source (image.Image)
// parameter: the destination is at least as large as the source. A path taken
// only when dst.Bounds() is narrower or lower than src.Bounds() is outside the
// statement and dropped; a condition the premise implies is vacuous.
func atLeastAsLarge(e *Engine, fn *ssa.Function, outs []Outcome) []Outcome {
	var dst, src string
	for _, pa := range fn.Params {
		switch typeString(pa.Type()) {
		case "image/draw.Image", "draw.Image":
			dst = pa.Name()
		case "image.Image":
			src = pa.Name()
		}
	}
	if dst == "" || src == "" {
		return outs
	}
	ext := func(img, ax string) *Form {
		return formAtom("." + ax + "(.Max(invoke:Bounds(" + img + ")))").Sub(formAtom("." + ax + "(.Min(invoke:Bounds(" + img + ")))"))
	}
	premise := []*BoolVal{
		{Op: ">=", A: ext(dst, "X"), B: ext(src, "X")},
		{Op: ">=", A: ext(dst, "Y"), B: ext(src, "Y")},
	}
	var keep []Outcome
	for _, o := range outs {
		drop := false
		var conds []*BoolVal
		for _, c := range o.St.conds {
			plain := *c
			plain.Src, plain.Exact = nil, nil
			if e.refutes(premise, &plain) {
				drop = true
				break
			}
			if e.refutes(premise, plain.Not()) {
				continue // implied by the premise
			}
			conds = append(conds, c)
		}
		if drop {
			continue
		}
		o.St.conds = conds
		keep = append(keep, o)
	}
	return keep
}
