package main

import (
	"fmt"
	"strings"

	"golang.org/x/tools/go/ssa"
)

// C20 — generated primaries matrices and the 3x3 algebra beneath them.
//
// Engine S: every matrix/vector function is extracted as a rational-function
// normal form over symbolic entries and compared with the textbook
// polynomial; Inverse is checked through the identities M·N = N·M = I.

func init() {
	register(&PropertyCheck{ID: "C20", Level: "other", Run: runC20})
}

func runC20(p *Program, r *Report) {
	r.Explanation = "The matrix package's MulV, MulM, Transpose, Dot, MulS and Inverse and ciexyz's primaries-matrix generators are extracted from go/ssa as exact rational-function normal forms over symbolic entries (for all 3x3 matrices at once) and compared with the textbook polynomials: 9+9+9+1+3 entry identities, the Leibniz determinant, M·N = N·M = I (18 identities), panic iff det == 0, and for the generators: T·(1,1,1) = white XYZ, column i parallel to primary i, From = Inverse(To). Decided: the algebra (exact arithmetic), i.e. correctness for every non-degenerate input. (singular) for a zero column and for two equal columns the determinant expression AS WRITTEN reduces to exactly 0.0 by IEEE-exact rewriting, so the documented panic fires — assuming no fused multiply-add contraction (GOAMD64=v1 / amd64 default) and finite entries. Not decided: float64 rounding of the exact identities (the 1e-9 × condition number figure)."
	r.RuleText = "one instance per polynomial identity / structural clause; non-trivial = identities over symbolic entries (each fails if a sign, index or operand is changed)"
	r.Trusted = []string{"go/packages+go/types+go/ssa (x/tools v0.29.0)", "the abstract interpreter and polynomial normal forms (checker/sym*.go, poly.go)"}
	r.Assumptions = []string{"float64 arithmetic approximates the exact rational identities (rounding not analysed)"}
	checkMatrixAlgebra(p, r, "C20")
	checkPure(p, r, "C20.pure", []*ssa.Function{
		p.Method("matrix", "Matrix3", "MulV"), p.Method("matrix", "Matrix3", "MulM"), p.Method("matrix", "Matrix3", "Transpose"),
		p.Method("matrix", "Matrix3", "Inverse"), p.Method("matrix", "Vector3", "MulS"), p.Func("matrix", "Dot"),
		p.Func("ciexyz", "TransformToXYZForXYYPrimaries"), p.Func("ciexyz", "TransformFromXYZForXYYPrimaries")})
	checkPrimariesGenerators(p, r, "C20")
	checkSingularPanics(p, r, "C20.singular")
	r.Floor("C20.pure", 6)
	r.Floor("C20.singular", 6)
	r.Floor("C20.mulv", 3)
	r.Floor("C20.mulm", 9)
	r.Floor("C20.transpose", 9)
	r.Floor("C20.vector", 4)
	r.Floor("C20.inverse", 19)
	r.Floor("C20.primaries", 7)
}

func checkMatrixAlgebra(p *Program, r *Report, pre string) {
	M, V, O := symMat("m"), symVec("v"), symMat("o")

	// MulV
	fn := p.Method("matrix", "Matrix3", "MulV")
	e := NewEngine(p)
	if v, err := single(p, e, fn, nil); err != nil {
		r.Undecide(pre+".mulv", "Matrix3.MulV", p.FnPos(fn), err.Error())
	} else {
		r.SawFn(shortFn(fn))
		got, ok := vec3(v)
		want := matMulV(M, V)
		for i := 0; i < 3 && ok; i++ {
			r.Check(got[i].Equal(want[i]), pre+".mulv", fmt.Sprintf("Matrix3.MulV [%d]", i), p.FnPos(fn),
				"(M v)_"+fmt.Sprint(i)+" = Σ_k m[k]["+fmt.Sprint(i)+"]·v[k]", "component "+fmt.Sprint(i)+" is "+trunc(got[i].String(), 200)+", expected "+want[i].String())
		}
		if !ok {
			r.Undecide(pre+".mulv", "Matrix3.MulV", p.FnPos(fn), "result is not a 3-vector of numbers")
		}
	}

	// MulM
	fn = p.Method("matrix", "Matrix3", "MulM")
	e = NewEngine(p)
	if v, err := single(p, e, fn, nil); err != nil {
		r.Undecide(pre+".mulm", "Matrix3.MulM", p.FnPos(fn), err.Error())
	} else {
		r.SawFn(shortFn(fn))
		got, ok := mat3(v)
		want := matMul(M, O)
		if !ok {
			r.Undecide(pre+".mulm", "Matrix3.MulM", p.FnPos(fn), "result is not a 3x3 matrix of numbers")
		}
		for c := 0; c < 3 && ok; c++ {
			for rr := 0; rr < 3; rr++ {
				r.Check(got[c][rr].Equal(want[c][rr]), pre+".mulm", fmt.Sprintf("Matrix3.MulM [%d][%d]", c, rr), p.FnPos(fn),
					"(M·O)[c][r] = Σ_k m[k][r]·o[c][k]", fmt.Sprintf("entry [%d][%d] is %s, expected %s", c, rr, trunc(got[c][rr].String(), 200), want[c][rr].String()))
			}
		}
	}

	// Transpose
	fn = p.Method("matrix", "Matrix3", "Transpose")
	e = NewEngine(p)
	if v, err := single(p, e, fn, nil); err != nil {
		r.Undecide(pre+".transpose", "Matrix3.Transpose", p.FnPos(fn), err.Error())
	} else {
		r.SawFn(shortFn(fn))
		got, ok := mat3(v)
		if !ok {
			r.Undecide(pre+".transpose", "Matrix3.Transpose", p.FnPos(fn), "result is not a 3x3 matrix")
		}
		for c := 0; c < 3 && ok; c++ {
			for rr := 0; rr < 3; rr++ {
				r.Check(got[c][rr].Equal(M[rr][c]), pre+".transpose", fmt.Sprintf("Matrix3.Transpose [%d][%d]", c, rr), p.FnPos(fn), "T[c][r] = m[r][c]", fmt.Sprintf("entry [%d][%d] is %s", c, rr, got[c][rr].String()))
			}
		}
	}

	// Dot, MulS
	fn = p.Func("matrix", "Dot")
	e = NewEngine(p)
	if v, err := single(p, e, fn, nil); err != nil {
		r.Undecide(pre+".vector", "Dot", p.FnPos(fn), err.Error())
	} else {
		r.SawFn(shortFn(fn))
		v1, v2 := symVec("v1"), symVec("v2")
		want := v1[0].Mul(v2[0]).Add(v1[1].Mul(v2[1])).Add(v1[2].Mul(v2[2]))
		got, ok := v.(*Form)
		r.Check(ok && got.Equal(want), pre+".vector", "Dot", p.FnPos(fn), "Σ_k v1[k]·v2[k]", "Dot is "+valKey(v))
	}
	fn = p.Method("matrix", "Vector3", "MulS")
	e = NewEngine(p)
	if v, err := single(p, e, fn, nil); err != nil {
		r.Undecide(pre+".vector", "Vector3.MulS", p.FnPos(fn), err.Error())
	} else {
		r.SawFn(shortFn(fn))
		got, ok := vec3(v)
		s := formAtom("s")
		for i := 0; i < 3 && ok; i++ {
			r.Check(got[i].Equal(V[i].Mul(s)), pre+".vector", fmt.Sprintf("Vector3.MulS [%d]", i), p.FnPos(fn), "v[i]·s", "component is "+got[i].String())
		}
	}

	// Inverse
	fn = p.Method("matrix", "Matrix3", "Inverse")
	e = NewEngine(p)
	outs, err := extract(p, e, fn, nil)
	if err != nil {
		r.Undecide(pre+".inverse", "Matrix3.Inverse", p.FnPos(fn), err.Error())
		return
	}
	r.SawFn(shortFn(fn))
	var ret, pan *Outcome
	for i := range outs {
		switch outs[i].Kind {
		case "return":
			if ret != nil {
				ret = nil
				break
			}
			ret = &outs[i]
		case "panic":
			pan = &outs[i]
		}
	}
	if ret == nil || len(outs) != 2 {
		r.Violate(pre+".inverse", "Matrix3.Inverse shape", p.FnPos(fn), fmt.Sprintf("expected exactly one returning and one panicking path, found %d paths", len(outs)))
		return
	}
	det := leibnizDet(M)
	// panic iff det == 0
	panOK := pan != nil && len(pan.St.conds) == 1 && pan.St.conds[0].Op == "==" && len(ret.St.conds) == 1 && ret.St.conds[0].Op == "!="
	why := "the only branch must be `det == 0 → panic`"
	if panOK {
		a, _ := pan.St.conds[0].A.(*Form)
		b, _ := pan.St.conds[0].B.(*Form)
		panOK = a != nil && b != nil && ((a.Equal(det) && b.Equal(formInt(0))) || a.Sub(b).Equal(det) || b.Sub(a).Equal(det))
		if !panOK {
			why = "the panic guard tests " + trunc(pan.St.conds[0].Key(), 300) + ", which is not the determinant of M"
		}
	}
	r.Check(panOK, pre+".inverse", "Matrix3.Inverse panics iff det == 0", p.Pos(ret.Pos), "guard is the Leibniz determinant of M compared with 0; the zero branch panics", why)
	N, ok := mat3(ret.Ret)
	if !ok {
		r.Undecide(pre+".inverse", "Matrix3.Inverse result", p.FnPos(fn), "result is not a 3x3 matrix")
		return
	}
	left, right := matMul(M, N), matMul(N, M)
	I := matIdent()
	for c := 0; c < 3; c++ {
		for rr := 0; rr < 3; rr++ {
			r.Check(left[c][rr].Equal(I[c][rr]), pre+".inverse", fmt.Sprintf("M·Inverse(M) [%d][%d]", c, rr), p.FnPos(fn), "= δ_cr as rational functions of the 9 entries", "M·Inverse(M) entry is "+trunc(left[c][rr].String(), 200))
			r.Check(right[c][rr].Equal(I[c][rr]), pre+".inverse", fmt.Sprintf("Inverse(M)·M [%d][%d]", c, rr), p.FnPos(fn), "= δ_cr as rational functions of the 9 entries", "Inverse(M)·M entry is "+trunc(right[c][rr].String(), 200))
		}
	}
}

func checkPrimariesGenerators(p *Program, r *Report, pre string) {
	rule := pre + ".primaries"
	toFn := p.Func("ciexyz", "TransformToXYZForXYYPrimaries")
	fromFn := p.Func("ciexyz", "TransformFromXYZForXYYPrimaries")
	cfx := p.Func("ciexyz", "ColorFromXYY")
	inv := p.Method("matrix", "Matrix3", "Inverse")
	if toFn == nil || fromFn == nil || cfx == nil || inv == nil {
		r.Undecide(rule, "generators", "-", "anchor functions not found")
		return
	}
	r.SawFn(shortFn(toFn))
	r.SawFn(shortFn(fromFn))
	r.SawFn(shortFn(cfx))

	// ColorFromXYY
	e := NewEngine(p)
	if v, err := single(p, e, cfx, nil); err != nil {
		r.Undecide(rule, "ColorFromXYY", p.FnPos(cfx), err.Error())
	} else {
		x, y, Y := formAtom("c.X"), formAtom("c.Y"), formAtom("c.YY")
		want := [3]*Form{x.Mul(Y).Div(y), Y, formInt(1).Sub(x).Sub(y).Mul(Y).Div(y)}
		got, ok := vec3(v)
		good := ok
		for i := 0; i < 3 && ok; i++ {
			if !got[i].Equal(want[i]) {
				good = false
			}
		}
		r.Check(good, rule, "ColorFromXYY", p.FnPos(cfx), "(x·Y/y, Y, (1−x−y)·Y/y)", "ColorFromXYY is "+trunc(valKey(v), 300))
	}

	// To-matrix: interpret fully (Inverse inlined); drop the panic paths (singular input)
	e = NewEngine(p)
	outs, err := extract(p, e, toFn, nil)
	if err != nil {
		r.Undecide(rule, "TransformToXYZ", p.FnPos(toFn), err.Error())
		return
	}
	var rets []Outcome
	for _, o := range outs {
		if o.Kind == "return" {
			rets = append(rets, o)
		}
	}
	if len(rets) != 1 {
		r.Violate(rule, "TransformToXYZ shape", p.FnPos(toFn), fmt.Sprintf("expected one returning path (plus the singular-input panic), found %d returning of %d", len(rets), len(outs)))
		return
	}
	// the only inputs rejected are the exactly singular ones: the returning path carries one
	// condition (the determinant of Inverse is not zero) and every other path is that panic
	{
		good, why := true, ""
		if len(rets[0].St.conds) != 1 || rets[0].St.conds[0].Op != "!=" {
			good, why = false, fmt.Sprintf("the returning path is taken under %d conditions [%s]; required only `det != 0` of Matrix3.Inverse: some non-degenerate primaries (an orientation, a size, a range) are refused", len(rets[0].St.conds), trunc(condKeys(rets[0]), 200))
		}
		for _, o := range outs {
			if o.Kind == "return" {
				continue
			}
			if o.Kind != "panic" || len(o.St.conds) != 1 || len(rets[0].St.conds) != 1 || o.St.conds[0].Key() != rets[0].St.conds[0].Not().Key() {
				good, why = false, fmt.Sprintf("a path ends in %s at %s under [%s], which is not the `det == 0` panic of Matrix3.Inverse: well-formed primaries can be rejected", o.Kind, p.Pos(o.Pos), trunc(condKeys(o), 200))
			}
		}
		r.Check(good, rule, "TransformToXYZ rejects only singular input", p.FnPos(toFn), "one returning path under `det != 0` and one panic under `det == 0`: nothing else is refused", why)
	}
	T, ok := mat3(rets[0].Ret)
	if !ok {
		r.Undecide(rule, "TransformToXYZ", p.FnPos(toFn), "result is not a 3x3 matrix")
		return
	}
	xyz := func(n string) [3]*Form {
		x, y, Y := formAtom(n+".X"), formAtom(n+".Y"), formAtom(n+".YY")
		return [3]*Form{x.Mul(Y).Div(y), Y, formInt(1).Sub(x).Sub(y).Mul(Y).Div(y)}
	}
	W := xyz("whitePoint")
	P := [3][3]*Form{xyz("r"), xyz("g"), xyz("b")}
	one := [3]*Form{formInt(1), formInt(1), formInt(1)}
	tw := matMulV(T, one)
	for i := 0; i < 3; i++ {
		r.Check(tw[i].Equal(W[i]), rule, fmt.Sprintf("To·(1,1,1) = white [%d]", i), p.FnPos(toFn), "row sum equals the white point's XYZ component, as a rational function of the 12 chromaticity inputs", "row sum is not the white point component")
	}
	for k := 0; k < 3; k++ {
		// column k parallel to P[k]: cross products vanish
		par := T[k][0].Mul(P[k][1]).Equal(T[k][1].Mul(P[k][0])) && T[k][1].Mul(P[k][2]).Equal(T[k][2].Mul(P[k][1])) && T[k][0].Mul(P[k][2]).Equal(T[k][2].Mul(P[k][0]))
		r.Check(par, rule, fmt.Sprintf("To column %d ∥ primary %d", k, k), p.FnPos(toFn), "column is a scalar multiple of ColorFromXYY(primary): the unit primary keeps its chromaticity", "column is not parallel to the primary's XYZ")
	}

	// From = Inverse(To(same args))
	e1 := NewEngine(p)
	e1.Opaque = opaqueSet(inv, toFn)
	vFrom, err1 := single(p, e1, fromFn, nil)
	// the To-generator evaluated with the same things uninterpreted (Inverse): what "To(r,g,b,white)"
	// looks like when it is not a call of the public function but its body, reached through a shared helper
	toInline := ""
	{
		e2 := NewEngine(p)
		e2.Opaque = opaqueSet(inv)
		if outs2, err2 := extract(p, e2, toFn, nil); err2 == nil {
			for _, o := range outs2 {
				if o.Kind == "return" && toInline == "" {
					toInline = valKey(o.Ret)
				}
			}
		}
	}
	good := err1 == nil
	why := ""
	if err1 != nil {
		why = err1.Error()
	} else {
		// every entry [c][r] must be index(index(Inverse(X), c), r) with
		// X[c'][r'] = index(index(To(r, g, b, whitePoint), c'), r')
		wantArgs := []string{"{1*r.X, 1*r.Y, 1*r.YY}", "{1*g.X, 1*g.Y, 1*g.YY}", "{1*b.X, 1*b.Y, 1*b.YY}", "{1*whitePoint.X, 1*whitePoint.Y, 1*whitePoint.YY}"}
		for c := 0; c < 3 && good; c++ {
			for rr := 0; rr < 3 && good; rr++ {
				f, ok := formAt(vFrom, c, rr)
				if !ok {
					good, why = false, "result is not a matrix"
					break
				}
				invApp, ok := unIndex2(e1, f, c, rr)
				if !ok || invApp.Fn != "call:(matrix.Matrix3).Inverse" || len(invApp.Args) != 1 {
					good, why = false, fmt.Sprintf("entry [%d][%d] is not the corresponding entry of Inverse(...): %s", c, rr, trunc(f.Key(), 200))
					break
				}
				for c2 := 0; c2 < 3 && good; c2++ {
					for r2 := 0; r2 < 3; r2++ {
						g, ok := formAt(invApp.Args[0], c2, r2)
						if !ok {
							good, why = false, "Inverse argument is not a matrix"
							break
						}
						toApp, ok := unIndex2(e1, g, c2, r2)
						if (!ok || toApp.Fn != "call:ciexyz.TransformToXYZForXYYPrimaries") && toInline != "" && valKey(invApp.Args[0]) == toInline {
							continue // the To-generator's own computation, written out (a shared method or helper inlined)
						}
						if !ok || toApp.Fn != "call:ciexyz.TransformToXYZForXYYPrimaries" || len(toApp.Args) != 4 {
							good, why = false, "Inverse is not applied to TransformToXYZForXYYPrimaries(...): "+trunc(g.Key(), 200)
							break
						}
						for k, a := range toApp.Args {
							if valKey(a) != wantArgs[k] {
								good, why = false, fmt.Sprintf("argument %d of TransformToXYZForXYYPrimaries is %s, expected %s", k, valKey(a), wantArgs[k])
							}
						}
					}
				}
			}
		}
	}
	r.Check(good, rule, "From = Inverse(To(r,g,b,white))", p.FnPos(fromFn), "the XYZ→RGB generator is exactly Inverse of the RGB→XYZ generator on the same arguments in the same order", why)
}

var _ = ssa.NewProgram

// unIndex2 recognises f = index(index(X, c), r) and returns X.
func unIndex2(e *Engine, f *Form, c, r int) (*Opaque, bool) {
	a, ok := f.SingleAtom()
	if !ok {
		return nil, false
	}
	at := e.A.get(a)
	if at == nil || at.Fn != "index" || len(at.Args) != 2 {
		return nil, false
	}
	if i, ok := at.Args[1].(*Form); !ok || !i.Equal(formInt(int64(r))) {
		return nil, false
	}
	mid, ok := at.Args[0].(*Opaque)
	if !ok || mid.Fn != "index" || len(mid.Args) != 2 {
		return nil, false
	}
	if i, ok := mid.Args[1].(*Form); !ok || !i.Equal(formInt(int64(c))) {
		return nil, false
	}
	base, ok := mid.Args[0].(*Opaque)
	return base, ok
}

// checkPure: the function modifies neither its operands (a pointer receiver
// mutated in place) nor package-level state; the algebraic identities are then
// statements about values, valid however often and in whatever order the
// functions are called.
func checkPure(p *Program, r *Report, rule string, fns []*ssa.Function) {
	for _, fn := range fns {
		if fn == nil {
			continue
		}
		r.SawFn(shortFn(fn))
		e := NewEngine(p)
		e.EvalInits = true
		e.TrackWrites = true
		e.MaxForks = 4
		// the other functions of the list are judged on their own: calling them is then harmless
		self := fn
		e.Opaque = func(g *ssa.Function) bool {
			if g == self {
				return false
			}
			for _, o := range fns {
				if o == g {
					return true
				}
			}
			return false
		}
		outs := e.Run(fn, symArgs(e, fn), nil)
		bad, n := "", 0
		for _, o := range outs {
			if o.Kind == "stuck" {
				bad = "not extractable: " + o.Why
			}
			if o.St == nil {
				continue
			}
			for _, ev := range o.St.events {
				if ev.Kind == "write-nonlocal" {
					n++
					what := "its operand " + strings.TrimPrefix(ev.Fn, "*")
					if strings.HasPrefix(ev.Fn, "g:") {
						what = "the package-level variable " + strings.TrimPrefix(ev.Fn, "g:")
					}
					bad = fmt.Sprintf("%s writes to %s: a later call (or the caller) sees a different value — results depend on the call history", shortFn(fn), what)
				}
			}
		}
		if bad != "" && n == 0 {
			r.Undecide(rule, shortFn(fn), p.FnPos(fn), bad)
			continue
		}
		r.Check(bad == "", rule, shortFn(fn), p.FnPos(fn), "writes nothing but its own locals and result (no operand or package-level variable is modified)", bad)
	}
}
