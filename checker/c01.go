package main

import (
	"fmt"
	"go/token"
	"go/types"
	"math/big"
	"strings"

	"golang.org/x/tools/go/ssa"
)

// C01 — decoding matches each space's published transfer function.
// C02 — encoding is clipped, monotone and accurate to table resolution.
// C14 — alpha passes through exactly.

func init() {
	register(&PropertyCheck{ID: "C01", Level: "other", Run: runC01})
	register(&PropertyCheck{ID: "C02", Level: "other", Run: runC02, Arch386: true})
	register(&PropertyCheck{ID: "C14", Level: "other", Run: runC14})
}

var curvePkgs = []string{"srgb", "adobergb", "prophotorgb"}
var allSpaces = []string{"srgb", "adobergb", "prophotorgb", "displayp3"}

// tableSource says which package's tables a space decodes/encodes with.
func tableSource(space string) string {
	if space == "displayp3" {
		return "srgb" // Display P3 uses the sRGB transfer function (by definition)
	}
	return space
}

// builderFacts: the result of interpreting one generic iteration of a table builder.
type builderFacts struct {
	N       int64  // array length
	First   *Form  // first index
	Limit   *Form  // loop limit
	Index   *Form  // store index as a form of k
	Value   Val    // stored value as a form of k
	K       string // atom of the iteration variable
	Err     string
	ArgForm *Form // argument passed to the curve parameter
	Quant   string
}

func analyseBuilder(p *Program, fn *ssa.Function) builderFacts {
	bf := builderFacts{}
	if fn == nil || len(fn.Params) != 1 {
		bf.Err = "builder not found"
		return bf
	}
	at, ok := fn.Signature.Results().At(0).Type().Underlying().(*types.Array)
	if !ok {
		bf.Err = "builder does not return an array"
		return bf
	}
	bf.N = at.Len()
	e := NewEngine(p)
	e.GenericLoops = true
	e.PruneByFacts = true // uint8(i) of a counter confined to [0, 256) by its loop is i
	// quantisers stay symbolic; helper functions the builder delegates to are followed
	e.Opaque = func(f *ssa.Function) bool {
		return f.Pkg != nil && f.Pkg.Pkg.Path() == ModPath+"/linear" && strings.HasPrefix(f.Name(), "NormalisedTo")
	}
	outs := e.Run(fn, []Val{&Opaque{Key: "curve", Type: fn.Params[0].Type()}}, nil)
	if len(outs) != 1 || outs[0].Kind != "return" {
		why := fmt.Sprintf("%d paths", len(outs))
		if len(outs) > 0 {
			why = outs[0].Kind + ": " + outs[0].Why + " at " + p.Pos(outs[0].Pos)
		}
		bf.Err = "builder loop not extractable: " + why
		return bf
	}
	var stores []Event
	for _, ev := range outs[0].St.events {
		if ev.Kind == "loop-store" {
			stores = append(stores, ev)
		}
	}
	if len(stores) != 1 {
		bf.Err = fmt.Sprintf("%d table stores per iteration (exactly one expected)", len(stores))
		return bf
	}
	ev := stores[0]
	k, _ := ev.Args[0].(*Form)
	bf.K, _ = k.SingleAtom()
	bf.First, _ = ev.Args[1].(*Form)
	bf.Limit, _ = ev.Args[2].(*Form)
	bf.Index, _ = ev.Args[3].(*Form)
	bf.Value = ev.Args[4]
	// the stored array must be the one returned
	// decode value: [quant(] call:curve(arg) [)]
	vf, _ := bf.Value.(*Form)
	if vf == nil {
		bf.Err = "stored value is not numeric"
		return bf
	}
	a, okA := vf.SingleAtom()
	if !okA {
		bf.Err = "stored value is " + trunc(vf.String(), 100)
		return bf
	}
	atm := e.A.get(a)
	if atm != nil && strings.HasPrefix(atm.Fn, "call:linear.NormalisedTo") && len(atm.Args) == 1 {
		bf.Quant = strings.TrimPrefix(atm.Fn, "call:linear.")
		inner, _ := atm.Args[0].(*Form)
		if inner == nil {
			bf.Err = "quantiser argument is not numeric"
			return bf
		}
		a, okA = inner.SingleAtom()
		if !okA {
			bf.Err = "quantiser argument is " + trunc(inner.String(), 100)
			return bf
		}
		atm = e.A.get(a)
	}
	if atm == nil || atm.Fn != "call:curve" || len(atm.Args) != 1 {
		bf.Err = "table entry is not curve(f(i)): " + trunc(vf.String(), 100)
		return bf
	}
	bf.ArgForm, _ = atm.Args[0].(*Form)
	if bf.ArgForm == nil {
		bf.Err = "curve argument is not numeric"
	}
	return bf
}

// checkBuilder: the loop covers the whole array, stores at index i the value
// [quant](curve(i/(N-1))).
func checkBuilder(p *Program, r *Report, rule string, fn *ssa.Function, wantN int64, wantQuant string) {
	if fn == nil {
		r.Undecide(rule, "builder", "-", "builder function not found")
		return
	}
	r.SawFn(shortFn(fn))
	key := "lut." + fn.Name()
	bf := analyseBuilder(p, fn)
	if bf.Err != "" {
		r.Undecide(rule, key, p.FnPos(fn), bf.Err)
		return
	}
	k := formAtom(bf.K)
	ok := bf.N == wantN && bf.First.Equal(formInt(0)) && bf.Limit.Equal(formInt(bf.N)) && bf.Index.Equal(k)
	if !ok && bf.N == wantN && bf.First.Equal(formInt(bf.N-1)) && bf.Limit.Equal(formInt(-1)) && bf.Index.Equal(k) {
		ok = true // the same indices, counted down from N−1 to 0 (the summariser only accepts unit steps here)
	}
	r.Check(ok, rule, key+" range", p.FnPos(fn), fmt.Sprintf("fills every index 0..%d of the [%d] array, entry i at index i", bf.N-1, bf.N),
		fmt.Sprintf("array length %d (expected %d), loop covers [%s, %s), stores at index %s", bf.N, wantN, bf.First.Key(), bf.Limit.Key(), bf.Index.Key()))
	want := k.Div(formInt(bf.N - 1))
	r.Check(bf.ArgForm.Equal(want), rule, key+" sample point", p.FnPos(fn), fmt.Sprintf("entry i is the curve at float32(i)/%d: the table's last entry is the curve at exactly 1", bf.N-1),
		fmt.Sprintf("entry i samples the curve at %s; required i/%d (array length − 1) computed by one division", bf.ArgForm.String(), bf.N-1))
	r.Check(bf.Quant == wantQuant, rule, key+" quantiser", p.FnPos(fn), "entry = "+wantQuant+"(curve(·))", "entry is quantised with '"+bf.Quant+"', expected '"+wantQuant+"'")
}

func checkCurves(p *Program, r *Report, ruleDec, ruleEnc string) {
	for _, pk := range curvePkgs {
		dec, enc := discoverCurves(p, pk)
		if ruleDec != "" {
			checkCurve(p, r, ruleDec, pk+" EOTF", dec, eotfSpecs[pk])
		}
		if ruleEnc != "" {
			checkCurve(p, r, ruleEnc, pk+" OETF", enc, oetfSpecs[pk])
		}
	}
}

// discoverCurves finds the decode/encode curve functions of a package through
// the LUT wiring (the function handed to the table builders), not by name.
func discoverCurves(p *Program, pk string) (dec, enc *ssa.Function) {
	if ref, _, _, err := entryTable(p, p.Func(pk, "From8Bit")); err == nil {
		dec = ref.Curve
	}
	if ref, _, _, err := entryTable(p, p.Func(pk, "To8Bit")); err == nil {
		enc = ref.Curve
	}
	return
}

type lutDecl struct {
	Entry, Builder string
	N              int64
	Quant          string
	Decode         bool
}

// the conversion entry points and the builder each one's table must come from
var lutDecls = []lutDecl{
	{"From8Bit", "Build8BitToLinear", 256, "", true},
	{"From16Bit", "Build16BitToLinear", 65536, "", true},
	{"To8Bit", "BuildLinearTo8Bit", 512, "NormalisedTo8Bit", false},
	{"To16Bit", "BuildLinearTo16Bit", 65536, "NormalisedTo16Bit", false},
}

// checkLUTWiring: each table variable is filled once by the matching builder
// applied to the package's own curve; 8- and 16-bit tables of a package use
// the same curve; nothing stores to table elements.
func checkLUTWiring(p *Program, r *Report, rule string, decode bool) {
	for _, pk := range curvePkgs {
		var curve8 *ssa.Function
		for _, d := range lutDecls {
			if d.Decode != decode {
				continue
			}
			fn := p.Func(pk, d.Entry)
			key := pk + "." + d.Entry + " table"
			if fn == nil {
				r.Undecide(rule, key, "-", "conversion entry point not found")
				continue
			}
			ref, _, _, err := entryTable(p, fn)
			if err != nil {
				r.Violate(rule, key, p.FnPos(fn), "the table behind "+pk+"."+d.Entry+" cannot be traced to a builder of linear/lut: "+err.Error())
				continue
			}
			okB := ref.Builder == p.Func("linear/lut", d.Builder)
			okC := ref.Curve != nil && ref.Curve.Pkg == p.SSAPkg[p.pkgPath(pk)]
			if curve8 == nil {
				curve8 = ref.Curve
			}
			same := ref.Curve == curve8
			r.Check(okB && okC && same, rule, key, p.FnPos(fn),
				fmt.Sprintf("reads lut.%s(%s): the package's own curve, same curve as the sibling table", d.Builder, shortFn(ref.Curve)),
				fmt.Sprintf("table is %s; required lut.%s applied to %s's own curve (the same one for the 8- and 16-bit tables)", ref, d.Builder, pk))
		}
	}
	// no element stores into any table anywhere
	bad := ""
	n := 0
	ctx := execContexts(p)
	for _, f := range p.SrcFuncs() {
		if ctx[f].initOnly() {
			continue // package initialisation: nothing can read a table yet
		}
		for _, b := range f.Blocks {
			for _, in := range b.Instrs {
				st, ok := in.(*ssa.Store)
				if !ok {
					continue
				}
				if g := rootGlobal(st.Addr); g != nil && viaElement(st.Addr) && g.Pkg != nil && isColourPkg(g.Pkg.Pkg.Path()) {
					bad = fmt.Sprintf("%s stores to an element of %s at %s", shortFn(f), g.Name(), p.InstrPos(st))
				}
				n++
			}
		}
	}
	r.Check(bad == "", rule, "no element stores into tables", "-", fmt.Sprintf("%d store instructions scanned: none writes an element of a package-level variable of a colour package (tables are only ever assigned whole, from their builder)", n), bad)
}

// rootGlobal follows an address back to the package-level variable it is
// rooted at (through field/index addressing, loads of slices, slicing).
func rootGlobal(v ssa.Value) *ssa.Global {
	for i := 0; i < 32; i++ {
		switch x := v.(type) {
		case *ssa.Global:
			return x
		case *ssa.FieldAddr:
			v = x.X
		case *ssa.IndexAddr:
			v = x.X
		case *ssa.Slice:
			v = x.X
		case *ssa.UnOp:
			if x.Op != token.MUL {
				return nil
			}
			v = x.X
		case *ssa.ChangeType:
			v = x.X
		case *ssa.Phi:
			// all edges must agree
			var g *ssa.Global
			for _, e := range x.Edges {
				if e == ssa.Value(x) {
					continue
				}
				ge := rootGlobal(e)
				if ge == nil {
					return nil
				}
				if g != nil && g != ge {
					return nil
				}
				g = ge
			}
			return g
		default:
			return nil
		}
	}
	return nil
}

// decodeEntryForm extracts pkg.From8Bit / From16Bit: index(table, v).
func checkDecodeEntries(p *Program, r *Report, rule string) {
	for _, pk := range curvePkgs {
		for _, d := range []struct{ fn, builder string }{{"From8Bit", "Build8BitToLinear"}, {"From16Bit", "Build16BitToLinear"}} {
			fn := p.Func(pk, d.fn)
			key := pk + "." + d.fn
			if fn == nil {
				r.Undecide(rule, key, "-", "function not found")
				continue
			}
			r.SawFn(shortFn(fn))
			ref, idx, _, err := entryTable(p, fn)
			if err != nil {
				r.Violate(rule, key, p.FnPos(fn), "decoder is not a single table lookup: "+err.Error())
				continue
			}
			r.Check(idx.Equal(formAtom(fn.Params[0].Name())) && ref.Builder == p.Func("linear/lut", d.builder), rule, key, p.FnPos(fn), "= table[v] of lut."+d.builder+" with v the unmodified argument", "decoder returns "+ref.String()+"["+trunc(idx.String(), 120)+"]; required lut."+d.builder+"(curve)[v] with v unmodified")
		}
	}
}

func runC01(p *Program, r *Report) {
	r.Explanation = "Decided for every code at once from the shape of the code: (curve) the three decode curve functions — discovered through the table wiring, not by name — are extracted as piecewise exact forms and compared, constant by constant, with the published EOTFs (IEC 61966-2-1, Adobe RGB 1998, ROMM RGB), thresholds must lie in the window where the published branches agree to 1e-7, the Pow argument must be formed in float64; (sample) the table builders fill every index i of the 256/65536-entry arrays with curve(float32(i)/(N−1)); (wire) each table variable is filled once from the matching builder applied to its package's own curve, nothing writes table elements, From8Bit/From16Bit return table[v] with v unmodified, Display P3 decodes through sRGB's tables, the colour constructors map channels positionally through their package's decoders. Derived (DESIGN.md §4 C01): error ≤ L·u + u/2 + ε_pow < 3e-7, code 0 ↦ 0, max ↦ 1, 8-bit = 16-bit at 257·v (same real argument, correctly rounded division), strict monotonicity. Not decided: math.Pow's own accuracy and the measured error of any entry."
	r.RuleText = "one instance per curve segment/threshold, per builder clause, per table variable, per decode entry point and per constructor channel; all are comparisons of extracted forms with standards or wiring tables"
	r.Trusted = []string{"go/packages+go/types+go/ssa (x/tools v0.29.0)", "the abstract interpreter and normal forms", "math.Pow is accurate to < 1 ulp", "published transfer functions embedded in the checker"}
	checkCurves(p, r, "C01.curve", "")
	checkBuilder(p, r, "C01.sample", p.Func("linear/lut", "Build8BitToLinear"), 256, "")
	checkBuilder(p, r, "C01.sample", p.Func("linear/lut", "Build16BitToLinear"), 65536, "")
	checkLUTWiring(p, r, "C01.wire", true)
	checkDecodeEntries(p, r, "C01.wire")
	checkOnceSingle(p, r, "C01.wire")
	checkDecodeConstructors(p, r, "C01.ctor")
	// derived bound, printed from the extracted constants
	r.Note("C01.curve", "derived bound", "-", "Lipschitz constants on [0,1]: sRGB 2.4/1.055 = 2.275, Adobe 2.199, ProPhoto 1.8; with u = 2^-24: L·u + u/2 + 2^-53·L < 1.66e-7 < 3e-7")
	r.Floor("C01.curve", 7)
	r.Floor("C01.sample", 6)
	r.Floor("C01.wire", 13)
	r.Floor("C01.ctor", 16)
}

// ---------------------------------------------------------------------------
// constructors (C01.ctor, C14.dec)

// checkDecodeConstructors: ColorFromNRGBA / ColorFromRGBA / ColorFromEncodedColor
// / LineariseColor of the four spaces decode channel-wise through the right tables.
func checkDecodeConstructors(p *Program, r *Report, rule string) {
	for _, sp := range allSpaces {
		src := tableSource(sp)
		t8 := func(ch string) *Form { return nil }
		_ = t8
		lut8 := tableBase(p, src, "From8Bit").Key
		lut16 := tableBase(p, src, "From16Bit").Key

		// ColorFromNRGBA
		fn := p.Func(sp, "ColorFromNRGBA")
		if fn == nil {
			r.Undecide(rule, sp+".ColorFromNRGBA", "-", "not found")
		} else {
			r.SawFn(shortFn(fn))
			e := wiringEngine(p, false)
			v, err := single(p, e, fn, nil)
			if err != nil {
				r.Violate(rule, sp+".ColorFromNRGBA", p.FnPos(fn), err.Error())
			} else {
				for i, ch := range chanNames {
					f, ok := formAt(v, 0, 0, i)
					want := fmt.Sprintf("1*index(%s, 1*c.%s)", lut8, ch)
					r.Check(ok && f.Key() == want, rule, fmt.Sprintf("%s.ColorFromNRGBA %s", sp, ch), p.FnPos(fn), "= "+lut8+"[c."+ch+"]", "channel "+ch+" is "+trunc(valKey(f), 160)+"; required "+want)
				}
				a, ok := formAt(v, 1)
				r.Check(ok && a.Equal(formAtom("c.A").Div(formInt(255))), rule, sp+".ColorFromNRGBA alpha", p.FnPos(fn), "alpha = float32(c.A)/255", "alpha is "+trunc(valKey(a), 120))
			}
		}

		// ColorFromRGBA (premultiplied 8-bit)
		fn = p.Func(sp, "ColorFromRGBA")
		if fn == nil {
			r.Undecide(rule, sp+".ColorFromRGBA", "-", "not found")
		} else {
			r.SawFn(shortFn(fn))
			e := wiringEngine(p, false)
			outs, err := extract(p, e, fn, nil)
			if err != nil {
				r.Violate(rule, sp+".ColorFromRGBA", p.FnPos(fn), err.Error())
			}
			sawZero, sawGeneral := false, false
			for _, o := range outs {
				ac, ok := alphaCaseOf(o, "c.A")
				tp, _ := o.Ret.(Tuple)
				if len(tp) != 2 || !ok {
					r.Violate(rule, sp+".ColorFromRGBA guard", p.Pos(o.Pos), "unexpected guard ["+trunc(condKeys(o), 160)+"]: the only case split of the decoder is on the value of A (A == 0 ↦ zero colour)")
					continue
				}
				a, _ := tp[1].(*Form)
				if ac.zero {
					sawZero = true
					zero := true
					for i := range chanNames {
						f, ok := formAt(tp[0], 0, i)
						if !ok || !f.Equal(formInt(0)) {
							zero = false
						}
					}
					r.Check(zero && a != nil && a.Equal(formInt(0)), rule, sp+".ColorFromRGBA transparent", p.Pos(o.Pos), "A == 0 ↦ zero colour, alpha 0", "transparent pixel decodes to "+trunc(valKey(o.Ret), 120))
					continue
				}
				if !ac.nonZero {
					r.Violate(rule, sp+".ColorFromRGBA guard", p.Pos(o.Pos), "a path un-premultiplies without having excluded A == 0 (division by zero alpha)")
					continue
				}
				if len(ac.sub) == 0 {
					sawGeneral = true
				}
				alpha := formAtom("c.A").Div(formInt(255)).Subst(ac.sub)
				for i, ch := range chanNames {
					f, ok := formAt(tp[0], 0, i)
					want := e.A.App("index", nil, &Opaque{Key: lut8}, formAtom("c."+ch)).Div(alpha)
					r.Check(ok && f.Subst(ac.sub).Equal(want), rule, fmt.Sprintf("%s.ColorFromRGBA %s%s", sp, ch, ac.tag), p.Pos(o.Pos), "= "+lut8+"[c."+ch+"] / alpha", "channel "+ch+" is "+trunc(valKey(f), 160))
				}
				r.Check(a != nil && a.Subst(ac.sub).Equal(alpha), rule, sp+".ColorFromRGBA alpha"+ac.tag, p.Pos(o.Pos), "alpha = float32(c.A)/255", "alpha is "+trunc(valKey(tp[1]), 120))
			}
			r.Check(sawZero && sawGeneral, rule, sp+".ColorFromRGBA cases", p.FnPos(fn), "the A == 0 case and the general case both exist", fmt.Sprintf("zero case found: %v, general case found: %v", sawZero, sawGeneral))
		}

		// ColorFromEncodedColor = RGBFromEncoded(c, From16Bit of the table source)
		fn = p.Func(sp, "ColorFromEncodedColor")
		rfe := p.Func("linear", "RGBFromEncoded")
		if fn == nil || rfe == nil {
			r.Undecide(rule, sp+".ColorFromEncodedColor", "-", "not found")
		} else {
			r.SawFn(shortFn(fn))
			e := wiringEngine(p, false)
			outs, err := extract(p, e, fn, nil)
			if err != nil {
				r.Violate(rule, sp+".ColorFromEncodedColor", p.FnPos(fn), err.Error())
			}
			aAtom := "invoke:RGBA#3(c)"
			sawZero, sawGeneral := false, false
			for _, o := range outs {
				tp, _ := o.Ret.(Tuple)
				ac, ok := alphaCaseOf(o, aAtom)
				if len(tp) != 2 || !ok {
					r.Violate(rule, sp+".ColorFromEncodedColor guard", p.Pos(o.Pos), "guard is ["+trunc(condKeys(o), 160)+"]; the only case split of the decoder is on the value of the colour's own alpha (a == 0 ↦ zero colour)")
					continue
				}
				a, _ := tp[1].(*Form)
				if ac.zero {
					sawZero = true
					zero := a != nil && a.Equal(formInt(0))
					for i := range chanNames {
						f, ok := formAt(tp[0], 0, i)
						if !ok || !f.Equal(formInt(0)) {
							zero = false
						}
					}
					r.Check(zero, rule, sp+".ColorFromEncodedColor transparent", p.Pos(o.Pos), "a == 0 ↦ zero colour, alpha 0", "transparent colour decodes to "+trunc(valKey(o.Ret), 120))
					continue
				}
				if !ac.nonZero {
					r.Violate(rule, sp+".ColorFromEncodedColor guard", p.Pos(o.Pos), "a path un-premultiplies without having excluded a == 0")
					continue
				}
				if len(ac.sub) == 0 {
					sawGeneral = true
				}
				alpha := formAtom(aAtom).Div(formInt(65535)).Subst(ac.sub)
				for i, ch := range chanNames {
					f, ok := formAt(tp[0], 0, i)
					// index(lut16, low 16 bits of channel i) / alpha
					good := false
					got := valKey(f)
					if ok {
						q := f.Subst(ac.sub).Mul(alpha)
						if an, isA := q.SingleAtom(); isA {
							at := e.A.get(an)
							if at != nil && at.Fn == "index" && valKey(at.Args[0]) == lut16 {
								if idx, isF := at.Args[1].(*Form); isF {
									bv := e.BVOf(idx, types.Typ[types.Uint16])
									src16 := fmt.Sprintf("invoke:RGBA#%d(c)", i)
									good = true
									for j, b := range bv.Bits {
										if b != (Bit{Kind: 'a', A: src16, Idx: j}) {
											good = false
										}
									}
								}
							}
						}
					}
					r.Check(good, rule, fmt.Sprintf("%s.ColorFromEncodedColor %s%s", sp, ch, ac.tag), p.Pos(o.Pos), fmt.Sprintf("= %s[uint16(%s)] / alpha", lut16, strings.ToLower(ch)), "channel "+ch+" is "+trunc(got, 200)+fmt.Sprintf("; required %s indexed by the colour's own %s component, divided by alpha", lut16, ch))
				}
				r.Check(a != nil && a.Subst(ac.sub).Equal(alpha), rule, sp+".ColorFromEncodedColor alpha"+ac.tag, p.Pos(o.Pos), "alpha = float32(a)/65535", "alpha is "+trunc(valKey(tp[1]), 120))
			}
			r.Check(sawZero && sawGeneral, rule, sp+".ColorFromEncodedColor cases", p.FnPos(fn), "the a == 0 case and the general case both exist", fmt.Sprintf("zero case found: %v, general case found: %v", sawZero, sawGeneral))
		}
	}
}

var _ = big.NewRat

// alphaCase describes the case of the alpha value a path has selected: every
// path condition must be an (in)equality of the alpha atom with a constant.
type alphaCase struct {
	sub     map[string]*Form // alpha == K on this path
	zero    bool             // alpha == 0
	nonZero bool             // alpha != 0 established (a != 0, or a == K with K != 0)
	tag     string
}

func alphaCaseOf(o Outcome, atom string) (alphaCase, bool) {
	ac := alphaCase{sub: map[string]*Form{}}
	if o.Kind != "return" {
		return ac, false
	}
	want := formAtom(atom)
	for _, c := range o.St.conds {
		a, _ := c.A.(*Form)
		b, _ := c.B.(*Form)
		if a == nil || b == nil {
			return ac, false
		}
		if _, isC := a.Const(); isC {
			a, b = b, a
		}
		k, isC := b.Const()
		if !isC || !a.Equal(want) {
			return ac, false
		}
		switch c.Op {
		case "==":
			ac.sub[atom] = formRat(k)
			if k.Sign() == 0 {
				ac.zero = true
			} else {
				ac.nonZero = true
				ac.tag = " (a == " + k.RatString() + ")"
			}
		case "!=":
			if k.Sign() == 0 {
				ac.nonZero = true
			}
		default:
			return ac, false
		}
	}
	return ac, true
}

func condKeys(o Outcome) string {
	var cs []string
	for _, c := range o.St.conds {
		cs = append(cs, c.Key())
	}
	return strings.Join(cs, " && ")
}

func isColourPkg(path string) bool {
	for _, sp := range allSpaces {
		if path == ModPath+"/"+sp {
			return true
		}
	}
	return false
}

// viaElement: the address is reached through an array/slice element (as
// opposed to a whole variable or a field of a package-level struct).
func viaElement(v ssa.Value) bool {
	for i := 0; i < 32; i++ {
		switch x := v.(type) {
		case *ssa.IndexAddr:
			return true
		case *ssa.FieldAddr:
			v = x.X
		case *ssa.Slice:
			v = x.X
		case *ssa.UnOp:
			v = x.X
		case *ssa.ChangeType:
			v = x.X
		default:
			return false
		}
	}
	return false
}
