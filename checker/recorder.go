package main

import (
	"fmt"
	"go/types"
	"strings"

	"golang.org/x/tools/go/ssa"
)

// Hand-written recording readers (C07 / C19).
//
// The proofs of C07 rest on the library contract of io.TeeReader(r, B): every
// byte a Read delivers is appended to B, in order, nothing else is. A module
// type T may take its place when its own Read method is shown to keep that
// contract. T is a *recorder* when
//
//	T is a struct with exactly one field of an interface type that has Read
//	(the source) and exactly one []byte field (the recording), and on EVERY
//	path of (*T).Read(p):
//	  - the source's Read is invoked exactly once, with p itself;
//	  - the recording becomes append(recording, p[:n]...) for that call's n —
//	    or stays as it is on a path whose conditions say n <= 0;
//	  - (n, err) of that call are returned unchanged;
//	  - no other field is written, nothing else is called.
//
// The contract is decided by interpreting Read on a symbolic receiver. A Read
// that records after an early `if err != nil { return }` (bytes delivered
// together with an error are lost), that records p instead of p[:n], or that
// retries the source, is not a recorder and the loader rules treat the type as
// any other unknown reader.

type recorderInfo struct {
	T        *types.Named
	Read     *ssa.Function
	Src, Rec int
	Why      string // non-empty: T is shaped like a recorder but breaks the contract
}

var recorderCache = map[*types.Named]*recorderInfo{}

// recorderOf returns the recorder description of t (T or *T), or nil when t is
// not shaped like one. info.Why != "" means: shaped like one, contract not kept.
func recorderOf(p *Program, t types.Type) *recorderInfo {
	if pt, ok := t.(*types.Pointer); ok {
		t = pt.Elem()
	}
	named, ok := t.(*types.Named)
	if !ok || named.Obj().Pkg() == nil || !strings.HasPrefix(named.Obj().Pkg().Path(), ModPath) {
		return nil
	}
	if ri, ok := recorderCache[named]; ok {
		return ri
	}
	recorderCache[named] = nil
	st, ok := named.Underlying().(*types.Struct)
	if !ok {
		return nil
	}
	src, rec := -1, -1
	for i := 0; i < st.NumFields(); i++ {
		ft := st.Field(i).Type()
		if types.IsInterface(ft) {
			ms := types.NewMethodSet(ft)
			for k := 0; k < ms.Len(); k++ {
				if ms.At(k).Obj().Name() == "Read" {
					if src >= 0 {
						return nil
					}
					src = i
				}
			}
		}
		if sl, ok := ft.Underlying().(*types.Slice); ok {
			if b, ok := sl.Elem().Underlying().(*types.Basic); ok && b.Kind() == types.Uint8 {
				if rec >= 0 {
					return nil
				}
				rec = i
			}
		}
	}
	if src < 0 || rec < 0 {
		return nil
	}
	short := strings.TrimPrefix(strings.TrimPrefix(named.Obj().Pkg().Path(), ModPath), "/")
	read := p.Method(short, named.Obj().Name(), "Read")
	if read == nil || len(read.Params) != 2 || read.Signature.Results().Len() != 2 {
		return nil
	}
	ri := &recorderInfo{T: named, Read: read, Src: src, Rec: rec}
	recorderCache[named] = ri
	ri.Why = verifyRecorder(p, ri, st)
	return ri
}

func verifyRecorder(p *Program, ri *recorderInfo, stt *types.Struct) string {
	e := NewEngine(p)
	e.EvalInits = true
	st := newState()
	cell := e.newCell("rec", ri.T)
	init := &Agg{Type: ri.T, Elems: make([]Val, stt.NumFields())}
	for i := range init.Elems {
		switch i {
		case ri.Src:
			init.Elems[i] = &Opaque{Key: "src", Type: stt.Field(i).Type()}
		default:
			init.Elems[i] = e.SymVal("rec."+stt.Field(i).Name(), stt.Field(i).Type())
		}
	}
	st.mem[cell] = init
	pv := e.SymVal("p", ri.Read.Params[1].Type())
	psl, _ := pv.(*SliceVal)
	if psl == nil {
		return "Read's parameter is not a byte slice"
	}
	outs := e.Run(ri.Read, []Val{&Ptr{Cell: cell}, pv}, st)
	if len(outs) == 0 {
		return "Read has no path"
	}
	for _, o := range outs {
		where := p.Pos(o.Pos)
		if o.Kind != "return" {
			return fmt.Sprintf("a path of Read ends in %s at %s %s", o.Kind, where, o.Why)
		}
		var call *Event
		for k := range o.St.events {
			ev := &o.St.events[k]
			switch {
			case ev.Kind == "invoke" && ev.Fn == "Read" && valKey(ev.Recv) == "src":
				if call != nil {
					return "Read asks the source more than once on the path returning at " + where + ": what a second call delivers is returned or recorded out of step"
				}
				call = ev
			case ev.Kind == "append" || ev.Kind == "bounds" || ev.Kind == "make":
			default:
				return fmt.Sprintf("Read does something besides forwarding and recording (%s %s) on the path returning at %s", ev.Kind, ev.Fn, where)
			}
		}
		if call == nil {
			return "the path of Read returning at " + where + " does not read from the source"
		}
		if len(call.Args) != 1 || valKey(call.Args[0]) != valKey(pv) {
			return "Read hands the source " + trunc(valKey(Tuple(call.Args)), 60) + " instead of its own buffer p"
		}
		res, _ := call.Res.(Tuple)
		if len(res) != 2 {
			return "the source's Read result is not (n, err)"
		}
		n, _ := res[0].(*Form)
		ret, _ := o.Ret.(Tuple)
		if n == nil || len(ret) != 2 || valKey(ret[0]) != valKey(res[0]) || valKey(ret[1]) != valKey(res[1]) {
			return "Read returns " + trunc(valKey(o.Ret), 80) + " at " + where + ", not the source's (n, err) unchanged"
		}
		fin, _ := o.St.mem[cell].(*Agg)
		if fin == nil || len(fin.Elems) != len(init.Elems) {
			return "the receiver is overwritten as a whole"
		}
		for i := range init.Elems {
			if i == ri.Rec {
				continue
			}
			if valKey(fin.Elems[i]) != valKey(init.Elems[i]) {
				return "Read writes the field " + stt.Field(i).Name()
			}
		}
		got, _ := fin.Elems[ri.Rec].(*SliceVal)
		if got == nil {
			return "the recording field does not hold a slice after Read"
		}
		if valKey(got) == valKey(init.Elems[ri.Rec]) {
			// nothing recorded: only right when this path has n <= 0
			var plain []*BoolVal
			for _, c := range o.St.conds {
				cc := *c
				cc.Src, cc.Exact = nil, nil
				plain = append(plain, &cc)
			}
			if !e.refutes(plain, &BoolVal{Op: ">=", A: n, B: formInt(1)}) {
				return "on the path returning at " + where + " the bytes the source delivered (n may be > 0, e.g. together with an error) are not recorded: they reach the parser but are missing from the replay"
			}
			continue
		}
		okApp := got.Base != nil && got.Base.Fn == "append" && len(got.Base.Args) == 2 && valKey(got.Base.Args[0]) == valKey(init.Elems[ri.Rec]) &&
			got.Lo.Equal(formInt(0)) && got.Len.Equal(e.A.App("len", types.Typ[types.Int], got.Base))
		if okApp {
			piece, _ := got.Base.Args[1].(*SliceVal)
			okApp = piece != nil && piece.Base != nil && psl.Base != nil && piece.Base.Key == psl.Base.Key && piece.Lo.Equal(psl.Lo) && piece.Len.Equal(n)
		}
		if !okApp {
			return "the recording becomes " + trunc(valKey(got), 100) + " at " + where + "; required append(recording, p[:n]...) with the n the source returned"
		}
	}
	return ""
}

// A *forwarder* is a module type whose Read hands every call through to its one
// reader field unchanged — or refuses before reading with (0, non-nil error) —
// and does nothing else (a context-aware or closable wrapper). As the source of
// the tee it is equivalent to the reader it wraps: every byte it delivers is a
// byte the wrapped reader delivered to the same call.
var forwarderCache = map[*types.Named]*recorderInfo{}

func forwarderOf(p *Program, t types.Type) *recorderInfo {
	if pt, ok := t.(*types.Pointer); ok {
		t = pt.Elem()
	}
	named, ok := t.(*types.Named)
	if !ok || named.Obj().Pkg() == nil || !strings.HasPrefix(named.Obj().Pkg().Path(), ModPath) {
		return nil
	}
	if ri, ok := forwarderCache[named]; ok {
		return ri
	}
	forwarderCache[named] = nil
	stt, ok := named.Underlying().(*types.Struct)
	if !ok {
		return nil
	}
	src := -1
	for i := 0; i < stt.NumFields(); i++ {
		ft := stt.Field(i).Type()
		if !types.IsInterface(ft) {
			continue
		}
		ms := types.NewMethodSet(ft)
		for k := 0; k < ms.Len(); k++ {
			if ms.At(k).Obj().Name() == "Read" {
				if src >= 0 {
					return nil
				}
				src = i
			}
		}
	}
	if src < 0 {
		return nil
	}
	short := strings.TrimPrefix(strings.TrimPrefix(named.Obj().Pkg().Path(), ModPath), "/")
	read := p.Method(short, named.Obj().Name(), "Read")
	if read == nil || len(read.Params) != 2 || read.Signature.Results().Len() != 2 {
		return nil
	}
	ri := &recorderInfo{T: named, Read: read, Src: src, Rec: -1}
	e := NewEngine(p)
	e.EvalInits = true
	st := newState()
	cell := e.newCell("fwd", named)
	init := &Agg{Type: named, Elems: make([]Val, stt.NumFields())}
	for i := range init.Elems {
		if i == src {
			init.Elems[i] = &Opaque{Key: "src", Type: stt.Field(i).Type()}
		} else {
			init.Elems[i] = e.SymVal("fwd."+stt.Field(i).Name(), stt.Field(i).Type())
		}
	}
	st.mem[cell] = init
	pv := e.SymVal("p", read.Params[1].Type())
	outs := e.Run(read, []Val{&Ptr{Cell: cell}, pv}, st)
	okAll := len(outs) > 0
	for _, o := range outs {
		if o.Kind != "return" {
			okAll = false
			break
		}
		var call *Event
		n := 0
		for k := range o.St.events {
			ev := &o.St.events[k]
			if ev.Kind == "invoke" && ev.Fn == "Read" && valKey(ev.Recv) == "src" {
				call = ev
				n++
				continue
			}
			if ev.Kind == "invoke" && (ev.Fn == "Err" || ev.Fn == "Done") {
				continue // asking a context whether it is cancelled
			}
			okAll = false
		}
		fin, _ := o.St.mem[cell].(*Agg)
		if fin == nil || valKey(fin) != valKey(init) {
			okAll = false
		}
		ret, _ := o.Ret.(Tuple)
		if len(ret) != 2 {
			okAll = false
			continue
		}
		switch {
		case n == 1 && len(call.Args) == 1 && valKey(call.Args[0]) == valKey(pv):
			res, _ := call.Res.(Tuple)
			if len(res) != 2 || valKey(ret[0]) != valKey(res[0]) || valKey(ret[1]) != valKey(res[1]) {
				okAll = false
			}
		case n == 0:
			f0, _ := ret[0].(*Form)
			if f0 == nil || !f0.Equal(formInt(0)) {
				okAll = false
			}
			if ev, isE := ret[1].(*ErrVal); isE && ev.IsNil {
				okAll = false
			}
		default:
			okAll = false
		}
	}
	if !okAll {
		ri.Why = "its Read is not a plain hand-through of the wrapped reader's Read"
	}
	forwarderCache[named] = ri
	return ri
}

// forwardedReader returns the value a verified forwarder wraps (nil otherwise).
func forwardedReader(p *Program, e *Engine, st *State, v Val) Val {
	ptr, ok := v.(*Ptr)
	if !ok || ptr.Cell == nil || !ptr.Cell.Alloc || len(ptr.Path) != 0 {
		return nil
	}
	ri := forwarderOf(p, ptr.Cell.Type)
	if ri == nil || ri.Why != "" {
		return nil
	}
	cur, _ := e.cellVal(st, ptr.Cell).(*Agg)
	if cur == nil || ri.Src >= len(cur.Elems) {
		return nil
	}
	return cur.Elems[ri.Src]
}
