package main

import "fmt"

func debugPngChain(p *Program) {
	pr := pngRun(p)
	for _, o := range pr.Succ {
		ok, why, tags := pngChain(pr.E, o)
		if ok {
			continue
		}
		fmt.Println("FAIL:", trunc(why, 300))
		for _, t := range tags {
			fmt.Printf("  chain %q eq=%v at %s\n", t.Tag, t.Equal, trunc(t.Off.Key(), 200))
		}
		for _, t := range tagConds(pr.E, o) {
			fmt.Printf("  tag %q eq=%v at %s\n", t.Tag, t.Equal, trunc(t.Off.Key(), 200))
		}
		return
	}
}
