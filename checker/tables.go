package main

import (
	"fmt"
	"strings"

	"golang.org/x/tools/go/ssa"
)

// Look-up tables are identified by what they contain, not by where they live:
// the colour code is interpreted with the package initial state evaluated
// (variable initialisers, declared init functions, functions run under
// sync.Once.Do) and the table builders of linear/lut uninterpreted, so that a
// table read is  index(call:lut.BuildX(func:pkg.curve), i)  whether the table is
// a slice or an array, package-level or behind a pointer, built in init or lazily.

// wiringEngine returns an engine in that configuration. With opaqueQuant the
// clamping quantisers stay uninterpreted calls too.
func wiringEngine(p *Program, opaqueQuant bool) *Engine {
	e := NewEngine(p)
	e.EvalInits, e.RunOnce, e.RunInitFuncs = true, true, true
	lutPkg := p.SSAPkg[p.pkgPath("linear/lut")]
	q := map[*ssa.Function]bool{}
	if opaqueQuant {
		for _, f := range quantFns(p) {
			if f != nil {
				q[f] = true
			}
		}
	}
	e.Opaque = func(f *ssa.Function) bool {
		if q[f] {
			return true
		}
		return lutPkg != nil && f.Pkg == lutPkg && f.Parent() == nil && strings.HasPrefix(f.Name(), "Build")
	}
	return e
}

// tableRef: the builder and the curve a table was made from.
type tableRef struct {
	Builder *ssa.Function
	Curve   *ssa.Function
	Base    *Opaque
}

func (t tableRef) String() string {
	return fmt.Sprintf("%s(%s)", shortFn(t.Builder), shortFn(t.Curve))
}

// tableRefOf decodes the base of a table read.
func tableRefOf(p *Program, base Val) (tableRef, bool) {
	o, ok := base.(*Opaque)
	if !ok || !strings.HasPrefix(o.Fn, "call:") || len(o.Args) != 1 {
		return tableRef{}, false
	}
	fv, ok := o.Args[0].(*FuncVal)
	if !ok {
		return tableRef{}, false
	}
	name := strings.TrimPrefix(o.Fn, "call:")
	lutPkg := p.SSAPkg[p.pkgPath("linear/lut")]
	if lutPkg == nil {
		return tableRef{}, false
	}
	for _, m := range lutPkg.Members {
		if f, ok := m.(*ssa.Function); ok && shortFn(f) == name {
			return tableRef{Builder: f, Curve: fv.Fn, Base: o}, true
		}
	}
	return tableRef{}, false
}

// lookupOf decodes v = index(table, idx).
func lookupOf(p *Program, e *Engine, v Val) (tableRef, *Form, bool) {
	f, ok := v.(*Form)
	if !ok {
		return tableRef{}, nil, false
	}
	an, ok := f.SingleAtom()
	if !ok {
		return tableRef{}, nil, false
	}
	at := e.A.get(an)
	if at == nil || at.Fn != "index" || len(at.Args) != 2 {
		return tableRef{}, nil, false
	}
	idx, _ := at.Args[1].(*Form)
	ref, ok := tableRefOf(p, at.Args[0])
	if !ok || idx == nil {
		return tableRef{}, nil, false
	}
	return ref, idx, true
}

// entryTable interprets a conversion entry point (From8Bit, To16Bit, …) and
// returns the table it reads and the index it reads it at.
func entryTable(p *Program, fn *ssa.Function) (tableRef, *Form, *Engine, error) {
	if fn == nil {
		return tableRef{}, nil, nil, fmt.Errorf("function not found")
	}
	e := wiringEngine(p, true)
	v, err := single(p, e, fn, nil)
	if err != nil {
		return tableRef{}, nil, e, err
	}
	ref, idx, ok := lookupOf(p, e, v)
	if !ok {
		return tableRef{}, nil, e, fmt.Errorf("returns %s, which is not one read of a table built by linear/lut", trunc(valKey(v), 160))
	}
	return ref, idx, e, nil
}

// tableBase returns the base value (for building expected forms) of the table
// behind pkg.entry, e.g. ("srgb", "From8Bit").
func tableBase(p *Program, pkg, entry string) *Opaque {
	ref, _, _, err := entryTable(p, p.Func(pkg, entry))
	if err != nil || ref.Base == nil {
		return &Opaque{Key: "unresolved table of " + pkg + "." + entry}
	}
	return ref.Base
}
