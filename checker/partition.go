package main

import (
	"fmt"
	"math/big"
	"os"
)

// Row partition prover (C10.S1, C11.O3, C15.partition).
//
// A worker (workerNum = w of workerCount = n) visits the rows y = F, F+s, … < E
// of [minY, maxY). The rows of all workers must partition that interval. Two
// shapes are accepted:
//
//   stripes  s = n, F = minY + w, E = maxY        (residue classes mod n)
//   bands    s = 1 and, for the F(w), E(w) of every case of the worker body,
//            F(0) = minY, E(w) = F(w+1) for 0 <= w < n−1, E(n−1) = maxY and
//            F(w) <= E(w): consecutive, gap-free, non-overlapping bands.
//
// The band identities are proved in integer linear arithmetic from the case
// conditions, 0 <= w <= n−1, minY <= maxY, and the axioms of truncated
// division  X = n·(X/n) + X%n,  0 <= X%n <= n−1  for X >= 0.

type rowCase struct {
	F, E, Step *Form
	Conds      []*BoolVal
}

// substDeep replaces atoms, also inside the arguments of idiv/rem atoms.
func (e *Engine) substDeep(f *Form, env map[string]*Form, depth int) *Form {
	if f == nil || depth > 6 {
		return f
	}
	full := map[string]*Form{}
	for a := range f.Atoms() {
		if r, ok := env[a]; ok {
			full[a] = r
			continue
		}
		at := e.A.get(a)
		if at == nil || at.Kind != "app" || (at.Fn != "idiv" && at.Fn != "rem") || len(at.Args) != 2 {
			continue
		}
		x, okX := at.Args[0].(*Form)
		y, okY := at.Args[1].(*Form)
		if !okX || !okY {
			continue
		}
		nx, ny := e.substDeep(x, env, depth+1), e.substDeep(y, env, depth+1)
		if nx.Equal(x) && ny.Equal(y) {
			continue
		}
		full[a] = e.divApp(at.Fn, at, nx, ny)
	}
	if len(full) == 0 {
		return f
	}
	return f.Subst(full)
}

// divApp rebuilds idiv/rem with the obvious simplifications.
func (e *Engine) divApp(fn string, old *Atom, x, y *Form) *Form {
	if c, ok := x.Const(); ok && c.Sign() == 0 {
		return formInt(0)
	}
	if cx, okx := x.ConstInt(); okx {
		if cy, oky := y.ConstInt(); oky && cy != 0 {
			if fn == "idiv" {
				return formInt(cx / cy)
			}
			return formInt(cx % cy)
		}
	}
	// exact division: every term of x carries the factor y (a single atom)
	if ya, ok := y.SingleAtom(); ok {
		q := x.Div(formAtom(ya))
		if d, isC := q.D.constVal(); isC && d.Cmp(big.NewRat(1, 1)) == 0 {
			if fn == "idiv" {
				return q
			}
			return formInt(0)
		}
	}
	return e.A.App(fn, old.Type, x, y)
}

func (e *Engine) substCond(c *BoolVal, env map[string]*Form) *BoolVal {
	a, okA := c.A.(*Form)
	b, okB := c.B.(*Form)
	if !okA || !okB {
		return c
	}
	return &BoolVal{Op: c.Op, A: e.substDeep(a, env, 0), B: e.substDeep(b, env, 0), Src: c.Src, Exact: c.Exact}
}

// divAxioms: facts about the idiv/rem atoms occurring in the given forms.
func (e *Engine) divAxioms(forms []*Form, nonneg func(*Form) bool) []geZero {
	var out []geZero
	seen := map[string]bool{}
	type qr struct{ q, r *Form }
	pairs := map[string]*qr{}
	var walk func(f *Form, depth int)
	walk = func(f *Form, depth int) {
		if f == nil || depth > 4 {
			return
		}
		for a := range f.Atoms() {
			if seen[a] {
				continue
			}
			seen[a] = true
			at := e.A.get(a)
			if at == nil || at.Kind != "app" || (at.Fn != "idiv" && at.Fn != "rem") || len(at.Args) != 2 {
				continue
			}
			x, okX := at.Args[0].(*Form)
			y, okY := at.Args[1].(*Form)
			if !okX || !okY {
				continue
			}
			walk(x, depth+1)
			walk(y, depth+1)
			if !nonneg(x) {
				continue
			}
			k := x.Key() + "|" + y.Key()
			if pairs[k] == nil {
				pairs[k] = &qr{}
			}
			if at.Fn == "idiv" {
				pairs[k].q = formAtom(a)
				q := formAtom(a)
				out = append(out, geZero{q, "X/n >= 0"}, geZero{x.Sub(y.Mul(q)), "n·(X/n) <= X"}, geZero{y.Mul(q).Add(y).Sub(formInt(1)).Sub(x), "X < n·(X/n) + n"})
			} else {
				pairs[k].r = formAtom(a)
				r := formAtom(a)
				out = append(out, geZero{r, "X%n >= 0"}, geZero{y.Sub(formInt(1)).Sub(r), "X%n <= n−1"})
			}
			if p := pairs[k]; p.q != nil && p.r != nil {
				d := x.Sub(y.Mul(p.q)).Sub(p.r)
				out = append(out, geZero{d, "X = n·(X/n) + X%n"}, geZero{d.Neg(), "X = n·(X/n) + X%n"})
			}
		}
	}
	for _, f := range forms {
		walk(f, 0)
	}
	// monotonicity: X1 <= X2 ⇒ X1/n <= X2/n
	var qs []*Atom
	for a := range seen {
		if at := e.A.get(a); at != nil && at.Fn == "idiv" && len(at.Args) == 2 {
			qs = append(qs, at)
		}
	}
	for _, a := range qs {
		for _, b := range qs {
			if a == b || valKey(a.Args[1]) != valKey(b.Args[1]) {
				continue
			}
			xa, _ := a.Args[0].(*Form)
			xb, _ := b.Args[0].(*Form)
			if xa != nil && xb != nil && nonneg(xb.Sub(xa)) {
				out = append(out, geZero{formAtom(b.Key).Sub(formAtom(a.Key)), "X1 <= X2 ⇒ X1/n <= X2/n"})
			}
		}
	}
	return out
}

// proveWith proves target >= 0 from explicit facts plus condition facts.
func (e *Engine) proveWith(target *Form, facts []geZero) bool {
	ok, _ := e.proveGE0(target, facts)
	return ok
}

// rowsPartition decides the partition property for the cases of one worker.
func (e *Engine) rowsPartition(cases []rowCase, minY, maxY *Form) (bool, string, string) {
	if len(cases) == 0 {
		return false, "", "no row loop found"
	}
	w, n := formAtom("workerNum"), formAtom("workerCount")
	// stripes
	striped := true
	for _, c := range cases {
		if !(c.Step.Equal(n) && c.F.Equal(minY.Add(w)) && c.E.Equal(maxY)) {
			striped = false
		}
	}
	if striped {
		return true, "stripes: rows minY + workerNum, step workerCount, < maxY — residue classes mod workerCount partition the rows for every parallelism >= 1", ""
	}
	for _, c := range cases {
		if !c.Step.Equal(formInt(1)) {
			return false, "", fmt.Sprintf("rows start at %s, step %s, end before %s: neither residue classes (start minY+workerNum, step workerCount, end maxY) nor contiguous bands (step 1)", trunc(c.F.String(), 80), trunc(c.Step.String(), 40), trunc(c.E.String(), 80))
		}
	}
	one := formInt(1)
	base := []geZero{{w, "workerNum >= 0"}, {n.Sub(one).Sub(w), "workerNum <= workerCount−1"}, {n.Sub(one), "workerCount >= 1"}, {maxY.Sub(minY), "the rectangle is well-formed (Max.Y >= Min.Y)"}}
	rows := maxY.Sub(minY)
	nonneg := func(f *Form) bool {
		if e.formNonneg(f) {
			return true
		}
		// multiples of the row count and of non-negative worker numbers
		for _, g := range []*Form{rows, rows.Mul(w), rows.Mul(w.Add(one)), rows.Mul(n)} {
			if f.Equal(g) {
				return true
			}
		}
		return false
	}
	factsFor := func(conds []*BoolVal, extra []geZero, targets ...*Form) []geZero {
		fs := append([]geZero(nil), base...)
		fs = append(fs, extra...)
		// coordinate arithmetic is read exactly (image coordinates are far from the limits of int)
		raw := make([]*BoolVal, len(conds))
		for i, c := range conds {
			cc := *c
			cc.Src, cc.Exact = nil, nil
			raw[i] = &cc
		}
		cf := e.factsOf(raw)
		fs = append(fs, cf...)
		forms := append([]*Form(nil), targets...)
		for _, f := range cf {
			forms = append(forms, f.D)
		}
		fs = append(fs, e.divAxioms(forms, nonneg)...)
		return fs
	}
	feasible := func(conds []*BoolVal, extra []geZero) bool {
		for i, c := range conds {
			others := append(append([]*BoolVal(nil), conds[:i]...), conds[i+1:]...)
			fs := factsFor(others, extra)
			nc := *c.Not()
			nc.Src, nc.Exact = nil, nil
			neg := e.factsOf([]*BoolVal{&nc})
			if len(neg) == 0 {
				continue
			}
			all := true
			for _, ng := range neg {
				fs2 := append(append([]geZero(nil), fs...), e.divAxioms([]*Form{ng.D}, nonneg)...)
				if !e.proveWith(ng.D, fs2) {
					all = false
				}
			}
			if all && c.Op != "!=" {
				return false
			}
		}
		return true
	}
	eq := func(d *Form, fs []geZero) bool {
		fs = append(fs, e.divAxioms([]*Form{d}, nonneg)...)
		return e.proveWith(d, fs) && e.proveWith(d.Neg(), fs)
	}
	sub := func(c rowCase, env map[string]*Form) rowCase {
		out := rowCase{F: e.substDeep(c.F, env, 0), E: e.substDeep(c.E, env, 0), Step: c.Step}
		for _, cd := range c.Conds {
			out.Conds = append(out.Conds, e.substCond(cd, env))
		}
		return out
	}
	// P4: F <= E in every case
	for _, c := range cases {
		fs := factsFor(c.Conds, nil, c.E.Sub(c.F))
		if feasible(c.Conds, nil) && !e.proveWith(c.E.Sub(c.F), fs) {
			return false, "", "a worker's band can end before it starts (first row " + trunc(c.F.String(), 80) + ", end " + trunc(c.E.String(), 80) + ")"
		}
	}
	// P1: worker 0 starts at minY
	for _, c := range cases {
		c0 := sub(c, map[string]*Form{"workerNum": formInt(0)})
		if !feasible(c0.Conds, nil) {
			continue
		}
		if os.Getenv("PRISMCHECK_PARTDBG") != "" {
			fmt.Println("P1 case F0 =", c0.F.String())
			for _, cd := range c0.Conds {
				fmt.Println("   cond", cd.Key(), "exact", cd.Exact != nil && *cd.Exact)
			}
			for _, f := range factsFor(c0.Conds, nil, c0.F.Sub(minY)) {
				fmt.Println("   fact", f.D.String(), ">= 0   //", f.Why)
			}
		}
		if !eq(c0.F.Sub(minY), factsFor(c0.Conds, nil, c0.F.Sub(minY))) {
			return false, "", "worker 0 starts at " + trunc(c0.F.String(), 80) + ", not at the first row of the rectangle"
		}
	}
	// P3: the last worker ends at maxY
	for _, c := range cases {
		cl := sub(c, map[string]*Form{"workerNum": n.Sub(one)})
		if !feasible(cl.Conds, nil) {
			continue
		}
		if !eq(cl.E.Sub(maxY), factsFor(cl.Conds, nil, cl.E.Sub(maxY))) {
			return false, "", "the last worker ends at " + trunc(cl.E.String(), 80) + ", not at the end of the rectangle"
		}
	}
	// P2: band w ends where band w+1 starts
	extra := []geZero{{n.Sub(formInt(2)).Sub(w), "workerNum+1 <= workerCount−1"}}
	for _, a := range cases {
		for _, b := range cases {
			b1 := sub(b, map[string]*Form{"workerNum": w.Add(one)})
			conds := append(append([]*BoolVal(nil), a.Conds...), b1.Conds...)
			if !feasible(conds, extra) {
				continue
			}
			d := a.E.Sub(b1.F)
			if !eq(d, factsFor(conds, extra, d)) {
				return false, "", "the band of worker w ends at " + trunc(a.E.String(), 80) + " but the band of worker w+1 starts at " + trunc(b1.F.String(), 80) + ": rows are skipped or visited twice"
			}
		}
	}
	return true, fmt.Sprintf("contiguous bands (%d cases of the band computation): band 0 starts at minY, band w ends where band w+1 starts, the last band ends at maxY, no band is inverted — proved from the case conditions and the laws of truncated division", len(cases)), ""
}
