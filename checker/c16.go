package main

import (
	"fmt"
	"go/types"
	"math/big"
	"os"
	"strings"

	"golang.org/x/tools/go/ssa"
)

// C16 — ICC header fields are decoded exactly as ICC.1 lays them out.
//
// Engine B: readHeader is abstractly interpreted over a symbolic 128-byte
// stream; the bit provenance of every header field on the success path is
// compared with the ICC.1:2010 §7.2 layout table below.

func init() {
	register(&PropertyCheck{ID: "C16", Level: "proof", Run: runC16})
}

// headerRow is one row of the ICC.1:2010 header layout (Table 17).
type headerRow struct {
	Field string // path in icc.Header
	Off   int
	Len   int
	Kind  string // "be" big-endian unsigned, "bit" single bit (Bit = bit index from LSB of the BE word)
	Bit   int
}

var iccHeaderSpec = []headerRow{
	{"ProfileSize", 0, 4, "be", 0},
	{"PreferredCMM", 4, 4, "be", 0},
	{"Version.Major", 8, 1, "be", 0},
	{"Version.MinorAndRev", 9, 1, "be", 0},
	{"DeviceClass", 12, 4, "be", 0},
	{"DataColorSpace", 16, 4, "be", 0},
	{"ProfileConnectionSpace", 20, 4, "be", 0},
	{"PrimaryPlatform", 40, 4, "be", 0},
	{"Embedded", 44, 4, "bit", 0},
	{"DependsOnEmbeddedData", 44, 4, "bit", 1},
	{"DeviceManufacturer", 48, 4, "be", 0},
	{"DeviceModel", 52, 4, "be", 0},
	{"DeviceAttributes", 56, 8, "be", 0},
	{"RenderingIntent", 64, 4, "be", 0},
	{"PCSIlluminant[0]", 68, 4, "be", 0},
	{"PCSIlluminant[1]", 72, 4, "be", 0},
	{"PCSIlluminant[2]", 76, 4, "be", 0},
	{"ProfileCreator", 80, 4, "be", 0},
}

// beBit is the provenance of bit j (from the LSB) of the big-endian value
// stored in bytes [off, off+n) of stream s.
func beBit(s string, off, n, j int) Bit {
	return Bit{Kind: 'a', A: fmt.Sprintf("%s[%d]", s, off+n-1-j/8), Idx: j % 8}
}

// checkBE compares an integer form with "big-endian bytes [off,off+n)".
func checkBE(e *Engine, f *Form, t types.Type, s string, off, n int) (bool, string) {
	bv := e.BVOf(f, t)
	if len(bv.Bits) < 8*n {
		return false, fmt.Sprintf("%s — the field's type holds only %d of the %d bits", bv.Key(), len(bv.Bits), 8*n)
	}
	for j, b := range bv.Bits {
		var want Bit
		if j < 8*n {
			want = beBit(s, off, n, j)
		} else {
			want = Bit{Kind: '0'}
		}
		if b != want {
			return false, bv.Key()
		}
	}
	return true, bv.Key()
}

func wantBE(s string, off, n int) string {
	return fmt.Sprintf("big-endian bytes %s[%d..%d]", s, off, off+n-1)
}

// fieldByPath selects "A.B[2]" from an aggregate value of struct type t.
func fieldByPath(v Val, t types.Type, path string) (Val, types.Type, bool) {
	for _, part := range strings.Split(path, ".") {
		idx := -1
		if i := strings.Index(part, "["); i >= 0 {
			fmt.Sscanf(part[i:], "[%d]", &idx)
			part = part[:i]
		}
		st, ok := t.Underlying().(*types.Struct)
		a, ok2 := v.(*Agg)
		if !ok || !ok2 {
			return nil, nil, false
		}
		found := false
		for i := 0; i < st.NumFields(); i++ {
			if st.Field(i).Name() == part {
				v, t, found = a.Elems[i], st.Field(i).Type(), true
				break
			}
		}
		if !found {
			return nil, nil, false
		}
		if idx >= 0 {
			at, ok := t.Underlying().(*types.Array)
			a, ok2 := v.(*Agg)
			if !ok || !ok2 || idx >= len(a.Elems) {
				return nil, nil, false
			}
			v, t = a.Elems[idx], at.Elem()
		}
	}
	return v, t, true
}

func runC16(p *Program, r *Report) {
	r.Explanation = "Abstract interpretation of (*icc.ProfileReader).readHeader, readDateTimeNumber and the meta/binary helpers over a symbolic header stream with an exact bit-provenance domain (shifts, masks, ors, widenings and comparisons with constants are exact): on the unique success path every header field consists of exactly the input bits that ICC.1:2010 §7.2 assigns to it, the 'acsp' signature at bytes 36..39 is required, exactly 128 bytes are consumed, and every other path returns a non-nil error. Version.String is checked the same way. A discharged row is a statement about all 2^1024 headers."
	r.RuleText = "one obligation per ICC.1 header row (25) + error propagation; each obligation compares extracted bit provenance with the specification table embedded in the checker; all are non-trivial (each fails under a realistic compiling edit, see mutants)"
	r.Trusted = []string{"go/packages+go/types+go/ssa (x/tools v0.29.0)", "the abstract interpreter (checker/sym*.go)", "io.ByteReader.ReadByte and io.ReadFull deliver the next bytes of the stream in order", "time.Date(y, m, d, h, mi, s, ns, loc) semantics", "fmt.Sprintf %d semantics"}

	rule := "C16.row"
	readHeader := p.Method("meta/icc", "ProfileReader", "readHeader")
	hdrObj := p.ByPath[p.pkgPath("meta/icc")]
	if readHeader == nil || hdrObj == nil {
		r.Undecide(rule, "readHeader", "-", "anchor (*ProfileReader).readHeader not found")
		return
	}
	r.SawFn(shortFn(readHeader))
	pos := p.FnPos(readHeader)

	e := NewEngine(p)
	e.FailReads = true
	st := newState()
	stream := &Stream{Name: "hdr"}
	st.pos[stream] = formInt(0)

	// receiver *ProfileReader{reader: stream}, header *Header zeroed
	prT := readHeader.Params[0].Type().(*types.Pointer).Elem()
	prCell := e.newCell("pr", prT)
	prStruct := prT.Underlying().(*types.Struct)
	prVal := &Agg{Type: prT, Elems: make([]Val, prStruct.NumFields())}
	for i := 0; i < prStruct.NumFields(); i++ {
		if isReaderType(prStruct.Field(i).Type()) {
			prVal.Elems[i] = &ReaderVal{S: stream}
		} else {
			prVal.Elems[i] = e.zeroVal(prStruct.Field(i).Type())
		}
	}
	st.mem[prCell] = prVal
	hdrT := readHeader.Params[1].Type().(*types.Pointer).Elem()
	hdrCell := e.newCell("header", hdrT)
	st.mem[hdrCell] = e.zeroVal(hdrT)

	e.PruneByFacts = true
	outs := e.Run(readHeader, []Val{&Ptr{Cell: prCell}, &Ptr{Cell: hdrCell}}, st)
	var succ []Outcome
	nFail, badFail := 0, ""
	for _, o := range outs {
		switch o.Kind {
		case "return":
			ev, _ := o.Ret.(*ErrVal)
			if ev != nil && ev.IsNil {
				succ = append(succ, o)
			} else if ev != nil && !ev.IsNil {
				nFail++
			} else if op, isO := o.Ret.(*Opaque); isO && op.Key != "nil" && (strings.Contains(op.Key, "io.EOF") || strings.Contains(op.Key, "io.ErrUnexpectedEOF")) {
				nFail++ // a sentinel error variable is a non-nil error
			} else if nonNilErrorValue(o.Ret) {
				nFail++ // the address of a freshly built error value (a typed error) is non-nil
			} else {
				badFail = fmt.Sprintf("a path returns %s at %s", valKey(o.Ret), p.Pos(o.Pos))
			}
		default:
			r.Undecide(rule, "readHeader extractable", p.Pos(o.Pos), "header parser not extractable: "+o.Kind+": "+o.Why)
			return
		}
	}
	for _, f := range reachableFnsList(readHeader) {
		r.SawFn(f)
	}
	if len(succ) != 1 {
		r.Violate(rule, "readHeader success-path", pos, fmt.Sprintf("expected exactly one success path, found %d", len(succ)))
		return
	}
	so := succ[0]
	hv := so.St.mem[hdrCell]

	for _, row := range iccHeaderSpec {
		key := "Header." + row.Field
		fv, ft, ok := fieldByPath(hv, hdrT, row.Field)
		if !ok {
			r.Undecide(rule, key, pos, "field not found in icc.Header")
			continue
		}
		switch row.Kind {
		case "be":
			f, isF := fv.(*Form)
			if !isF {
				r.Violate(rule, key, pos, "field is not an integer: "+valKey(fv))
				continue
			}
			ok, got := checkBE(e, f, ft, "hdr", row.Off, row.Len)
			ob := r.Check(ok, rule, key, pos, "= "+wantBE("hdr", row.Off, row.Len), fmt.Sprintf("field %s is built from [%s]; ICC.1 requires %s", row.Field, got, wantBE("hdr", row.Off, row.Len)))
			_ = ob
		case "bit":
			b, isB := fv.(*BoolVal)
			want := beBit("hdr", row.Off, row.Len, row.Bit)
			good := false
			got := valKey(fv)
			if isB && b.Const == nil && (b.Op == "!=" || b.Op == "==" || b.Op == ">") {
				af, _ := b.A.(*Form)
				bf, _ := b.B.(*Form)
				if af != nil && bf != nil {
					if c, isC := bf.ConstInt(); isC {
						bv := e.BVOf(af, types.Typ[types.Uint32])
						got = bv.Key() + " " + b.Op + fmt.Sprint(c)
						// exactly the wanted bit at position 0, zeros elsewhere, compared != 0 (or == 1)
						single := bv.Bits[0] == want
						for _, x := range bv.Bits[1:] {
							if x.Kind != '0' {
								single = false
							}
						}
						// or the wanted bit left in place (value & mask != 0)
						inPlace := true
						for j, x := range bv.Bits {
							if j == row.Bit {
								if x != want {
									inPlace = false
								}
							} else if x.Kind != '0' {
								inPlace = false
							}
						}
						if (single || inPlace) && ((b.Op == "!=" && c == 0) || (b.Op == ">" && c == 0) || (b.Op == "==" && ((single && c == 1) || (inPlace && c == int64(1)<<uint(row.Bit))))) {
							good = true
						}
					}
				}
			}
			r.Check(good, rule, key, pos, fmt.Sprintf("= bit %d (from the least significant) of %s, i.e. %s:%d", row.Bit, wantBE("hdr", row.Off, row.Len), want.A, want.Idx),
				fmt.Sprintf("flag %s is computed as [%s]; ICC.1 requires bit %d counted from the least significant bit of %s (%s:%d)", row.Field, got, row.Bit, wantBE("hdr", row.Off, row.Len), want.A, want.Idx))
		}
	}

	// ProfileID: bytes 84..99 positionally
	idOK, idGot := true, ""
	for k := 0; k < 16; k++ {
		fv, _, ok := fieldByPath(hv, hdrT, fmt.Sprintf("ProfileID[%d]", k))
		f, isF := fv.(*Form)
		if !ok || !isF {
			idOK, idGot = false, "not extractable"
			break
		}
		if a, isA := f.SingleAtom(); !isA || a != fmt.Sprintf("hdr[%d]", 84+k) {
			idOK, idGot = false, fmt.Sprintf("ProfileID[%d] = %s", k, f.Key())
		}
	}
	r.Check(idOK, rule, "Header.ProfileID", pos, "ProfileID[k] = hdr[84+k], k = 0..15, read with a full-read primitive", "ProfileID bytes come from the wrong offsets: "+idGot)

	// CreatedAt: time.Date(BE16[24,26), Month(BE16[26,28)), ..., 0, UTC)
	var dateEv *Event
	for i := range so.St.events {
		if so.St.events[i].Kind == "call" && so.St.events[i].Fn == "time.Date" {
			dateEv = &so.St.events[i]
		}
	}
	dtOK, dtWhy := false, "no time.Date call on the success path"
	if dateEv != nil && len(dateEv.Args) == 8 {
		dtOK, dtWhy = true, ""
		names := []string{"year", "month", "day", "hour", "minute", "second"}
		for k := 0; k < 6; k++ {
			f, isF := dateEv.Args[k].(*Form)
			if !isF {
				dtOK, dtWhy = false, names[k]+" is not a number"
				break
			}
			if ok, got := checkBE(e, f, types.Typ[types.Uint16], "hdr", 24+2*k, 2); !ok {
				dtOK, dtWhy = false, fmt.Sprintf("time.Date %s argument is [%s], required %s", names[k], got, wantBE("hdr", 24+2*k, 2))
				break
			}
		}
		if ns, isF := dateEv.Args[6].(*Form); !isF || !ns.Equal(formInt(0)) {
			dtOK, dtWhy = false, "nanosecond argument is not 0"
		}
		if !strings.Contains(valKey(dateEv.Args[7]), "time.UTC") {
			dtOK, dtWhy = false, "location argument is not time.UTC: "+valKey(dateEv.Args[7])
		}
		// the stored field must be that call's result
		cv, _, ok := fieldByPath(hv, hdrT, "CreatedAt")
		if !ok || valKey(cv) != valKey(dateEv.Res) {
			dtOK, dtWhy = false, "Header.CreatedAt is not the result of that time.Date call"
		}
	}
	r.Check(dtOK, rule, "Header.CreatedAt", pos, "= time.Date(BE16 hdr[24..25], Month(BE16 hdr[26..27]), BE16 [28..29], [30..31], [32..33], [34..35], 0, UTC)", dtWhy)

	// signature: success requires BE32[36,40) == 'acsp'
	sigOK, sigGot := false, "no comparison of bytes 36..39 with 0x61637370 on the success path"
	for _, c := range so.St.conds {
		af, _ := c.A.(*Form)
		bf, _ := c.B.(*Form)
		if af == nil || bf == nil || c.Op != "==" {
			continue
		}
		if _, isC := af.ConstInt(); isC {
			af, bf = bf, af
		}
		if cv, isC := bf.ConstInt(); isC {
			if ok, _ := checkBE(e, af, types.Typ[types.Uint32], "hdr", 36, 4); ok {
				if cv == 0x61637370 {
					sigOK = true
				} else {
					sigGot = fmt.Sprintf("bytes 36..39 are compared with %#x, not 'acsp' 0x61637370", cv)
				}
			}
		}
	}
	r.Check(sigOK, rule, "signature 'acsp'", pos, "success path requires BE32 hdr[36..39] == 0x61637370", sigGot)

	// total consumption
	total := so.St.pos[stream]
	tc, isC := total.ConstInt()
	r.Check(isC && tc == 128, rule, "consumed 128 bytes", pos, "the success path consumes exactly 128 bytes (tag count is then read at offset 128)", fmt.Sprintf("the success path consumes %s bytes; the ICC header is 128 bytes, so every later field would be read at the wrong offset", total.Key()))

	// failure paths
	r.Check(badFail == "" && nFail >= 2, rule, "failure paths return an error", pos, fmt.Sprintf("all %d other paths (a failed read at each of the read sites, or a wrong signature) return a non-nil error", nFail), "failure path does not return a non-nil error: "+badFail+fmt.Sprintf(" (%d failing paths)", nFail))

	// reserved bytes 10,11 and 100..127 feed no field
	// (the fields of the statement's table; a field added next to them — say the iccMAX
	// spectral ranges that live in bytes 100..127 — is outside the statement)
	used := map[string]bool{}
	tableFields := map[string]bool{"ProfileSize": true, "PreferredCMM": true, "Version": true, "DeviceClass": true, "DataColorSpace": true,
		"ProfileConnectionSpace": true, "CreatedAt": true, "PrimaryPlatform": true, "Embedded": true, "DependsOnEmbeddedData": true,
		"DeviceManufacturer": true, "DeviceModel": true, "DeviceAttributes": true, "RenderingIntent": true, "PCSIlluminant": true,
		"ProfileCreator": true, "ProfileID": true}
	if ha, ok := hv.(*Agg); ok {
		if hs, ok := hdrT.Underlying().(*types.Struct); ok && hs.NumFields() == len(ha.Elems) {
			for i := 0; i < hs.NumFields(); i++ {
				if tableFields[hs.Field(i).Name()] {
					collectAtoms(ha.Elems[i], used)
				}
			}
		} else {
			collectAtoms(hv, used)
		}
	} else {
		collectAtoms(hv, used)
	}
	leak := ""
	for a := range used {
		var k int
		if n, _ := fmt.Sscanf(a, "hdr[%d]", &k); n == 1 {
			if k == 10 || k == 11 || k >= 100 || (k >= 36 && k < 40) {
				leak = a
			}
		}
	}
	r.Check(leak == "", rule, "reserved bytes unused", pos, "bytes 10..11, 36..39 and 100..127 feed no exposed field", "reserved/signature byte "+leak+" flows into an exposed field")

	checkVersionString(p, r)
	checkReadProfilePropagation(p, r)
	r.Floor(rule, 24)
}

func collectAtoms(v Val, into map[string]bool) {
	switch v := v.(type) {
	case *Form:
		for a := range v.Atoms() {
			into[a] = true
			// look inside bit-vector atoms
			if strings.HasPrefix(a, "bv<") {
				for _, part := range strings.FieldsFunc(a[3:len(a)-1], func(r rune) bool { return r == '|' }) {
					if i := strings.Index(part, ":"); i > 0 {
						into[part[:i]] = true
					}
				}
			}
		}
	case *BoolVal:
		collectAtoms(v.A, into)
		collectAtoms(v.B, into)
	case *Agg:
		for _, e := range v.Elems {
			collectAtoms(e, into)
		}
	case Tuple:
		for _, e := range v {
			collectAtoms(e, into)
		}
	case *Opaque:
		for _, a := range v.Args {
			collectAtoms(a, into)
		}
	}
}

func reachableFnsList(f *ssa.Function) []string {
	var out []string
	for g := range reachableFns(f) {
		out = append(out, shortFn(g))
	}
	return out
}

// checkVersionString: "%d.%d.%d" of Major, high nibble, low nibble.
func checkVersionString(p *Program, r *Report) {
	rule := "C16.row"
	fn := p.Method("meta/icc", "Version", "String")
	if fn == nil {
		r.Undecide(rule, "Version.String", "-", "anchor Version.String not found")
		return
	}
	r.SawFn(shortFn(fn))
	e := NewEngine(p)
	outs := e.Run(fn, []Val{e.SymVal("pv", fn.Params[0].Type())}, nil)
	if len(outs) != 1 || outs[0].Kind != "return" {
		r.Undecide(rule, "Version.String", p.FnPos(fn), "not extractable")
		return
	}
	sf, ok := outs[0].Ret.(*StrForm)
	if !ok {
		r.Violate(rule, "Version.String", p.FnPos(fn), "does not render three decimal numbers separated by dots: "+trunc(valKey(outs[0].Ret), 200))
		return
	}
	okFmt, why := true, ""
	// expected: dec(major) "." dec(minor) "." dec(bugfix)
	if len(sf.Parts) != 5 {
		okFmt, why = false, "rendering is "+trunc(sf.Key(), 200)+`; required decimal major "." minor "." bugfix`
	}
	want := []struct {
		atom  string
		lo, n int
	}{{"pv.Major", 0, 8}, {"pv.MinorAndRev", 4, 4}, {"pv.MinorAndRev", 0, 4}}
	names := []string{"major", "minor (high nibble)", "bug-fix (low nibble)"}
	for k := 0; okFmt && k < 5; k++ {
		if k%2 == 1 {
			if sv, isS := sf.Parts[k].(*StrVal); !isS || sv.S != "." {
				okFmt, why = false, "separator is "+valKey(sf.Parts[k])+`, required "."`
			}
			continue
		}
		dv, isD := sf.Parts[k].(*DecVal)
		if !isD {
			okFmt, why = false, names[k/2]+" is not rendered as a decimal number: "+valKey(sf.Parts[k])
			continue
		}
		w := want[k/2]
		bv := e.BVOf(dv.X, types.Typ[types.Uint8])
		for j, b := range bv.Bits {
			var wb Bit
			if j < w.n {
				wb = Bit{Kind: 'a', A: w.atom, Idx: w.lo + j}
			} else {
				wb = Bit{Kind: '0'}
			}
			if b != wb {
				okFmt = false
				why = fmt.Sprintf("%s is [%s]; required bits %d..%d of %s", names[k/2], bv.Key(), w.lo+w.n-1, w.lo, w.atom)
				break
			}
		}
	}
	r.Check(okFmt, rule, "Version.String", p.FnPos(fn), "decimal Major \".\" MinorAndRev bits 7..4 \".\" MinorAndRev bits 3..0", why)
}

// checkReadProfilePropagation: a failing header read makes ReadProfile return (nil, err).
func checkReadProfilePropagation(p *Program, r *Report) {
	rule := "C16.row"
	fn := p.Method("meta/icc", "ProfileReader", "ReadProfile")
	rh := p.Method("meta/icc", "ProfileReader", "readHeader")
	rt := p.Method("meta/icc", "ProfileReader", "readTagTable")
	if fn == nil || rh == nil {
		r.Undecide(rule, "ReadProfile propagates header errors", "-", "anchor not found")
		return
	}
	r.SawFn(shortFn(fn))
	e := NewEngine(p)
	e.Opaque = func(f *ssa.Function) bool { return f == rh || f == rt }
	outs := e.Run(fn, []Val{e.SymVal("pr", fn.Params[0].Type())}, nil)
	good, why := true, ""
	seen := 0
	for _, o := range outs {
		if o.Kind != "return" {
			good, why = false, "ReadProfile not extractable: "+o.Why
			continue
		}
		if os.Getenv("PRISMCHECK_TRACE") == "c16row" {
			fmt.Fprintln(os.Stderr, "OUT", o.Kind, valKey(o.Ret))
			for _, c := range o.St.conds {
				fmt.Fprintln(os.Stderr, "   cond", c.Key())
			}
		}
		tp, _ := o.Ret.(Tuple)
		if len(tp) != 2 {
			good, why = false, "unexpected result shape"
			continue
		}
		// does the path assume the header error is non-nil?
		hdrFailed := false
		for _, c := range o.St.conds {
			k := c.Key()
			if strings.Contains(k, "readHeader") && strings.Contains(k, "!=") && strings.Contains(k, "nil") {
				hdrFailed = true
			}
		}
		if hdrFailed {
			seen++
			_, isPtr := tp[0].(*Ptr)
			if isPtr || !strings.Contains(valKey(tp[1]), "readHeader") {
				good, why = false, fmt.Sprintf("when readHeader fails ReadProfile returns (%s, %s); required (nil, that error)", valKey(tp[0]), valKey(tp[1]))
			}
		}
	}
	if seen == 0 && good {
		good, why = false, "no path on which readHeader's error is tested"
	}
	r.Check(good, rule, "ReadProfile propagates header errors", p.FnPos(fn), "readHeader's error is tested and returned with a nil profile", why)
}

var _ = big.NewInt

// nonNilErrorValue: v is, as an error, certainly not nil — an error made on the
// spot, a sentinel, or the address of a composite literal of an error type.
func nonNilErrorValue(v Val) bool {
	switch x := v.(type) {
	case *ErrVal:
		return !x.IsNil
	case *Ptr:
		return x.Cell != nil && x.Cell.Alloc
	}
	return false
}
