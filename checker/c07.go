package main

import (
	"fmt"
	"go/token"
	"go/types"

	"golang.org/x/tools/go/ssa"
)

// C07 — the returned stream replays the complete input.
// C19 — auto-detection behaves like the matching specific loader.
//
// Both are use-set / ownership obligations on the SSA form of the four Load
// functions; see DESIGN.md §4 C07 and C19.

func init() {
	register(&PropertyCheck{ID: "C07", Level: "proof", Run: runC07})
	register(&PropertyCheck{ID: "C19", Level: "proof", Run: runC19})
}

var formatLoaders = []string{"meta/pngmeta", "meta/jpegmeta", "meta/webpmeta"}

func runC07(p *Program, r *Report) {
	r.Explanation = "Use-set / ownership analysis on the SSA form of pngmeta.Load, jpegmeta.Load, webpmeta.Load and autometa.Load: the source reader r flows only into io.TeeReader(r,B) and io.MultiReader(B,r); B is a fresh bytes.Buffer with exactly those two uses; the parser sees only bufio(tee); every return yields that MultiReader; a recover-armed defer dominates every stream read; no goroutines. With the library contracts of TeeReader/bufio/bytes.Buffer/MultiReader these obligations entail that the returned stream replays the complete input on every path (argument in DESIGN.md §4 C07). Decided for all inputs and read schedules because the obligations are about every SSA path, not about sampled executions."
	r.RuleText = "one obligation per (loader, clause); distinct = distinct rule+construct keys; every obligation is non-trivial (it can fail on a compiling edit, see mutants)"
	r.Trusted = []string{"go/packages+go/types+go/ssa (x/tools v0.29.0)", "io.TeeReader writes every byte it returns to the writer before returning it", "bufio.Reader reads only from its underlying reader", "bytes.Buffer is an unbounded FIFO", "io.MultiReader drains its readers in order", "the source re-reports its I/O error when read again"}
	r.Assumptions = []string{"caller-supplied io.Reader obeys the io.Reader contract"}
	for _, short := range formatLoaders {
		checkFormatLoader(p, r, "C07", short)
	}
	checkAutoLoader(p, r, "C07")
	r.Floor("C07.tee", 3)
	r.Floor("C07.buffer", 3)
	r.Floor("C07.only-through-tee", 3)
	r.Floor("C07.order", 3)
	r.Floor("C07.all-returns", 3)
	r.Floor("C07.recover-armed", 3)
	r.Floor("C07.no-panic-outside", 3)
	r.Floor("C07.no-goroutine", 4)
	r.Floor("C07.auto", 5)
}

func runC19(p *Program, r *Report) {
	r.Explanation = "SSA obligations on autometa.Load (loader table identity and order, whole-table iteration, stream chaining through the previous loader's replay stream, verbatim return of the first success, exhaustion return) plus re-evaluation of C07's obligations on the same tree as premises: candidate k sees the original bytes from the first byte, the first success is returned unmodified, and the final stream replays everything."
	r.RuleText = "one obligation per clause of autometa.Load + C07 premises; distinct = distinct rule+construct keys"
	r.Trusted = []string{"go/packages+go/types+go/ssa (x/tools v0.29.0)", "library contracts listed under C07"}
	checkAutoLoader(p, r, "C19")
	// premises: C07 on the same tree (re-evaluated, not read from evidence)
	sub := NewReport("C07", "proof")
	for _, short := range formatLoaders {
		checkFormatLoader(p, sub, "C07", short)
	}
	for _, ob := range sub.Obls {
		ob.Rule = "C19.premise-" + ob.Rule
		ob.Key = "C19.premise-" + ob.Key
		r.Obls = append(r.Obls, ob)
	}
	for f := range sub.Functions {
		r.SawFn(f)
	}
	r.Floor("C19.auto", 6)
	r.Floor("C19.premise-C07.tee", 3)
	r.Floor("C19.premise-C07.all-returns", 3)
}

// checkFormatLoader discharges the per-loader obligations of C07.
func checkFormatLoader(p *Program, r *Report, pre, short string) {
	L := p.Func(short, "Load")
	key := short + ".Load"
	if L == nil || len(L.Params) != 1 {
		r.Undecide(pre+".tee", key, "-", "anchor function Load(r io.Reader) not found")
		return
	}
	r.SawFn(shortFn(L))
	rp := L.Params[0]
	pos := p.FnPos(L)

	// --- locate the single TeeReader and MultiReader calls
	var tee, multi *ssa.Call
	var calls []*ssa.Call
	hasGo := false
	for _, b := range L.Blocks {
		for _, in := range b.Instrs {
			switch in := in.(type) {
			case *ssa.Call:
				calls = append(calls, in)
				if _, ok := callTo(in, "io", "TeeReader"); ok {
					if tee != nil {
						r.Violate(pre+".tee", key, p.InstrPos(in), "more than one io.TeeReader call")
					}
					tee = in
				}
				if _, ok := callTo(in, "io", "MultiReader"); ok {
					if multi != nil {
						r.Violate(pre+".order", key, p.InstrPos(in), "more than one io.MultiReader call")
					}
					multi = in
				}
			case *ssa.Go:
				hasGo = true
			}
		}
	}
	if tee == nil {
		r.Violate(pre+".tee", key, pos, "no io.TeeReader(r, B) call: consumed bytes are not recorded for replay")
		return
	}
	if multi == nil {
		r.Violate(pre+".order", key, pos, "no io.MultiReader(B, r) call: nothing replays the consumed prefix")
		return
	}

	// --- B: the buffer
	bval := stripIface(tee.Call.Args[1])
	balloc, _ := bval.(*ssa.Alloc)
	if balloc == nil || !namedIs(balloc.Type(), "bytes", "Buffer") {
		r.Violate(pre+".buffer", key, p.InstrPos(tee), "second argument of io.TeeReader is not a fresh *bytes.Buffer allocation")
		return
	}

	// --- MultiReader arguments
	elems, ok := sliceLitElems(multi.Call.Args[0])
	if !ok {
		r.Undecide(pre+".order", key, p.InstrPos(multi), "io.MultiReader arguments are not a literal argument list")
		return
	}
	orderOK := len(elems) == 2 && stripIface(elems[0]) == ssa.Value(balloc) && elems[1] == ssa.Value(rp)
	r.Check(orderOK, pre+".order", key, p.InstrPos(multi),
		"io.MultiReader(B, r): buffer first, then the rest of the source, nothing else",
		fmt.Sprintf("io.MultiReader arguments are %s; required exactly (rewind buffer, source reader) in that order", describeVals(elems, balloc, rp)))

	// --- obligation 1: uses of r
	teeOK := tee.Call.Args[0] == ssa.Value(rp)
	var stray []string
	for _, u := range refs(rp) {
		switch u := u.(type) {
		case *ssa.Call:
			if u == tee && teeOK {
				continue
			}
		case *ssa.Store:
			// the varargs slot of MultiReader
			if ia, ok := u.Addr.(*ssa.IndexAddr); ok && u.Val == ssa.Value(rp) {
				if sl, ok := multi.Call.Args[0].(*ssa.Slice); ok && ia.X == sl.X {
					continue
				}
			}
		}
		stray = append(stray, fmt.Sprintf("%s (%s)", u.String(), p.InstrPos(u)))
	}
	r.Check(teeOK && len(stray) == 0, pre+".tee", key, p.InstrPos(tee),
		"source reader r is used only as io.TeeReader(r, B) source and as the last io.MultiReader argument",
		fmt.Sprintf("source reader r has uses behind the tee's back: %v (teeSourceIsR=%v): bytes read there are missing from the replay", stray, teeOK))

	// --- obligation 1b: uses of B
	stray = nil
	for _, u := range refs(balloc) {
		mi, ok := u.(*ssa.MakeInterface)
		if !ok {
			if st, ok := u.(*ssa.Store); ok && st.Addr == ssa.Value(balloc) {
				continue // zero-initialisation of the composite literal
			}
			stray = append(stray, fmt.Sprintf("%s (%s)", u.String(), p.InstrPos(u)))
			continue
		}
		for _, uu := range refs(mi) {
			switch uu := uu.(type) {
			case *ssa.Call:
				if uu == tee && tee.Call.Args[1] == ssa.Value(mi) {
					continue
				}
			case *ssa.Store:
				if ia, ok := uu.Addr.(*ssa.IndexAddr); ok {
					if sl, ok := multi.Call.Args[0].(*ssa.Slice); ok && ia.X == sl.X {
						continue
					}
				}
			}
			stray = append(stray, fmt.Sprintf("%s (%s)", uu.String(), p.InstrPos(uu)))
		}
	}
	r.Check(len(stray) == 0, pre+".buffer", key, p.InstrPos(balloc),
		"rewind buffer B is a fresh *bytes.Buffer used only as the tee's sink and the MultiReader's first reader",
		fmt.Sprintf("rewind buffer has other uses %v: it may be drained, reset or truncated before replay", stray))

	// --- obligation 2: the tee is consumed only through one bufio reader handed to in-module parsers
	var parser *ssa.Function
	var parserCall *ssa.Call
	otOK := true
	var otWhy string
	for _, u := range refs(tee) {
		c, ok := u.(*ssa.Call)
		f := staticCallee(c)
		if !ok || !(fnIs(f, "bufio", "NewReader") || fnIs(f, "bufio", "NewReaderSize")) {
			otOK = false
			otWhy = fmt.Sprintf("tee reader is used by %s (%s), not only wrapped in one bufio reader", u.String(), p.InstrPos(u))
			continue
		}
		// uses of the bufio reader
		var walk func(v ssa.Value)
		walk = func(v ssa.Value) {
			for _, uu := range refs(v) {
				switch uu := uu.(type) {
				case *ssa.MakeInterface:
					walk(uu)
				case *ssa.ChangeInterface:
					walk(uu)
				case *ssa.Call:
					cf := staticCallee(uu)
					if cf != nil && isPrismFn(cf) {
						if parser != nil && parser != cf {
							otOK = false
							otWhy = "buffered tee handed to more than one parser"
						}
						parser, parserCall = cf, uu
						continue
					}
					otOK = false
					otWhy = fmt.Sprintf("buffered tee reader used by %s (%s)", uu.String(), p.InstrPos(uu))
				default:
					otOK = false
					otWhy = fmt.Sprintf("buffered tee reader escapes through %s (%s)", uu.String(), p.InstrPos(uu))
				}
			}
		}
		walk(c)
	}
	if parser == nil && otOK {
		otOK = false
		otWhy = "no in-module parser receives the buffered tee reader"
	}
	r.Check(otOK, pre+".only-through-tee", key, p.InstrPos(tee),
		fmt.Sprintf("the parser %s reads only bufio(tee(r, B))", shortFn(parser)), otWhy)

	// --- obligation 4: every return yields the MultiReader as result #1
	retOK := true
	nret := 0
	var retWhy string
	for _, b := range L.Blocks {
		for _, in := range b.Instrs {
			ret, ok := in.(*ssa.Return)
			if !ok {
				continue
			}
			nret++
			if len(ret.Results) != 3 || resolveResult(ret.Results[1]) != ssa.Value(multi) {
				retOK = false
				retWhy = fmt.Sprintf("return at %s yields %s as the stream instead of io.MultiReader(B, r)", p.InstrPos(ret), valStr(ret.Results, 1))
			}
		}
	}
	if nret == 0 {
		retOK, retWhy = false, "function has no return"
	}
	r.Check(retOK, pre+".all-returns", key, pos,
		fmt.Sprintf("all %d return instructions yield the MultiReader (non-nil) whatever err is", nret), retWhy)

	// --- obligation 6: no other calls in L
	npOK := true
	var npWhy string
	for _, c := range calls {
		f := staticCallee(c)
		switch {
		case c == tee, c == multi, c == parserCall:
		case fnIs(f, "bufio", "NewReader"), fnIs(f, "bufio", "NewReaderSize"):
		default:
			npOK = false
			npWhy = fmt.Sprintf("unexpected call %s at %s in the loader outside the recover-guarded parser", c.String(), p.InstrPos(c))
		}
	}
	r.Check(npOK, pre+".no-panic-outside", key, pos,
		"the loader itself only constructs TeeReader, bufio reader, MultiReader and calls the parser", npWhy)

	// --- obligation 7: no goroutines on the path
	reach := reachableFns(L)
	for f := range reach {
		r.SawFn(shortFn(f))
		for _, b := range f.Blocks {
			for _, in := range b.Instrs {
				if _, ok := in.(*ssa.Go); ok {
					hasGo = true
					npWhy = p.InstrPos(in)
				}
			}
		}
	}
	r.Check(!hasGo, pre+".no-goroutine", key, pos,
		fmt.Sprintf("no go statement in the %d prism functions reachable from the loader", len(reach)),
		"go statement reachable from the loader ("+npWhy+"): the rewind buffer could be shared")

	// --- obligation 5: recover armed before the first stream read
	if parser != nil {
		checkRecoverArmed(p, r, pre+".recover-armed", short+"."+parser.Name(), parser)
	} else {
		r.Undecide(pre+".recover-armed", key, pos, "parser not identified")
	}
}

// resolveResult follows a value through loads of never-reassigned locals so
// that `x := io.MultiReader(..); return md, x, err` is recognised.
func resolveResult(v ssa.Value) ssa.Value {
	for i := 0; i < 4; i++ {
		u, ok := v.(*ssa.UnOp)
		if !ok || u.Op != token.MUL {
			return v
		}
		al, ok := u.X.(*ssa.Alloc)
		if !ok {
			return v
		}
		var stored ssa.Value
		n := 0
		for _, rr := range refs(al) {
			if st, ok := rr.(*ssa.Store); ok && st.Addr == ssa.Value(al) {
				stored = st.Val
				n++
			}
		}
		if n != 1 {
			return v
		}
		v = stored
	}
	return v
}

func valStr(vs []ssa.Value, i int) string {
	if i >= len(vs) {
		return "<missing>"
	}
	return vs[i].String() + " (" + vs[i].Name() + ")"
}

func describeVals(vs []ssa.Value, b *ssa.Alloc, rp *ssa.Parameter) string {
	s := "("
	for i, v := range vs {
		if i > 0 {
			s += ", "
		}
		switch {
		case stripIface(v) == ssa.Value(b):
			s += "rewind buffer"
		case v == ssa.Value(rp):
			s += "source reader"
		default:
			s += v.String()
		}
	}
	return s + ")"
}

// cannotPanicOnInput is a conservative syntactic test that a function (and,
// one level down, its prism callees) contains nothing that can panic
// depending on input: no interface method calls, no indexing/slicing of
// slices, no unchecked type assertions, no integer division, no explicit
// panic, no calls out of the module.
func cannotPanicOnInput(f *ssa.Function, depth int) (bool, string) {
	if f == nil || len(f.Blocks) == 0 {
		return false, "no body"
	}
	for _, b := range f.Blocks {
		for _, in := range b.Instrs {
			switch in := in.(type) {
			case *ssa.Call:
				if in.Call.IsInvoke() {
					return false, "interface method call " + in.String()
				}
				cf := staticCallee(in)
				if cf == nil {
					if _, ok := in.Call.Value.(*ssa.Builtin); ok {
						continue
					}
					return false, "dynamic call " + in.String()
				}
				if !isPrismFn(cf) || depth <= 0 {
					return false, "call " + in.String()
				}
				if ok, why := cannotPanicOnInput(cf, depth-1); !ok {
					return false, why
				}
			case *ssa.Panic:
				return false, "explicit panic"
			case *ssa.Index:
				return false, "index expression"
			case *ssa.IndexAddr:
				if _, ok := in.X.Type().Underlying().(*types.Slice); ok {
					return false, "slice indexing"
				}
				if _, ok := constInt(in.Index); !ok {
					return false, "non-constant array index"
				}
			case *ssa.Slice:
				if _, ok := in.X.Type().Underlying().(*types.Pointer); !ok || in.Low != nil || in.High != nil {
					return false, "slice expression"
				}
			case *ssa.TypeAssert:
				if !in.CommaOk {
					return false, "unchecked type assertion"
				}
			case *ssa.BinOp:
				if in.Op == token.QUO || in.Op == token.REM {
					if b, ok := in.Type().Underlying().(*types.Basic); ok && b.Info()&types.IsInteger != 0 {
						return false, "integer division"
					}
				}
			case *ssa.Go, *ssa.Defer:
				return false, "go/defer"
			}
		}
	}
	return true, ""
}

// recoverClosure checks that fn is a deferred closure of the form
//
//	func() { if r := recover(); r != nil { ...; err = <non-nil> } }
//
// that never re-panics, and returns the free variables it stores to.
func recoverClosure(fn *ssa.Function) (ok bool, why string, stores []*ssa.FreeVar) {
	hasRecover := false
	for _, b := range fn.Blocks {
		for _, in := range b.Instrs {
			if isBuiltinCall(in, "recover") {
				hasRecover = true
			}
			switch in := in.(type) {
			case *ssa.Panic:
				return false, "deferred function re-panics", nil
			case *ssa.Store:
				if fv, ok := in.Addr.(*ssa.FreeVar); ok {
					stores = append(stores, fv)
				}
			case *ssa.Call:
				if isBuiltinCall(in, "recover") {
					continue
				}
				if b, ok := in.Call.Value.(*ssa.Builtin); ok && b.Name() == "panic" {
					return false, "deferred function re-panics", nil
				}
			}
		}
	}
	if !hasRecover {
		return false, "deferred function does not call recover()", nil
	}
	return true, "", stores
}

// checkRecoverArmed discharges "a defer of a recovering closure that sets the
// named error result is established before anything that can panic on input".
func checkRecoverArmed(p *Program, r *Report, rule, key string, fn *ssa.Function) bool {
	r.SawFn(shortFn(fn))
	pos := p.FnPos(fn)
	var def *ssa.Defer
	for _, b := range fn.Blocks {
		for _, in := range b.Instrs {
			d, ok := in.(*ssa.Defer)
			if !ok {
				continue
			}
			mc, ok := d.Call.Value.(*ssa.MakeClosure)
			if !ok {
				continue
			}
			if ok, _, _ := recoverClosure(mc.Fn.(*ssa.Function)); ok && def == nil {
				def = d
			}
		}
	}
	if def == nil {
		r.Violate(rule, key, pos, "no deferred recover() in the parser: a panic on hostile input escapes the loader and no stream is returned")
		return false
	}
	mc := def.Call.Value.(*ssa.MakeClosure)
	cl := mc.Fn.(*ssa.Function)
	_, _, stores := recoverClosure(cl)
	// the closure must assign the named error result
	errSet := false
	for _, fv := range stores {
		for i, cfv := range cl.FreeVars {
			if cfv != fv {
				continue
			}
			if al, ok := mc.Bindings[i].(*ssa.Alloc); ok {
				if isNamedResultAlloc(fn, al) && types.Identical(al.Type().(*types.Pointer).Elem(), types.Universe.Lookup("error").Type()) {
					errSet = true
				}
			}
		}
	}
	if !errSet {
		r.Violate(rule, key, p.InstrPos(def), "the recovering closure does not assign the function's named error result: a recovered panic would be reported as success")
		return false
	}
	// every instruction that can panic must be dominated by the defer
	entry := fn.Blocks[0]
	if def.Block() != entry {
		// must dominate all blocks containing risky instructions
	}
	var bad string
	for _, b := range fn.Blocks {
		for _, in := range b.Instrs {
			if in == ssa.Instruction(def) {
				continue
			}
			if dominatesInstr(def, in) {
				continue
			}
			// executed (possibly) before the defer: must be harmless
			switch in := in.(type) {
			case *ssa.Call:
				if in.Call.IsInvoke() {
					bad = fmt.Sprintf("interface call %s at %s runs before the recover is armed", in.String(), p.InstrPos(in))
					break
				}
				cf := staticCallee(in)
				if cf == nil {
					if _, ok := in.Call.Value.(*ssa.Builtin); ok {
						continue
					}
					bad = fmt.Sprintf("dynamic call at %s runs before the recover is armed", p.InstrPos(in))
					break
				}
				if ok, why := cannotPanicOnInput(cf, 2); !ok {
					bad = fmt.Sprintf("call %s at %s runs before the recover is armed and may panic (%s)", shortFn(cf), p.InstrPos(in), why)
				}
			case *ssa.Index, *ssa.Slice, *ssa.Panic, *ssa.TypeAssert, *ssa.Lookup:
				bad = fmt.Sprintf("%s at %s runs before the recover is armed", in.String(), p.InstrPos(in))
			case *ssa.IndexAddr:
				if _, ok := in.X.Type().Underlying().(*types.Slice); ok {
					bad = fmt.Sprintf("slice indexing at %s runs before the recover is armed", p.InstrPos(in))
				}
			}
		}
	}
	return r.Check(bad == "", rule, key, p.InstrPos(def),
		"defer func(){ recover(); err = ... }() dominates every instruction of the parser that can panic on input; it sets the named error result and does not re-panic", bad)
}

// isNamedResultAlloc reports whether al is the storage of one of fn's named results.
func isNamedResultAlloc(fn *ssa.Function, al *ssa.Alloc) bool {
	res := fn.Signature.Results()
	for i := 0; i < res.Len(); i++ {
		if res.At(i).Name() != "" && al.Comment == res.At(i).Name() {
			return true
		}
	}
	return false
}

// ---------------------------------------------------------------------------
// autometa.Load  (C07 obligations a–e, C19 obligations 1–7)

func checkAutoLoader(p *Program, r *Report, pre string) {
	rule := pre + ".auto"
	L := p.Func("meta/autometa", "Load")
	if L == nil || len(L.Params) != 1 {
		r.Undecide(rule, "autometa.Load", "-", "anchor function not found")
		return
	}
	r.SawFn(shortFn(L))
	pos := p.FnPos(L)
	rp := L.Params[0]

	want := []*ssa.Function{p.Func("meta/pngmeta", "Load"), p.Func("meta/jpegmeta", "Load"), p.Func("meta/webpmeta", "Load")}

	// (1) the loader table
	var table *ssa.Slice
	for _, b := range L.Blocks {
		for _, in := range b.Instrs {
			if sl, ok := in.(*ssa.Slice); ok {
				if _, ok := sl.Type().Underlying().(*types.Slice).Elem().Underlying().(*types.Signature); ok {
					if table != nil {
						r.Undecide(rule, "table", p.InstrPos(sl), "more than one loader table")
						return
					}
					table = sl
				}
			}
		}
	}
	if table == nil {
		r.Undecide(rule, "autometa.Load table", pos, "loader table (slice literal of Load functions) not found")
		return
	}
	elems, ok := sliceLitElems(table)
	if !ok {
		r.Violate(rule, "autometa.Load table", p.InstrPos(table), "loader table is modified after construction or not a literal")
		return
	}
	tabOK := len(elems) == len(want)
	got := ""
	for i, e := range elems {
		f, _ := e.(*ssa.Function)
		got += shortFn(f) + " "
		if i < len(want) && f != want[i] {
			tabOK = false
		}
	}
	if pre == "C19" {
		r.Check(tabOK, rule, "autometa.Load (1) table", p.InstrPos(table),
			"loader table is exactly [pngmeta.Load, jpegmeta.Load, webpmeta.Load] in that order, never modified",
			"loader table is ["+got+"], required [pngmeta.Load jpegmeta.Load webpmeta.Load] in that order")
	} else {
		set := map[*ssa.Function]bool{}
		for _, e := range elems {
			if f, ok := e.(*ssa.Function); ok {
				set[f] = true
			}
		}
		all := true
		for _, w := range want {
			if !set[w] {
				all = false
			}
		}
		r.Check(all && len(elems) == 3, rule, "autometa.Load (a) table", p.InstrPos(table),
			"loader table holds the three format loaders (each discharges C07 itself)", "loader table is ["+got+"]")
	}

	// (2) loop over the whole table in index order
	var iv *IndVar
	for _, c := range loopIndVars(L) {
		iv = c
	}
	loopOK := false
	var loopWhy string
	var call *ssa.Call
	if iv == nil {
		loopWhy = "no counting loop over the loader table found"
	} else {
		initV, _ := constInt(iv.Init)
		stepV, okS := constInt(iv.Step)
		first := initV
		if iv.PreInc {
			first = initV + stepV
		}
		lim := false
		if bl, ok := iv.Limit.(*ssa.Call); ok && isBuiltinCall(bl, "len") && bl.Call.Args[0] == ssa.Value(table) {
			lim = true
		}
		if c, ok := constInt(iv.Limit); ok && c == int64(len(elems)) {
			lim = true
		}
		loopOK = okS && stepV == 1 && first == 0 && iv.Op == token.LSS && lim
		if !loopOK {
			loopWhy = fmt.Sprintf("loop does not visit indices 0..len(table)-1 in order (first=%d step=%d op=%s)", first, stepV, iv.Op)
		}
		// the call through the table
		for _, b := range L.Blocks {
			for _, in := range b.Instrs {
				c, ok := in.(*ssa.Call)
				if !ok || c.Call.IsInvoke() {
					continue
				}
				ld, ok := c.Call.Value.(*ssa.UnOp)
				if !ok {
					continue
				}
				ia, ok := ld.X.(*ssa.IndexAddr)
				if ok && ia.X == ssa.Value(table) && ia.Index == iv.Counter {
					if call != nil {
						loopOK, loopWhy = false, "more than one call through the loader table"
					}
					call = c
				}
			}
		}
		if call == nil {
			loopOK, loopWhy = false, "no call loaders[i](stream) indexed by the loop counter"
		}
	}
	if pre == "C19" {
		r.Check(loopOK, rule, "autometa.Load (2) iteration", pos, "the loop calls loaders[i] for i = 0..len-1 in index order", loopWhy)
	}
	if call == nil {
		r.Undecide(rule, "autometa.Load chaining", pos, "loader call not identified: "+loopWhy)
		return
	}

	// (3)+(4) argument chaining: phi{r, previous call's stream}
	var exStream, exMd, exErr *ssa.Extract
	for _, u := range refs(call) {
		if ex, ok := u.(*ssa.Extract); ok {
			switch ex.Index {
			case 0:
				exMd = ex
			case 1:
				exStream = ex
			case 2:
				exErr = ex
			}
		}
	}
	chainOK := false
	chainWhy := ""
	arg := call.Call.Args[0]
	phi, isPhi := arg.(*ssa.Phi)
	if isPhi && len(phi.Edges) == 2 && exStream != nil {
		a, b := phi.Edges[0], phi.Edges[1]
		if (a == ssa.Value(rp) && b == ssa.Value(exStream)) || (b == ssa.Value(rp) && a == ssa.Value(exStream)) {
			// the r edge must come from outside the loop (the entry), the other from the latch
			chainOK = true
		}
	}
	if !chainOK {
		chainWhy = fmt.Sprintf("the stream passed to each loader is %s; required: the original reader for the first loader and the previous loader's returned stream afterwards", arg.String())
	}
	k34 := "autometa.Load (b) chaining"
	if pre == "C19" {
		k34 = "autometa.Load (3,4) chaining"
	}
	r.Check(chainOK, rule, k34, p.InstrPos(call),
		"first loader receives r, each later loader receives the previous loader's replay stream (phi{r, nextStream})", chainWhy)

	// (5) success return
	succOK := false
	succWhy := "no `err == nil` success return found"
	if exErr != nil {
		for _, u := range refs(exErr) {
			cmp, ok := u.(*ssa.BinOp)
			if !ok || !(isNilConst(cmp.X) || isNilConst(cmp.Y)) {
				continue
			}
			for _, uu := range refs(cmp) {
				ifi, ok := uu.(*ssa.If)
				if !ok {
					continue
				}
				tb := ifi.Block().Succs[0]
				if cmp.Op == token.NEQ {
					tb = ifi.Block().Succs[1]
				}
				if ret, ok := tb.Instrs[len(tb.Instrs)-1].(*ssa.Return); ok && len(ret.Results) == 3 {
					if ret.Results[0] == ssa.Value(exMd) && ret.Results[1] == ssa.Value(exStream) && isNilConst(ret.Results[2]) {
						succOK = true
					} else {
						succWhy = fmt.Sprintf("success return at %s yields (%s, %s, %s); required the loader's own (md, stream, nil) unmodified", p.InstrPos(ret), ret.Results[0], ret.Results[1], ret.Results[2])
					}
				}
			}
		}
	}
	k5 := "autometa.Load (c) success-return"
	if pre == "C19" {
		k5 = "autometa.Load (5) success-return"
	}
	r.Check(succOK, rule, k5, pos, "on err == nil the loader's md and stream are returned verbatim with a nil error", succWhy)

	// (6) exhaustion return
	exhOK := false
	exhWhy := "no exhaustion return found"
	for _, b := range L.Blocks {
		ret, ok := b.Instrs[len(b.Instrs)-1].(*ssa.Return)
		if !ok || len(ret.Results) != 3 {
			continue
		}
		if ret.Results[1] == ssa.Value(exStream) && ret.Results[0] == ssa.Value(exMd) {
			continue // success return
		}
		errv, isCall := ret.Results[2].(*ssa.Call)
		nonNil := isCall && (fnIs(staticCallee(errv), "fmt", "Errorf") || fnIs(staticCallee(errv), "errors", "New"))
		if isNilConst(ret.Results[0]) && isPhi && ret.Results[1] == ssa.Value(phi) && nonNil {
			exhOK = true
		} else if !succOK || ret.Results[1] != ssa.Value(exStream) {
			exhWhy = fmt.Sprintf("return at %s yields (%s, %s, %s); required (nil, last replay stream, non-nil error)", p.InstrPos(ret), ret.Results[0], ret.Results[1], ret.Results[2])
		}
	}
	// (6b) path rule: from the loader call, every path either returns that
	// call's own stream, or re-enters the loop header handing that stream to
	// the phi. A path that leaves the loop with the stale (already consumed)
	// stream — a break before `inputStream = nextStream` — loses the bytes
	// the failed loader pulled from the source.
	if exhOK && isPhi && exStream != nil {
		seen := map[*ssa.BasicBlock]bool{}
		var walk func(b *ssa.BasicBlock, from *ssa.BasicBlock)
		walk = func(b, from *ssa.BasicBlock) {
			if b == phi.Block() {
				for i, pred := range b.Preds {
					if pred == from && phi.Edges[i] != ssa.Value(exStream) {
						exhOK = false
						exhWhy = fmt.Sprintf("the loop is re-entered from block %d with inputStream = %s instead of the failed loader's replay stream", from.Index, phi.Edges[i])
					}
				}
				return
			}
			if seen[b] {
				return
			}
			seen[b] = true
			if ret, ok := b.Instrs[len(b.Instrs)-1].(*ssa.Return); ok {
				if len(ret.Results) != 3 || ret.Results[1] != ssa.Value(exStream) {
					exhOK = false
					exhWhy = fmt.Sprintf("a path from the loader call reaches the return at %s without passing the loader's replay stream on: it returns %s, whose consumed prefix is lost", p.InstrPos(ret), valStr(ret.Results, 1))
				}
				return
			}
			for _, s := range b.Succs {
				walk(s, b)
			}
		}
		for _, s := range call.Block().Succs {
			walk(s, call.Block())
		}
	}
	k6 := "autometa.Load (d) exhaustion-return"
	if pre == "C19" {
		k6 = "autometa.Load (6) exhaustion-return"
	}
	r.Check(exhOK, rule, k6, pos, "after the last loader: nil metadata, the last loader's replay stream, a non-nil error; no path leaves the loop with a stale stream", exhWhy)

	// (7) no other use of r
	var stray []string
	for _, u := range refs(rp) {
		if u == ssa.Instruction(phi) && isPhi {
			continue
		}
		stray = append(stray, u.String()+" ("+p.InstrPos(u)+")")
	}
	k7 := "autometa.Load (e) r-unused-elsewhere"
	if pre == "C19" {
		k7 = "autometa.Load (7) r-unused-elsewhere"
	}
	r.Check(len(stray) == 0, rule, k7, pos, "the source reader is only handed to the first loader", fmt.Sprintf("other uses of r: %v", stray))

	if pre == "C07" {
		hasGo := false
		for _, b := range L.Blocks {
			for _, in := range b.Instrs {
				if _, ok := in.(*ssa.Go); ok {
					hasGo = true
				}
			}
		}
		r.Check(!hasGo, "C07.no-goroutine", "autometa.Load", pos, "no go statement", "go statement in autometa.Load")
	}
}
