package main

import (
	"fmt"
	"go/token"
	"go/types"

	"golang.org/x/tools/go/ssa"
)

// C07 — the returned stream replays the complete input.
// C19 — auto-detection behaves like the matching specific loader.
//
// Both are use-set / ownership obligations on the SSA form of the four Load
// functions; see DESIGN.md §4 C07 and C19.

func init() {
	register(&PropertyCheck{ID: "C07", Level: "proof", Run: runC07})
	register(&PropertyCheck{ID: "C19", Level: "proof", Run: runC19})
}

var formatLoaders = []string{"meta/pngmeta", "meta/jpegmeta", "meta/webpmeta"}

func runC07(p *Program, r *Report) {
	r.Explanation = "Each of pngmeta.Load, jpegmeta.Load and webpmeta.Load is abstractly interpreted on a symbolic source reader r; prism callees are inlined exactly when they are handed r or a *bytes.Buffer (the tee/replay plumbing, whether it sits in Load or in a helper), the parser stays an uninterpreted call. On EVERY path of that region: every event that mentions r is io.TeeReader(r,B) or io.MultiReader(B,r); B is one fresh bytes.Buffer mentioned only there; the replay stream is not handed to anything before it is returned; the stream returned is that MultiReader; nothing else is called except bufio.NewReader(Size)(tee) and one prism parser fed a tee-derived reader, in which a recover-armed defer dominates every stream read; no goroutines. autometa.Load is interpreted with the format loaders opaque: first loader on r, each later one on the previous loader's returned stream and only after it failed, first success returned verbatim, the last stream returned on exhaustion. With the library contracts of TeeReader/bufio/bytes.Buffer/MultiReader these obligations entail that the returned stream replays the complete input on every path (argument in DESIGN.md §4 C07). Decided for all inputs and read schedules because the obligations are about every path, not about sampled executions."
	r.RuleText = "one obligation per (loader, clause); distinct = distinct rule+construct keys; every obligation is non-trivial (it can fail on a compiling edit, see mutants)"
	r.Trusted = []string{"go/packages+go/types+go/ssa (x/tools v0.29.0)", "the abstract interpreter (checker/sym*.go)", "io.TeeReader writes every byte it returns to the writer before returning it", "bufio.Reader reads only from its underlying reader", "bytes.Buffer is an unbounded FIFO", "io.MultiReader drains its readers in order", "the source re-reports its I/O error when read again"}
	r.Assumptions = []string{"caller-supplied io.Reader obeys the io.Reader contract"}
	for _, short := range formatLoaders {
		checkFormatLoader(p, r, "C07", short)
	}
	checkAutoLoader(p, r, "C07")
	r.Floor("C07.tee", 3)
	r.Floor("C07.buffer", 3)
	r.Floor("C07.only-through-tee", 3)
	r.Floor("C07.order", 3)
	r.Floor("C07.all-returns", 3)
	r.Floor("C07.recover-armed", 3)
	r.Floor("C07.no-panic-outside", 3)
	r.Floor("C07.no-goroutine", 4)
	r.Floor("C07.auto", 5)
}

func runC19(p *Program, r *Report) {
	r.Explanation = "autometa.Load is abstractly interpreted with the three format loaders as uninterpreted calls; on every path: only those loaders are called, each at most once, the first on r, each later one on the previous loader's returned stream and only after that loader returned an error; a success returns that loader's (md, stream, nil) verbatim; only after all three failed is (nil, last stream, non-nil error) returned; r and the intermediate streams are used for nothing else (the order of trial is immaterial: the formats' signatures are mutually exclusive). C07's obligations are re-evaluated on the same tree as premises: candidate k sees the original bytes from the first byte, the first success is returned unmodified, and the final stream replays everything."
	r.RuleText = "one obligation per clause of autometa.Load + C07 premises; distinct = distinct rule+construct keys"
	r.Trusted = []string{"go/packages+go/types+go/ssa (x/tools v0.29.0)", "library contracts listed under C07"}
	checkAutoLoader(p, r, "C19")
	// premises: C07 on the same tree (re-evaluated, not read from evidence)
	sub := NewReport("C07", "proof")
	for _, short := range formatLoaders {
		checkFormatLoader(p, sub, "C07", short)
	}
	for _, ob := range sub.Obls {
		ob.Rule = "C19.premise-" + ob.Rule
		ob.Key = "C19.premise-" + ob.Key
		r.Obls = append(r.Obls, ob)
	}
	for f := range sub.Functions {
		r.SawFn(f)
	}
	r.Floor("C19.auto", 6)
	r.Floor("C19.premise-C07.tee", 3)
	r.Floor("C19.premise-C07.all-returns", 3)
}

// resolveResult follows a value through loads of never-reassigned locals so
// that `x := io.MultiReader(..); return md, x, err` is recognised.
func resolveResult(v ssa.Value) ssa.Value {
	for i := 0; i < 4; i++ {
		u, ok := v.(*ssa.UnOp)
		if !ok || u.Op != token.MUL {
			return v
		}
		al, ok := u.X.(*ssa.Alloc)
		if !ok {
			return v
		}
		var stored ssa.Value
		n := 0
		for _, rr := range refs(al) {
			if st, ok := rr.(*ssa.Store); ok && st.Addr == ssa.Value(al) {
				stored = st.Val
				n++
			}
		}
		if n != 1 {
			return v
		}
		v = stored
	}
	return v
}

func valStr(vs []ssa.Value, i int) string {
	if i >= len(vs) {
		return "<missing>"
	}
	return vs[i].String() + " (" + vs[i].Name() + ")"
}

func describeVals(vs []ssa.Value, b *ssa.Alloc, rp *ssa.Parameter) string {
	s := "("
	for i, v := range vs {
		if i > 0 {
			s += ", "
		}
		switch {
		case stripIface(v) == ssa.Value(b):
			s += "rewind buffer"
		case v == ssa.Value(rp):
			s += "source reader"
		default:
			s += v.String()
		}
	}
	return s + ")"
}

// cannotPanicOnInput is a conservative syntactic test that a function (and,
// one level down, its prism callees) contains nothing that can panic
// depending on input: no interface method calls, no indexing/slicing of
// slices, no unchecked type assertions, no integer division, no explicit
// panic, no calls out of the module.
func cannotPanicOnInput(f *ssa.Function, depth int) (bool, string) {
	if f == nil || len(f.Blocks) == 0 {
		return false, "no body"
	}
	for _, b := range f.Blocks {
		for _, in := range b.Instrs {
			switch in := in.(type) {
			case *ssa.Call:
				if in.Call.IsInvoke() {
					return false, "interface method call " + in.String()
				}
				cf := staticCallee(in)
				if cf == nil {
					if _, ok := in.Call.Value.(*ssa.Builtin); ok {
						continue
					}
					return false, "dynamic call " + in.String()
				}
				if !isPrismFn(cf) || depth <= 0 {
					return false, "call " + in.String()
				}
				if ok, why := cannotPanicOnInput(cf, depth-1); !ok {
					return false, why
				}
			case *ssa.Panic:
				return false, "explicit panic"
			case *ssa.Index:
				return false, "index expression"
			case *ssa.IndexAddr:
				if _, ok := in.X.Type().Underlying().(*types.Slice); ok {
					return false, "slice indexing"
				}
				if _, ok := constInt(in.Index); !ok {
					return false, "non-constant array index"
				}
			case *ssa.Slice:
				if _, ok := in.X.Type().Underlying().(*types.Pointer); !ok || in.Low != nil || in.High != nil {
					return false, "slice expression"
				}
			case *ssa.TypeAssert:
				if !in.CommaOk {
					return false, "unchecked type assertion"
				}
			case *ssa.BinOp:
				if in.Op == token.QUO || in.Op == token.REM {
					if b, ok := in.Type().Underlying().(*types.Basic); ok && b.Info()&types.IsInteger != 0 {
						return false, "integer division"
					}
				}
			case *ssa.Go, *ssa.Defer:
				return false, "go/defer"
			}
		}
	}
	return true, ""
}

// recoverClosure checks that fn is a deferred closure of the form
//
//	func() { if r := recover(); r != nil { ...; err = <non-nil> } }
//
// that never re-panics, and returns the free variables it stores to.
func recoverClosure(fn *ssa.Function) (ok bool, why string, stores []*ssa.FreeVar) {
	hasRecover := false
	for _, b := range fn.Blocks {
		for _, in := range b.Instrs {
			if isBuiltinCall(in, "recover") {
				hasRecover = true
			}
			switch in := in.(type) {
			case *ssa.Panic:
				return false, "deferred function re-panics", nil
			case *ssa.Store:
				if fv, ok := in.Addr.(*ssa.FreeVar); ok {
					stores = append(stores, fv)
				}
			case *ssa.Call:
				if isBuiltinCall(in, "recover") {
					continue
				}
				if b, ok := in.Call.Value.(*ssa.Builtin); ok && b.Name() == "panic" {
					return false, "deferred function re-panics", nil
				}
			}
		}
	}
	if !hasRecover {
		return false, "deferred function does not call recover()", nil
	}
	return true, "", stores
}

// checkRecoverArmed discharges "a defer of a recovering closure that sets the
// named error result is established before anything that can panic on input".
func checkRecoverArmed(p *Program, r *Report, rule, key string, fn *ssa.Function) bool {
	r.SawFn(shortFn(fn))
	pos := p.FnPos(fn)
	var def *ssa.Defer
	for _, b := range fn.Blocks {
		for _, in := range b.Instrs {
			d, ok := in.(*ssa.Defer)
			if !ok {
				continue
			}
			mc, ok := d.Call.Value.(*ssa.MakeClosure)
			if !ok {
				continue
			}
			if ok, _, _ := recoverClosure(mc.Fn.(*ssa.Function)); ok && def == nil {
				def = d
			}
		}
	}
	if def == nil {
		r.Violate(rule, key, pos, "no deferred recover() in the parser: a panic on hostile input escapes the loader and no stream is returned")
		return false
	}
	mc := def.Call.Value.(*ssa.MakeClosure)
	cl := mc.Fn.(*ssa.Function)
	_, _, stores := recoverClosure(cl)
	// the closure must assign the named error result
	errSet := false
	for _, fv := range stores {
		for i, cfv := range cl.FreeVars {
			if cfv != fv {
				continue
			}
			if al, ok := mc.Bindings[i].(*ssa.Alloc); ok {
				if isNamedResultAlloc(fn, al) && types.Identical(al.Type().(*types.Pointer).Elem(), types.Universe.Lookup("error").Type()) {
					errSet = true
				}
			}
		}
	}
	if !errSet {
		r.Violate(rule, key, p.InstrPos(def), "the recovering closure does not assign the function's named error result: a recovered panic would be reported as success")
		return false
	}
	// every instruction that can panic must be dominated by the defer
	entry := fn.Blocks[0]
	if def.Block() != entry {
		// must dominate all blocks containing risky instructions
	}
	var bad string
	for _, b := range fn.Blocks {
		for _, in := range b.Instrs {
			if in == ssa.Instruction(def) {
				continue
			}
			if dominatesInstr(def, in) {
				continue
			}
			// executed (possibly) before the defer: must be harmless
			switch in := in.(type) {
			case *ssa.Call:
				if in.Call.IsInvoke() {
					bad = fmt.Sprintf("interface call %s at %s runs before the recover is armed", in.String(), p.InstrPos(in))
					break
				}
				cf := staticCallee(in)
				if cf == nil {
					if _, ok := in.Call.Value.(*ssa.Builtin); ok {
						continue
					}
					bad = fmt.Sprintf("dynamic call at %s runs before the recover is armed", p.InstrPos(in))
					break
				}
				if ok, why := cannotPanicOnInput(cf, 2); !ok {
					bad = fmt.Sprintf("call %s at %s runs before the recover is armed and may panic (%s)", shortFn(cf), p.InstrPos(in), why)
				}
			case *ssa.Index, *ssa.Slice, *ssa.Panic, *ssa.TypeAssert, *ssa.Lookup:
				bad = fmt.Sprintf("%s at %s runs before the recover is armed", in.String(), p.InstrPos(in))
			case *ssa.IndexAddr:
				if _, ok := in.X.Type().Underlying().(*types.Slice); ok {
					bad = fmt.Sprintf("slice indexing at %s runs before the recover is armed", p.InstrPos(in))
				}
			}
		}
	}
	return r.Check(bad == "", rule, key, p.InstrPos(def),
		"defer func(){ recover(); err = ... }() dominates every instruction of the parser that can panic on input; it sets the named error result and does not re-panic", bad)
}

// isNamedResultAlloc reports whether al is the storage of one of fn's named results.
func isNamedResultAlloc(fn *ssa.Function, al *ssa.Alloc) bool {
	res := fn.Signature.Results()
	for i := 0; i < res.Len(); i++ {
		if res.At(i).Name() != "" && al.Comment == res.At(i).Name() {
			return true
		}
	}
	return false
}

// ---------------------------------------------------------------------------
// autometa.Load  (C07 obligations a–e, C19 obligations 1–7)
