package main

import (
	"fmt"
	"go/types"
	"math/big"
	"strings"

	"golang.org/x/tools/go/ssa"
)

// ---------------------------------------------------------------------------
// helpers for rules built on the abstract interpreter's forms

// symArgs builds symbolic arguments named after the parameters.
func symArgs(e *Engine, fn *ssa.Function) []Val {
	var args []Val
	for i, prm := range fn.Params {
		if fn.Signature.Variadic() && i == len(fn.Params)-1 {
			// the property's API is the call without optional trailing arguments
			// (functional options added later default to "none")
			if sl, ok := prm.Type().Underlying().(*types.Slice); ok {
				args = append(args, &SliceVal{Nil: true, Lo: formInt(0), Len: formInt(0), Elem: sl.Elem()})
				continue
			}
		}
		args = append(args, e.SymVal(prm.Name(), prm.Type()))
	}
	return args
}

// opaqueSet makes an Opaque predicate from a list of functions.
func opaqueSet(fns ...*ssa.Function) func(*ssa.Function) bool {
	m := map[*ssa.Function]bool{}
	for _, f := range fns {
		if f != nil {
			m[f] = true
		}
	}
	return func(f *ssa.Function) bool { return m[f] }
}

// extract runs fn symbolically and returns its outcomes; a stuck outcome is
// returned as err ("not extractable at <pos>: why").
func extract(p *Program, e *Engine, fn *ssa.Function, args []Val) ([]Outcome, error) {
	if fn == nil {
		return nil, fmt.Errorf("anchor function not found")
	}
	if args == nil {
		args = symArgs(e, fn)
	}
	outs := e.Run(fn, args, nil)
	for _, o := range outs {
		if o.Kind == "stuck" {
			return outs, fmt.Errorf("not extractable at %s: %s", p.Pos(o.Pos), o.Why)
		}
	}
	return outs, nil
}

// single requires exactly one returning outcome without path conditions.
func single(p *Program, e *Engine, fn *ssa.Function, args []Val) (Val, error) {
	outs, err := extract(p, e, fn, args)
	if err != nil {
		return nil, err
	}
	if v, ok := mergeEqualitySplit(e, outs); ok {
		return v, nil
	}
	if len(outs) != 1 || outs[0].Kind != "return" {
		var where []string
		for _, o := range outs {
			cs := make([]string, len(o.St.conds))
			for i, c := range o.St.conds {
				cs[i] = trunc(c.Key(), 80)
			}
			where = append(where, fmt.Sprintf("%s@%s if[%s]", o.Kind, p.Pos(o.Pos), strings.Join(cs, " && ")))
		}
		return nil, fmt.Errorf("not a single closed form: %d paths (a guard, clamp, cache or fast path splits it): %s", len(outs), trunc(strings.Join(where, "; "), 400))
	}
	return outs[0].Ret, nil
}

func trunc(s string, n int) string {
	if len(s) > n {
		return s[:n] + "…"
	}
	return s
}

// elem selects a nested element by indices.
func elem(v Val, idx ...int) (Val, bool) { return selectPath(v, idx) }

func formAt(v Val, idx ...int) (*Form, bool) {
	x, ok := selectPath(v, idx)
	if !ok {
		return nil, false
	}
	f, ok := x.(*Form)
	return f, ok
}

// mat3 extracts a 3x3 matrix of forms from value v laid out [col][row]
// (the repository's column-vector convention).
func mat3(v Val) (m [3][3]*Form, ok bool) {
	for c := 0; c < 3; c++ {
		for r := 0; r < 3; r++ {
			f, ok := formAt(v, c, r)
			if !ok {
				return m, false
			}
			m[c][r] = f
		}
	}
	return m, true
}

func vec3(v Val) (x [3]*Form, ok bool) {
	for i := 0; i < 3; i++ {
		f, ok := formAt(v, i)
		if !ok {
			return x, false
		}
		x[i] = f
	}
	return x, true
}

// symMat is the matrix of atoms name[c][r].
func symMat(name string) (m [3][3]*Form) {
	for c := 0; c < 3; c++ {
		for r := 0; r < 3; r++ {
			m[c][r] = formAtom(fmt.Sprintf("%s[%d][%d]", name, c, r))
		}
	}
	return
}

func symVec(name string) (v [3]*Form) {
	for i := 0; i < 3; i++ {
		v[i] = formAtom(fmt.Sprintf("%s[%d]", name, i))
	}
	return
}

// matMulV: (M v)_r = sum_k M[k][r] v[k]   (M stored [col][row])
func matMulV(m [3][3]*Form, v [3]*Form) (o [3]*Form) {
	for r := 0; r < 3; r++ {
		s := formInt(0)
		for k := 0; k < 3; k++ {
			s = s.Add(m[k][r].Mul(v[k]))
		}
		o[r] = s
	}
	return
}

// matMul: (A·B)[c][r] = sum_k A[k][r]·B[c][k]
func matMul(a, b [3][3]*Form) (o [3][3]*Form) {
	for c := 0; c < 3; c++ {
		for r := 0; r < 3; r++ {
			s := formInt(0)
			for k := 0; k < 3; k++ {
				s = s.Add(a[k][r].Mul(b[c][k]))
			}
			o[c][r] = s
		}
	}
	return
}

func matIdent() (o [3][3]*Form) {
	for c := 0; c < 3; c++ {
		for r := 0; r < 3; r++ {
			if c == r {
				o[c][r] = formInt(1)
			} else {
				o[c][r] = formInt(0)
			}
		}
	}
	return
}

// leibnizDet is the textbook determinant of M.
func leibnizDet(m [3][3]*Form) *Form {
	// entries a[r][c] = m[c][r]
	a := func(r, c int) *Form { return m[c][r] }
	t := func(x, y, z *Form) *Form { return x.Mul(y).Mul(z) }
	d := t(a(0, 0), a(1, 1), a(2, 2)).Add(t(a(0, 1), a(1, 2), a(2, 0))).Add(t(a(0, 2), a(1, 0), a(2, 1)))
	d = d.Sub(t(a(0, 2), a(1, 1), a(2, 0))).Sub(t(a(0, 1), a(1, 0), a(2, 2))).Sub(t(a(0, 0), a(1, 2), a(2, 1)))
	return d
}

// constMat converts a matrix of constant forms to rationals.
func constMat(m [3][3]*Form) (o [3][3]*big.Rat, ok bool) {
	for c := 0; c < 3; c++ {
		for r := 0; r < 3; r++ {
			v, ok := m[c][r].Const()
			if !ok {
				return o, false
			}
			o[c][r] = v
		}
	}
	return o, true
}

func ratAbs(x *big.Rat) *big.Rat { return new(big.Rat).Abs(x) }

func ratF(f float64) *big.Rat {
	r := new(big.Rat)
	r.SetFloat64(f)
	return r
}

// ratDec parses a decimal string exactly.
func ratDec(s string) *big.Rat {
	r, ok := new(big.Rat).SetString(s)
	if !ok {
		panic("bad decimal " + s)
	}
	return r
}

// within reports |a-b| <= tol.
func within(a, b, tol *big.Rat) bool {
	d := new(big.Rat).Sub(a, b)
	return ratAbs(d).Cmp(tol) <= 0
}

func ratFloat(x *big.Rat) float64 { f, _ := x.Float64(); return f }

// globalValue evaluates a package-level variable through its initialiser.
func globalValue(p *Program, e *Engine, short, name string) (Val, error) {
	g := p.Global(short, name)
	if g == nil {
		return nil, fmt.Errorf("variable %s.%s not found", short, name)
	}
	e.EvalInits = true
	e.globalCell(g)
	v, ok := e.globalInitVal(g)
	if !ok {
		return nil, fmt.Errorf("initialiser of %s.%s not extractable", short, name)
	}
	return v, nil
}

// constOf returns the exact value of a package-level constant.
func constOf(p *Program, short, name string) (*big.Rat, bool) {
	pk := p.ByPath[p.pkgPath(short)]
	if pk == nil {
		return nil, false
	}
	c, ok := pk.Types.Scope().Lookup(name).(*types.Const)
	if !ok {
		return nil, false
	}
	return ratFromConst(c.Val())
}

// condsOn renders the path conditions of an outcome.
func condsKey(o Outcome) string {
	cs := make([]string, len(o.St.conds))
	for i, c := range o.St.conds {
		cs[i] = c.Key()
	}
	return strings.Join(cs, " && ")
}

// mergeEqualitySplit: a function whose only case split is `x == c` (a fast
// path for one value of an operand) is still a single closed form when the
// general branch, evaluated at x = c, gives what the special branch returns:
// f(x) = g(x) for x != c and f(c) = g(c).
func mergeEqualitySplit(e *Engine, outs []Outcome) (Val, bool) {
	if len(outs) != 2 || outs[0].Kind != "return" || outs[1].Kind != "return" {
		return nil, false
	}
	for k := 0; k < 2; k++ {
		eq, ne := outs[k], outs[1-k]
		if len(eq.St.conds) != 1 || len(ne.St.conds) != 1 {
			return nil, false
		}
		c, n := eq.St.conds[0], ne.St.conds[0]
		if c.Op != "==" || n.Key() != c.Not().Key() {
			continue
		}
		a, okA := c.A.(*Form)
		b, okB := c.B.(*Form)
		if !okA || !okB {
			continue
		}
		if _, isC := a.Const(); isC {
			a, b = b, a
		}
		an, isA := a.SingleAtom()
		if _, isC := b.Const(); !isA || !isC {
			continue
		}
		env := map[string]*Form{an: b}
		if valKey(substVal(e, ne.Ret, env, 0)) == valKey(substVal(e, eq.Ret, env, 0)) {
			return ne.Ret, true
		}
	}
	return nil, false
}

// substVal replaces atoms in a value, also inside the arguments of
// uninterpreted applications (which are rebuilt).
func substVal(e *Engine, v Val, env map[string]*Form, depth int) Val {
	if v == nil || depth > 12 {
		return v
	}
	switch x := v.(type) {
	case *Form:
		full := map[string]*Form{}
		for a := range x.Atoms() {
			if r, ok := env[a]; ok {
				full[a] = r
				continue
			}
			at := e.A.get(a)
			if at == nil || at.Kind != "app" || len(at.Args) == 0 {
				continue
			}
			changed := false
			nargs := make([]Val, len(at.Args))
			for i, arg := range at.Args {
				nargs[i] = substVal(e, arg, env, depth+1)
				if valKey(nargs[i]) != valKey(arg) {
					changed = true
				}
			}
			if changed {
				full[a] = e.A.App(at.Fn, at.Type, nargs...)
			}
		}
		if len(full) == 0 {
			return x
		}
		return x.Subst(full)
	case Tuple:
		out := make(Tuple, len(x))
		for i, el := range x {
			out[i] = substVal(e, el, env, depth+1)
		}
		return out
	case *Agg:
		out := &Agg{Type: x.Type, Elems: make([]Val, len(x.Elems))}
		for i, el := range x.Elems {
			out.Elems[i] = substVal(e, el, env, depth+1)
		}
		return out
	case *Opaque:
		if len(x.Args) == 0 {
			return x
		}
		nargs := make([]Val, len(x.Args))
		changed := false
		for i, arg := range x.Args {
			nargs[i] = substVal(e, arg, env, depth+1)
			if valKey(nargs[i]) != valKey(arg) {
				changed = true
			}
		}
		if !changed {
			return x
		}
		ks := make([]string, len(nargs))
		for i, a := range nargs {
			ks[i] = valKey(a)
		}
		return &Opaque{Key: x.Fn + "(" + strings.Join(ks, ", ") + ")", Type: x.Type, Fn: x.Fn, Args: nargs}
	}
	return v
}
