package main

import (
	"fmt"
	"go/types"
	"math/big"
	"sort"
	"strings"

	"golang.org/x/tools/go/ssa"
)

// ---------------------------------------------------------------------------
// Abstract values of the SSA abstract interpreter (Engines S and B).
//
//   *Form      numbers (ints and floats): exact rational function over atoms
//   *BoolVal   booleans: constant or a comparison / connective over forms
//   *Agg       struct and array values
//   *Ptr       pointer into a memory cell
//   *SliceVal  slice over a cell or over an opaque base
//   Tuple      multiple results
//   *FuncVal   function value with closure bindings
//   *Opaque    anything else (interfaces, images, errors of unknown state ...)
//   *ErrVal    error with known nil-ness
//   *StrVal    string constant
//   *ReaderVal a byte stream with a tracked position (Engine B)
//   *MapVal    a map cell with recorded updates

type Val interface{}

type Tuple []Val

// Atom is a named leaf of a form.
type Atom struct {
	Key  string
	Kind string // "var", "app", "bv", "byte"
	Fn   string // for app
	Args []Val  // for app
	Type types.Type
	BV   *BV // for kind bv
	// for kind "byte": Stream/Off identify an input byte
	Stream string
	Off    int64
	OffF   *Form // symbolic offset when Off < 0
}

// Atoms is the registry of atoms created during one analysis.
type Atoms struct {
	m map[string]*Atom
}

func newAtoms() *Atoms { return &Atoms{m: map[string]*Atom{}} }

func (as *Atoms) get(key string) *Atom { return as.m[key] }

func (as *Atoms) intern(a *Atom) *Atom {
	if old, ok := as.m[a.Key]; ok {
		return old
	}
	as.m[a.Key] = a
	return a
}

// Var makes (or finds) a variable atom.
func (as *Atoms) Var(name string, t types.Type) *Form {
	as.intern(&Atom{Key: name, Kind: "var", Type: t})
	return formAtom(name)
}

// App makes an uninterpreted application atom and returns it as a form.
func (as *Atoms) App(fn string, t types.Type, args ...Val) *Form {
	return formAtom(as.AppAtom(fn, t, args...).Key)
}

func (as *Atoms) AppAtom(fn string, t types.Type, args ...Val) *Atom {
	ks := make([]string, len(args))
	for i, a := range args {
		ks[i] = valKey(a)
	}
	key := fn + "(" + strings.Join(ks, ", ") + ")"
	return as.intern(&Atom{Key: key, Kind: "app", Fn: fn, Args: args, Type: t})
}

// Byte makes the atom for input byte off of a stream.
func (as *Atoms) Byte(stream string, off *Form) *Form {
	if c, ok := off.ConstInt(); ok {
		key := fmt.Sprintf("%s[%d]", stream, c)
		as.intern(&Atom{Key: key, Kind: "byte", Stream: stream, Off: c, Type: types.Typ[types.Uint8]})
		return formAtom(key)
	}
	key := fmt.Sprintf("%s[%s]", stream, off.Key())
	as.intern(&Atom{Key: key, Kind: "byte", Stream: stream, Off: -1, OffF: off, Type: types.Typ[types.Uint8]})
	return formAtom(key)
}

// valKey renders any value canonically.
func valKey(v Val) string {
	switch v := v.(type) {
	case nil:
		return "nil"
	case *Form:
		return v.Key()
	case *BoolVal:
		return v.Key()
	case *Agg:
		ks := make([]string, len(v.Elems))
		for i, e := range v.Elems {
			ks[i] = valKey(e)
		}
		return "{" + strings.Join(ks, ", ") + "}"
	case *Ptr:
		return v.Key()
	case *SliceVal:
		return v.Key()
	case Tuple:
		ks := make([]string, len(v))
		for i, e := range v {
			ks[i] = valKey(e)
		}
		return "(" + strings.Join(ks, ", ") + ")"
	case *FuncVal:
		return "func:" + shortFn(v.Fn)
	case *Opaque:
		return v.Key
	case *ErrVal:
		return v.Key()
	case *StrVal:
		return fmt.Sprintf("%q", v.S)
	case *ReaderVal:
		return "reader:" + v.S.Name
	case *MapVal:
		return "map:" + v.Name
	case *StrForm:
		return v.Key()
	case *LimitedVal:
		return "limit(" + v.R.S.Name + "," + v.N.Key() + ")"
	}
	return fmt.Sprintf("%v", v)
}

// BoolVal is a boolean.
type BoolVal struct {
	Const *bool
	Op    string // "<", "<=", "==", "!=", ">", ">=", "and", "or", "not", "atom"
	A, B  Val
	K     string // for atom
	// Src is the SSA value of the branch condition this path condition was
	// decided on (set when the path forked), for audits of its arithmetic.
	Src ssa.Value
	// Exact, when set, records whether the machine arithmetic that computed
	// the condition provably equals its exact-integer reading (no wrap-around),
	// judged where the path forked, with the operand values then known.
	Exact *bool
}

func boolConst(b bool) *BoolVal { return &BoolVal{Const: &b} }

func (b *BoolVal) Key() string {
	if b.Const != nil {
		return fmt.Sprintf("%v", *b.Const)
	}
	switch b.Op {
	case "not":
		return "!(" + valKey(b.A) + ")"
	case "atom":
		return b.K
	}
	return "(" + valKey(b.A) + " " + b.Op + " " + valKey(b.B) + ")"
}

func (b *BoolVal) Not() *BoolVal {
	if b.Const != nil {
		return boolConst(!*b.Const)
	}
	neg := map[string]string{"<": ">=", "<=": ">", "==": "!=", "!=": "==", ">": "<=", ">=": "<"}
	if n, ok := neg[b.Op]; ok {
		return &BoolVal{Op: n, A: b.A, B: b.B, Src: b.Src, Exact: b.Exact}
	}
	if b.Op == "not" {
		return b.A.(*BoolVal)
	}
	return &BoolVal{Op: "not", A: b}
}

// Agg is a struct or array value (immutable; updates copy).
type Agg struct {
	Type  types.Type
	Elems []Val
}

func (a *Agg) with(i int, v Val) *Agg {
	n := &Agg{Type: a.Type, Elems: append([]Val(nil), a.Elems...)}
	n.Elems[i] = v
	return n
}

// Cell is a unit of memory.
type Cell struct {
	ID   int
	Name string
	Type types.Type
	// Alloc: the cell was created by an allocation executed during the run
	// (as opposed to a global, or storage reached through a parameter).
	Alloc bool
}

// Ptr points into a cell; Path selects nested fields / constant indices.
// SymIdx, when set, is a final symbolic index into the addressed array/slice.
type Ptr struct {
	Cell   *Cell
	Path   []int
	SymIdx *Form
	// Base is set for pointers into opaque storage (elements of an opaque
	// slice): loads yield index(Base, SymIdx).
	Base *Opaque
	Elem types.Type
}

func (p *Ptr) Key() string {
	var sb strings.Builder
	if p.Cell != nil {
		fmt.Fprintf(&sb, "&%s#%d", p.Cell.Name, p.Cell.ID)
	} else if p.Base != nil {
		sb.WriteString("&" + p.Base.Key)
	}
	for _, i := range p.Path {
		fmt.Fprintf(&sb, ".%d", i)
	}
	if p.SymIdx != nil {
		sb.WriteString("[" + p.SymIdx.Key() + "]")
	}
	return sb.String()
}

// SliceVal is a slice value.
type SliceVal struct {
	Arr  *Ptr    // pointer to a backing array cell (Path addresses the array), or nil
	Base *Opaque // opaque backing store when Arr == nil
	Lo   *Form   // offset of element 0 within the backing store
	Len  *Form
	Elem types.Type
	Nil  bool
}

func (s *SliceVal) Key() string {
	if s.Nil {
		return "nil-slice"
	}
	b := ""
	if s.Arr != nil {
		b = s.Arr.Key()
	} else if s.Base != nil {
		b = s.Base.Key
	}
	return fmt.Sprintf("%s[%s:+%s]", b, s.Lo.Key(), s.Len.Key())
}

// FuncVal is a function value.
type FuncVal struct {
	Fn       *ssa.Function
	Bindings []Val
}

// Opaque is an uninterpreted non-numeric value.
type Opaque struct {
	Key  string
	Type types.Type
	// Dyn is the known dynamic type when the value was narrowed by a
	// successful type assertion.
	Dyn types.Type
	// Src remembers how the value was produced (an application).
	Fn   string
	Args []Val
}

// ErrVal is an error whose nil-ness is known.
type ErrVal struct {
	IsNil bool
	Desc  string
}

func (e *ErrVal) Key() string {
	if e.IsNil {
		return "nil-error"
	}
	return "error(" + e.Desc + ")"
}

// StrVal is a constant string.
type StrVal struct{ S string }

// Stream is a byte source with a tracked read position.
type Stream struct {
	Name string
	// Data is set when the stream reads from an in-memory slice value
	// (bytes.NewReader(data)): byte k of the stream is element Lo+k of it.
	Data *SliceVal
}

// ReaderVal is a reader over a stream.
type ReaderVal struct{ S *Stream }

// LimitedVal is io.LimitReader(r, n).
type LimitedVal struct {
	R *ReaderVal
	N *Form
}

// StrForm is a string built by concatenating constant pieces and decimal
// renderings of integer forms (fmt %d, strconv.Itoa).
type StrForm struct {
	Parts []Val // *StrVal or *DecVal
}

// DecVal is the decimal rendering of an integer value.
type DecVal struct{ X *Form }

func (s *StrForm) Key() string {
	var sb strings.Builder
	sb.WriteString("str[")
	for i, p := range s.Parts {
		if i > 0 {
			sb.WriteString(" + ")
		}
		switch x := p.(type) {
		case *StrVal:
			fmt.Fprintf(&sb, "%q", x.S)
		case *DecVal:
			sb.WriteString("dec(" + x.X.Key() + ")")
		}
	}
	sb.WriteString("]")
	return sb.String()
}

// IterVal is a map iterator (ssa.Range).
type IterVal struct {
	Over Val
	Of   ssa.Value
}

// MapVal is a map with recorded updates.
type MapVal struct {
	Name string
	Cell *Cell
}

type mapEntry struct{ K, V Val }

// ---------------------------------------------------------------------------
// bit vectors with provenance

// Bit is one bit: constant 0/1, bit Idx of atom A, or unknown.
type Bit struct {
	Kind byte // '0', '1', 'a' (atom bit), '?' unknown
	A    string
	Idx  int
}

type BV struct {
	Bits []Bit // index 0 = least significant
}

func bvConst(v *big.Int, w int) *BV {
	b := &BV{Bits: make([]Bit, w)}
	x := new(big.Int).Set(v)
	if x.Sign() < 0 {
		x.Add(x, new(big.Int).Lsh(big.NewInt(1), uint(w)))
	}
	for i := 0; i < w; i++ {
		if x.Bit(i) == 1 {
			b.Bits[i] = Bit{Kind: '1'}
		} else {
			b.Bits[i] = Bit{Kind: '0'}
		}
	}
	return b
}

func bvAtom(a string, aw, w int, signed bool) *BV {
	b := &BV{Bits: make([]Bit, w)}
	for i := 0; i < w; i++ {
		switch {
		case i < aw:
			b.Bits[i] = Bit{Kind: 'a', A: a, Idx: i}
		case signed:
			b.Bits[i] = Bit{Kind: 'a', A: a, Idx: aw - 1}
		default:
			b.Bits[i] = Bit{Kind: '0'}
		}
	}
	return b
}

func (b *BV) resize(w int, signed bool) *BV {
	n := &BV{Bits: make([]Bit, w)}
	for i := 0; i < w; i++ {
		switch {
		case i < len(b.Bits):
			n.Bits[i] = b.Bits[i]
		case signed && len(b.Bits) > 0:
			n.Bits[i] = b.Bits[len(b.Bits)-1]
		default:
			n.Bits[i] = Bit{Kind: '0'}
		}
	}
	return n
}

func (b *BV) shl(k int) *BV {
	w := len(b.Bits)
	n := &BV{Bits: make([]Bit, w)}
	for i := 0; i < w; i++ {
		if i-k >= 0 && i-k < w {
			n.Bits[i] = b.Bits[i-k]
		} else {
			n.Bits[i] = Bit{Kind: '0'}
		}
	}
	return n
}

func (b *BV) shr(k int, signed bool) *BV {
	w := len(b.Bits)
	n := &BV{Bits: make([]Bit, w)}
	for i := 0; i < w; i++ {
		switch {
		case i+k < w:
			n.Bits[i] = b.Bits[i+k]
		case signed:
			n.Bits[i] = b.Bits[w-1]
		default:
			n.Bits[i] = Bit{Kind: '0'}
		}
	}
	return n
}

func bitOp(op string, x, y Bit) Bit {
	same := x == y
	switch op {
	case "&":
		switch {
		case x.Kind == '0' || y.Kind == '0':
			return Bit{Kind: '0'}
		case x.Kind == '1':
			return y
		case y.Kind == '1':
			return x
		case same:
			return x
		}
	case "|":
		switch {
		case x.Kind == '1' || y.Kind == '1':
			return Bit{Kind: '1'}
		case x.Kind == '0':
			return y
		case y.Kind == '0':
			return x
		case same:
			return x
		}
	case "^":
		switch {
		case x.Kind == '0':
			return y
		case y.Kind == '0':
			return x
		case same && x.Kind != '?':
			return Bit{Kind: '0'}
		case x.Kind == '1' && y.Kind == '1':
			return Bit{Kind: '0'}
		}
	case "&^":
		switch {
		case y.Kind == '1' || x.Kind == '0':
			return Bit{Kind: '0'}
		case y.Kind == '0':
			return x
		case same && x.Kind != '?':
			return Bit{Kind: '0'}
		}
	}
	return Bit{Kind: '?'}
}

func (b *BV) bitwise(op string, o *BV) *BV {
	w := len(b.Bits)
	n := &BV{Bits: make([]Bit, w)}
	for i := 0; i < w; i++ {
		n.Bits[i] = bitOp(op, b.Bits[i], o.Bits[i])
	}
	return n
}

// constVal returns the value when every bit is constant.
func (b *BV) constVal() (*big.Int, bool) {
	v := new(big.Int)
	for i, bit := range b.Bits {
		switch bit.Kind {
		case '1':
			v.SetBit(v, i, 1)
		case '0':
		default:
			return nil, false
		}
	}
	return v, true
}

// wholeAtom reports whether b is exactly atom a zero-extended (bits 0..aw-1 of
// a in order, zeros above).
func (b *BV) wholeAtom() (a string, aw int, ok bool) {
	if len(b.Bits) == 0 || b.Bits[0].Kind != 'a' || b.Bits[0].Idx != 0 {
		return "", 0, false
	}
	a = b.Bits[0].A
	i := 0
	for ; i < len(b.Bits); i++ {
		bit := b.Bits[i]
		if bit.Kind != 'a' || bit.A != a || bit.Idx != i {
			break
		}
	}
	aw = i
	for ; i < len(b.Bits); i++ {
		if b.Bits[i].Kind != '0' {
			return "", 0, false
		}
	}
	return a, aw, true
}

// Key renders the vector as runs, most significant first, e.g.
// "0*16|in[4]:7..0|in[5]:7..0".
func (b *BV) Key() string {
	var parts []string
	i := len(b.Bits) - 1
	for i >= 0 {
		bit := b.Bits[i]
		j := i
		switch bit.Kind {
		case '0', '1', '?':
			for j-1 >= 0 && b.Bits[j-1].Kind == bit.Kind {
				j--
			}
			parts = append(parts, fmt.Sprintf("%c*%d", bit.Kind, i-j+1))
		case 'a':
			for j-1 >= 0 && b.Bits[j-1].Kind == 'a' && b.Bits[j-1].A == bit.A && b.Bits[j-1].Idx == b.Bits[j].Idx-1 {
				j--
			}
			if i == j {
				parts = append(parts, fmt.Sprintf("%s:%d", bit.A, bit.Idx))
			} else {
				parts = append(parts, fmt.Sprintf("%s:%d..%d", bit.A, bit.Idx, b.Bits[j].Idx))
			}
		}
		i = j - 1
	}
	return strings.Join(parts, "|")
}

// Runs describes the vector as a list of runs (least significant first).
type BitRun struct {
	Kind  byte
	A     string
	Lo    int // lowest source bit index (for atom runs)
	Width int
	At    int // position of the run's lowest bit in the vector
}

func (b *BV) Runs() []BitRun {
	var runs []BitRun
	i := 0
	for i < len(b.Bits) {
		bit := b.Bits[i]
		j := i
		if bit.Kind == 'a' {
			for j+1 < len(b.Bits) && b.Bits[j+1].Kind == 'a' && b.Bits[j+1].A == bit.A && b.Bits[j+1].Idx == b.Bits[j].Idx+1 {
				j++
			}
			runs = append(runs, BitRun{Kind: 'a', A: bit.A, Lo: bit.Idx, Width: j - i + 1, At: i})
		} else {
			for j+1 < len(b.Bits) && b.Bits[j+1].Kind == bit.Kind {
				j++
			}
			runs = append(runs, BitRun{Kind: bit.Kind, Width: j - i + 1, At: i})
		}
		i = j + 1
	}
	return runs
}

// ---------------------------------------------------------------------------
// type helpers

func intTypeInfo(t types.Type, wordBits int) (width int, signed, isInt bool) {
	b, ok := t.Underlying().(*types.Basic)
	if !ok {
		return 0, false, false
	}
	switch b.Kind() {
	case types.Int8:
		return 8, true, true
	case types.Int16:
		return 16, true, true
	case types.Int32:
		return 32, true, true
	case types.Int64:
		return 64, true, true
	case types.Int:
		return wordBits, true, true
	case types.Uint8:
		return 8, false, true
	case types.Uint16:
		return 16, false, true
	case types.Uint32:
		return 32, false, true
	case types.Uint64:
		return 64, false, true
	case types.Uint, types.Uintptr:
		return wordBits, false, true
	case types.UntypedInt, types.UntypedRune:
		return 64, true, true
	}
	return 0, false, false
}

func isFloatType(t types.Type) (bits int, ok bool) {
	b, isB := t.Underlying().(*types.Basic)
	if !isB {
		return 0, false
	}
	switch b.Kind() {
	case types.Float32:
		return 32, true
	case types.Float64, types.UntypedFloat:
		return 64, true
	}
	return 0, false
}

func isBoolType(t types.Type) bool {
	b, ok := t.Underlying().(*types.Basic)
	return ok && b.Info()&types.IsBoolean != 0
}

func isStringType(t types.Type) bool {
	b, ok := t.Underlying().(*types.Basic)
	return ok && b.Info()&types.IsString != 0
}

func isErrorType(t types.Type) bool {
	return types.Identical(t, types.Universe.Lookup("error").Type())
}

// sortedKeys returns the sorted keys of a string set.
func sortedKeys(m map[string]bool) []string {
	ks := make([]string, 0, len(m))
	for k := range m {
		ks = append(ks, k)
	}
	sort.Strings(ks)
	return ks
}
