package main

import (
	"go/constant"
	"go/token"
	"go/types"
	"strings"

	"golang.org/x/tools/go/ssa"
)

// ---------------------------------------------------------------------------
// basic SSA helpers (Engine F)

// refs returns the referrers of v without debug references.
func refs(v ssa.Value) []ssa.Instruction {
	rp := v.Referrers()
	if rp == nil {
		return nil
	}
	var out []ssa.Instruction
	for _, in := range *rp {
		if _, ok := in.(*ssa.DebugRef); ok {
			continue
		}
		out = append(out, in)
	}
	return out
}

// staticCallee resolves the callee of a call instruction through SSA value
// identity (never by name): a function, a method, or a closure literal.
func staticCallee(c ssa.CallInstruction) *ssa.Function {
	if c == nil {
		return nil
	}
	cc := c.Common()
	if cc.IsInvoke() {
		return nil
	}
	switch v := cc.Value.(type) {
	case *ssa.Function:
		return v
	case *ssa.MakeClosure:
		return v.Fn.(*ssa.Function)
	}
	return nil
}

// fnIs reports whether f is the package-level function path.name.
func fnIs(f *ssa.Function, path, name string) bool {
	if f == nil || f.Pkg == nil || f.Signature.Recv() != nil {
		return false
	}
	return f.Pkg.Pkg.Path() == path && f.Name() == name
}

// methIs reports whether f is method name on (pointer to) path.typ.
func methIs(f *ssa.Function, path, typ, name string) bool {
	if f == nil || f.Signature.Recv() == nil || f.Name() != name {
		return false
	}
	t := f.Signature.Recv().Type()
	if p, ok := t.(*types.Pointer); ok {
		t = p.Elem()
	}
	n, ok := t.(*types.Named)
	if !ok || n.Obj().Pkg() == nil {
		return false
	}
	return n.Obj().Pkg().Path() == path && n.Obj().Name() == typ
}

// callTo reports whether in is a (non-invoke) call of path.name.
func callTo(in ssa.Instruction, path, name string) (*ssa.Call, bool) {
	c, ok := in.(*ssa.Call)
	if !ok {
		return nil, false
	}
	if fnIs(staticCallee(c), path, name) {
		return c, true
	}
	return nil, false
}

// isBuiltinCall reports a call of the named builtin (len, recover, ...).
func isBuiltinCall(in ssa.Instruction, name string) bool {
	c, ok := in.(ssa.CallInstruction)
	if !ok {
		return false
	}
	b, ok := c.Common().Value.(*ssa.Builtin)
	return ok && b.Name() == name
}

// stripIface removes interface/type wrapping conversions.
func stripIface(v ssa.Value) ssa.Value {
	for {
		switch x := v.(type) {
		case *ssa.MakeInterface:
			v = x.X
		case *ssa.ChangeInterface:
			v = x.X
		case *ssa.ChangeType:
			v = x.X
		default:
			return v
		}
	}
}

// instrIndex is the index of in within its block.
func instrIndex(in ssa.Instruction) int {
	for i, o := range in.Block().Instrs {
		if o == in {
			return i
		}
	}
	return -1
}

// dominatesInstr reports whether a is executed before b on every path to b.
func dominatesInstr(a, b ssa.Instruction) bool {
	if a.Block() == b.Block() {
		return instrIndex(a) < instrIndex(b)
	}
	return a.Block().Dominates(b.Block())
}

// constInt returns the integer value of a constant SSA value.
func constInt(v ssa.Value) (int64, bool) {
	c, ok := v.(*ssa.Const)
	if !ok || c.Value == nil {
		return 0, false
	}
	if c.Value.Kind() != constant.Int {
		return 0, false
	}
	i, exact := constant.Int64Val(c.Value)
	if !exact {
		u, ok := constant.Uint64Val(c.Value)
		if ok {
			return int64(u), true
		}
	}
	return i, exact
}

func isNilConst(v ssa.Value) bool {
	c, ok := v.(*ssa.Const)
	return ok && c.Value == nil
}

// sliceLitElems decodes the SSA idiom for a slice literal / variadic argument:
//
//	a = new [N]T; *(&a[0]) = e0; ...; s = slice a[:]
//
// and returns e0..eN-1. ok is false when anything else touches the array.
func sliceLitElems(v ssa.Value) (elems []ssa.Value, ok bool) {
	sl, isSl := v.(*ssa.Slice)
	if !isSl || sl.Low != nil || sl.High != nil || sl.Max != nil {
		return nil, false
	}
	al, isAl := sl.X.(*ssa.Alloc)
	if !isAl {
		return nil, false
	}
	pt, _ := al.Type().Underlying().(*types.Pointer)
	if pt == nil {
		return nil, false
	}
	at, _ := pt.Elem().Underlying().(*types.Array)
	if at == nil {
		return nil, false
	}
	elems = make([]ssa.Value, at.Len())
	for _, r := range refs(al) {
		switch r := r.(type) {
		case *ssa.Slice:
			if r != sl {
				return nil, false
			}
		case *ssa.IndexAddr:
			idx, isC := constInt(r.Index)
			if !isC || idx < 0 || idx >= at.Len() {
				return nil, false
			}
			for _, rr := range refs(r) {
				st, isSt := rr.(*ssa.Store)
				if !isSt || st.Addr != r {
					return nil, false
				}
				if elems[idx] != nil {
					return nil, false
				}
				elems[idx] = st.Val
			}
		default:
			return nil, false
		}
	}
	for _, e := range elems {
		if e == nil {
			return nil, false
		}
	}
	return elems, true
}

// reachableFns returns the prism functions reachable from the roots through
// static calls, closures created, and function values referenced (a sound
// over-approximation for this code base, which stores no function values in
// data structures other than the autometa loader table, handled separately).
func reachableFns(roots ...*ssa.Function) map[*ssa.Function]bool {
	seen := map[*ssa.Function]bool{}
	var walk func(f *ssa.Function)
	walk = func(f *ssa.Function) {
		if f == nil || seen[f] || !isPrismFn(f) {
			return
		}
		seen[f] = true
		for _, b := range f.Blocks {
			for _, in := range b.Instrs {
				var ops []*ssa.Value
				for _, op := range in.Operands(ops) {
					if op == nil || *op == nil {
						continue
					}
					switch v := (*op).(type) {
					case *ssa.Function:
						walk(v)
					case *ssa.MakeClosure:
						walk(v.Fn.(*ssa.Function))
					}
				}
			}
		}
		for _, a := range f.AnonFuncs {
			walk(a)
		}
	}
	for _, r := range roots {
		walk(r)
	}
	return seen
}

// ---------------------------------------------------------------------------
// induction variables

// IndVar describes a loop counter recognised from SSA:
//
//	phi = [init (from outside the loop), phi + step (from the latch)]
//	loop continues while  cmpLHS  <op>  Limit   where cmpLHS is phi or phi+step
type IndVar struct {
	Phi     *ssa.Phi
	Init    ssa.Value
	Step    ssa.Value // the addend (may be a constant or any loop-invariant value)
	Next    *ssa.BinOp
	Cond    *ssa.BinOp
	Op      token.Token // comparison operator, normalised so that the counter is on the left
	Limit   ssa.Value
	Down    bool // the counter decreases: phi − Step
	PreInc  bool // the comparison tests phi+step (range-over-index form, phi starts at init and body uses Next)
	Body    *ssa.BasicBlock
	Exit    *ssa.BasicBlock
	Counter ssa.Value // the value the body sees as the index (Phi, or Next when PreInc)
}

// findIndVar recognises phi as an induction variable.
func findIndVar(phi *ssa.Phi) *IndVar {
	iv := affinePhi(phi)
	if iv == nil {
		return nil
	}
	// find the controlling comparison in the phi's block
	blk := phi.Block()
	ifi, ok := blk.Instrs[len(blk.Instrs)-1].(*ssa.If)
	if !ok {
		return nil
	}
	cmp, ok := ifi.Cond.(*ssa.BinOp)
	if !ok {
		return nil
	}
	op := cmp.Op
	var lhs, rhs ssa.Value = cmp.X, cmp.Y
	if rhs == ssa.Value(phi) || rhs == ssa.Value(iv.Next) {
		lhs, rhs = rhs, lhs
		switch op {
		case token.LSS:
			op = token.GTR
		case token.GTR:
			op = token.LSS
		case token.LEQ:
			op = token.GEQ
		case token.GEQ:
			op = token.LEQ
		}
	}
	switch lhs {
	case ssa.Value(phi):
		iv.Counter = phi
	case ssa.Value(iv.Next):
		iv.PreInc = true
		iv.Counter = iv.Next
	default:
		return nil
	}
	switch op {
	case token.LSS, token.LEQ, token.GTR, token.GEQ, token.NEQ:
	default:
		return nil
	}
	iv.Cond = cmp
	iv.Op = op
	iv.Limit = rhs
	iv.Body = blk.Succs[0]
	iv.Exit = blk.Succs[1]
	return iv
}

// affinePhi recognises phi = [init, phi ± step] (without looking at the loop
// condition). Down reports a decrementing counter (phi − step).
func affinePhi(phi *ssa.Phi) *IndVar {
	if len(phi.Edges) < 2 {
		return nil
	}
	if b, ok := phi.Type().Underlying().(*types.Basic); ok && b.Info()&types.IsFloat != 0 {
		// a floating-point accumulator is not start + k·step: every addition rounds, and
		// the error grows with the trip count (x += 1/65535 ends a whole step short of 1)
		return nil
	}
	// one edge from outside the loop (the start value); every other edge — the latch, and
	// one more per `continue` — carries the same phi ± step value
	iv := &IndVar{Phi: phi}
	for _, e := range phi.Edges {
		bo, ok := e.(*ssa.BinOp)
		if !ok {
			continue
		}
		switch {
		case bo.Op == token.ADD && (bo.X == ssa.Value(phi) || bo.Y == ssa.Value(phi)):
			if iv.Next != nil && iv.Next != bo {
				return nil
			}
			iv.Next = bo
			if bo.X == ssa.Value(phi) {
				iv.Step = bo.Y
			} else {
				iv.Step = bo.X
			}
		case bo.Op == token.SUB && bo.X == ssa.Value(phi):
			if iv.Next != nil && iv.Next != bo {
				return nil
			}
			iv.Next = bo
			iv.Step = bo.Y
			iv.Down = true
		}
	}
	if iv.Next == nil {
		return nil
	}
	for _, e := range phi.Edges {
		if e == ssa.Value(iv.Next) {
			continue
		}
		if iv.Init != nil {
			return nil // two different start values
		}
		iv.Init = e
	}
	if iv.Init == nil {
		return nil
	}
	return iv
}

// loopIndVars lists the induction variables of function f.
func loopIndVars(f *ssa.Function) []*IndVar {
	var out []*IndVar
	for _, b := range f.Blocks {
		for _, in := range b.Instrs {
			phi, ok := in.(*ssa.Phi)
			if !ok {
				break
			}
			if iv := findIndVar(phi); iv != nil {
				out = append(out, iv)
			}
		}
	}
	return out
}

// typeString renders a type with the module path shortened.
func typeString(t types.Type) string {
	s := types.TypeString(t, nil)
	return strings.ReplaceAll(s, ModPath+"/", "")
}

// namedIs reports whether t (or *t) is the named type path.name.
func namedIs(t types.Type, path, name string) bool {
	if p, ok := t.(*types.Pointer); ok {
		t = p.Elem()
	}
	n, ok := t.(*types.Named)
	if !ok || n.Obj().Pkg() == nil {
		return false
	}
	return n.Obj().Pkg().Path() == path && n.Obj().Name() == name
}
