package main

import (
	"fmt"
	"math/big"
	"sort"
	"strings"
)

// ---------------------------------------------------------------------------
// Exact rational-function normal forms (Engine S).
//
// A Form is N/D with N, D multivariate polynomials over named atoms with
// big.Rat coefficients. Equality is decided by cross-multiplication, so two
// source expressions that denote the same rational function compare equal
// whatever their shape. This is algebraic normalisation of the program text;
// nothing is executed.

// mono is a monomial: atoms with positive powers, sorted by atom key.
type mono struct {
	vars []mvar
	key  string
}
type mvar struct {
	a string
	p int
}

func mkMono(vs []mvar) mono {
	sort.Slice(vs, func(i, j int) bool { return vs[i].a < vs[j].a })
	var sb strings.Builder
	for _, v := range vs {
		sb.WriteString(v.a)
		sb.WriteByte(1)
		fmt.Fprintf(&sb, "%d", v.p)
		sb.WriteByte(2)
	}
	return mono{vars: vs, key: sb.String()}
}

func (m mono) mul(o mono) mono {
	if len(m.vars) == 0 {
		return o
	}
	if len(o.vars) == 0 {
		return m
	}
	acc := map[string]int{}
	for _, v := range m.vars {
		acc[v.a] += v.p
	}
	for _, v := range o.vars {
		acc[v.a] += v.p
	}
	vs := make([]mvar, 0, len(acc))
	for a, p := range acc {
		vs = append(vs, mvar{a, p})
	}
	return mkMono(vs)
}

func (m mono) degree() int {
	d := 0
	for _, v := range m.vars {
		d += v.p
	}
	return d
}

// Poly is a polynomial.
type Poly struct {
	t map[string]*pterm
}
type pterm struct {
	m mono
	c *big.Rat
}

func newPoly() *Poly { return &Poly{t: map[string]*pterm{}} }

func polyConst(c *big.Rat) *Poly {
	p := newPoly()
	if c.Sign() != 0 {
		p.t[""] = &pterm{m: mono{}, c: new(big.Rat).Set(c)}
	}
	return p
}

func polyAtom(a string) *Poly {
	p := newPoly()
	m := mkMono([]mvar{{a, 1}})
	p.t[m.key] = &pterm{m: m, c: big.NewRat(1, 1)}
	return p
}

func (p *Poly) addTerm(m mono, c *big.Rat) {
	if c.Sign() == 0 {
		return
	}
	if t, ok := p.t[m.key]; ok {
		t.c.Add(t.c, c)
		if t.c.Sign() == 0 {
			delete(p.t, m.key)
		}
		return
	}
	p.t[m.key] = &pterm{m: m, c: new(big.Rat).Set(c)}
}

func (p *Poly) clone() *Poly {
	q := newPoly()
	for k, t := range p.t {
		q.t[k] = &pterm{m: t.m, c: new(big.Rat).Set(t.c)}
	}
	return q
}

func (p *Poly) add(o *Poly) *Poly {
	q := p.clone()
	for _, t := range o.t {
		q.addTerm(t.m, t.c)
	}
	return q
}

func (p *Poly) neg() *Poly {
	q := newPoly()
	for k, t := range p.t {
		q.t[k] = &pterm{m: t.m, c: new(big.Rat).Neg(t.c)}
	}
	return q
}

func (p *Poly) sub(o *Poly) *Poly { return p.add(o.neg()) }

func (p *Poly) mul(o *Poly) *Poly {
	q := newPoly()
	for _, a := range p.t {
		for _, b := range o.t {
			q.addTerm(a.m.mul(b.m), new(big.Rat).Mul(a.c, b.c))
		}
	}
	return q
}

func (p *Poly) scale(c *big.Rat) *Poly {
	q := newPoly()
	if c.Sign() == 0 {
		return q
	}
	for k, t := range p.t {
		q.t[k] = &pterm{m: t.m, c: new(big.Rat).Mul(t.c, c)}
	}
	return q
}

func (p *Poly) isZero() bool { return len(p.t) == 0 }

// constVal returns the value when p is a constant polynomial.
func (p *Poly) constVal() (*big.Rat, bool) {
	switch len(p.t) {
	case 0:
		return new(big.Rat), true
	case 1:
		if t, ok := p.t[""]; ok {
			return t.c, true
		}
	}
	return nil, false
}

func (p *Poly) equal(o *Poly) bool {
	if len(p.t) != len(o.t) {
		return false
	}
	for k, t := range p.t {
		u, ok := o.t[k]
		if !ok || t.c.Cmp(u.c) != 0 {
			return false
		}
	}
	return true
}

func (p *Poly) sortedTerms() []*pterm {
	ts := make([]*pterm, 0, len(p.t))
	for _, t := range p.t {
		ts = append(ts, t)
	}
	sort.Slice(ts, func(i, j int) bool {
		di, dj := ts[i].m.degree(), ts[j].m.degree()
		if di != dj {
			return di < dj
		}
		return ts[i].m.key < ts[j].m.key
	})
	return ts
}

// ratStr renders a coefficient exactly when short, otherwise as a 17-digit
// decimal followed by '~' (display only; keys use keyString).
func ratStr(c *big.Rat) string {
	if c.IsInt() {
		return c.Num().String()
	}
	if c.Denom().BitLen() <= 20 && c.Num().BitLen() <= 40 {
		return c.RatString()
	}
	f, _ := c.Float64()
	return fmt.Sprintf("%.17g~", f)
}

// keyString is an exact canonical rendering of p.
func (p *Poly) keyString() string {
	if len(p.t) == 0 {
		return "0"
	}
	var sb strings.Builder
	for i, t := range p.sortedTerms() {
		if i > 0 {
			sb.WriteString("+")
		}
		sb.WriteString(t.c.RatString())
		for _, v := range t.m.vars {
			sb.WriteString("*")
			sb.WriteString(v.a)
			if v.p != 1 {
				fmt.Fprintf(&sb, "^%d", v.p)
			}
		}
	}
	return sb.String()
}

func (p *Poly) String() string {
	if len(p.t) == 0 {
		return "0"
	}
	var sb strings.Builder
	for i, t := range p.sortedTerms() {
		c := t.c
		if i > 0 {
			if c.Sign() < 0 {
				sb.WriteString(" - ")
				c = new(big.Rat).Neg(c)
			} else {
				sb.WriteString(" + ")
			}
		} else if c.Sign() < 0 {
			sb.WriteString("-")
			c = new(big.Rat).Neg(c)
		}
		one := c.Cmp(big.NewRat(1, 1)) == 0
		if len(t.m.vars) == 0 {
			sb.WriteString(ratStr(c))
			continue
		}
		if !one {
			sb.WriteString(ratStr(c))
			sb.WriteString("*")
		}
		for j, v := range t.m.vars {
			if j > 0 {
				sb.WriteString("*")
			}
			sb.WriteString(v.a)
			if v.p != 1 {
				fmt.Fprintf(&sb, "^%d", v.p)
			}
		}
	}
	return sb.String()
}

// atoms lists the atom keys occurring in p.
func (p *Poly) atoms(into map[string]bool) {
	for _, t := range p.t {
		for _, v := range t.m.vars {
			into[v.a] = true
		}
	}
}

// subst replaces atoms by forms.
func (p *Poly) subst(env map[string]*Form) *Form {
	res := formInt(0)
	for _, t := range p.t {
		term := formRat(t.c)
		for _, v := range t.m.vars {
			var f *Form
			if e, ok := env[v.a]; ok {
				f = e
			} else {
				f = formAtom(v.a)
			}
			for i := 0; i < v.p; i++ {
				term = term.Mul(f)
			}
		}
		res = res.Add(term)
	}
	return res
}

// Form is a rational function N/D.
type Form struct {
	N, D *Poly
	// F32 records that some arithmetic operation forming this value was
	// performed in float32 (used by rules that require float64 evaluation).
	F32 bool
}

func formRat(c *big.Rat) *Form { return &Form{N: polyConst(c), D: polyConst(big.NewRat(1, 1))} }
func formInt(i int64) *Form    { return formRat(new(big.Rat).SetInt64(i)) }
func formAtom(a string) *Form  { return &Form{N: polyAtom(a), D: polyConst(big.NewRat(1, 1))} }

func (f *Form) norm() *Form {
	if c, ok := f.D.constVal(); ok && c.Sign() != 0 {
		if c.Cmp(big.NewRat(1, 1)) != 0 {
			f.N = f.N.scale(new(big.Rat).Inv(c))
			f.D = polyConst(big.NewRat(1, 1))
		}
		return f
	}
	if f.N.isZero() {
		f.D = polyConst(big.NewRat(1, 1))
		return f
	}
	// cancel identical numerator and denominator, and make the denominator's
	// leading coefficient 1 for readability
	if f.N.equal(f.D) {
		f.N = polyConst(big.NewRat(1, 1))
		f.D = polyConst(big.NewRat(1, 1))
		return f
	}
	// cancel the common monomial content of numerator and denominator
	g := map[string]int{}
	first := true
	for _, pl := range []*Poly{f.N, f.D} {
		for _, t := range pl.t {
			cur := map[string]int{}
			for _, v := range t.m.vars {
				cur[v.a] = v.p
			}
			if first {
				g = cur
				first = false
				continue
			}
			for a, pw := range g {
				if c, ok := cur[a]; !ok {
					delete(g, a)
				} else if c < pw {
					g[a] = c
				}
			}
		}
	}
	if len(g) > 0 {
		f.N = f.N.divMono(g)
		f.D = f.D.divMono(g)
		if c, ok := f.D.constVal(); ok && c.Sign() != 0 && c.Cmp(big.NewRat(1, 1)) != 0 {
			f.N = f.N.scale(new(big.Rat).Inv(c))
			f.D = polyConst(big.NewRat(1, 1))
		}
	}
	return f
}

// divMono divides every term by the monomial g (which must divide it).
func (p *Poly) divMono(g map[string]int) *Poly {
	q := newPoly()
	for _, t := range p.t {
		var vs []mvar
		for _, v := range t.m.vars {
			if pw := v.p - g[v.a]; pw > 0 {
				vs = append(vs, mvar{v.a, pw})
			}
		}
		q.addTerm(mkMono(vs), t.c)
	}
	return q
}

func (f *Form) Add(o *Form) *Form {
	if f.D.equal(o.D) {
		return (&Form{N: f.N.add(o.N), D: f.D, F32: f.F32 || o.F32}).norm()
	}
	return (&Form{N: f.N.mul(o.D).add(o.N.mul(f.D)), D: f.D.mul(o.D), F32: f.F32 || o.F32}).norm()
}
func (f *Form) Neg() *Form { return &Form{N: f.N.neg(), D: f.D, F32: f.F32} }
func (f *Form) Sub(o *Form) *Form {
	return f.Add(o.Neg())
}
func (f *Form) Mul(o *Form) *Form {
	return (&Form{N: f.N.mul(o.N), D: f.D.mul(o.D), F32: f.F32 || o.F32}).norm()
}
func (f *Form) Div(o *Form) *Form {
	return (&Form{N: f.N.mul(o.D), D: f.D.mul(o.N), F32: f.F32 || o.F32}).norm()
}

// Const returns the value if f is a constant.
func (f *Form) Const() (*big.Rat, bool) {
	d, ok := f.D.constVal()
	if !ok || d.Sign() == 0 {
		return nil, false
	}
	n, ok := f.N.constVal()
	if !ok {
		return nil, false
	}
	return new(big.Rat).Quo(n, d), true
}

// ConstInt returns the value if f is an integer constant.
func (f *Form) ConstInt() (int64, bool) {
	c, ok := f.Const()
	if !ok || !c.IsInt() || !c.Num().IsInt64() {
		return 0, false
	}
	return c.Num().Int64(), true
}

// Equal decides equality of rational functions by cross-multiplication.
func (f *Form) Equal(o *Form) bool {
	if f.D.equal(o.D) {
		return f.N.equal(o.N)
	}
	return f.N.mul(o.D).equal(o.N.mul(f.D))
}

// SingleAtom returns the atom key when f is exactly one atom with coefficient 1.
func (f *Form) SingleAtom() (string, bool) {
	if d, ok := f.D.constVal(); !ok || d.Cmp(big.NewRat(1, 1)) != 0 {
		return "", false
	}
	if len(f.N.t) != 1 {
		return "", false
	}
	for _, t := range f.N.t {
		if len(t.m.vars) == 1 && t.m.vars[0].p == 1 && t.c.Cmp(big.NewRat(1, 1)) == 0 {
			return t.m.vars[0].a, true
		}
	}
	return "", false
}

// Atoms lists atoms of numerator and denominator.
func (f *Form) Atoms() map[string]bool {
	m := map[string]bool{}
	f.N.atoms(m)
	f.D.atoms(m)
	return m
}

// Subst substitutes atoms.
func (f *Form) Subst(env map[string]*Form) *Form {
	return f.N.subst(env).Div(f.D.subst(env))
}

// Coeff returns the coefficient of atom a when f is affine in a (D constant);
// the second result is the remainder f - coeff*a.
func (f *Form) LinearCoeff(a string) (*big.Rat, bool) {
	if _, ok := f.D.constVal(); !ok {
		return nil, false
	}
	m := mkMono([]mvar{{a, 1}})
	if t, ok := f.N.t[m.key]; ok {
		return t.c, true
	}
	return new(big.Rat), true
}

// IsLinearIn reports whether f is a homogeneous linear form in exactly the
// given atoms (no constant term, no other atoms, degree 1).
func (f *Form) IsLinearIn(atoms []string) bool {
	if d, ok := f.D.constVal(); !ok || d.Sign() == 0 {
		return false
	}
	allowed := map[string]bool{}
	for _, a := range atoms {
		allowed[a] = true
	}
	for _, t := range f.N.t {
		if len(t.m.vars) != 1 || t.m.vars[0].p != 1 || !allowed[t.m.vars[0].a] {
			return false
		}
	}
	return true
}

func (f *Form) String() string {
	if f == nil {
		return "<none>"
	}
	if d, ok := f.D.constVal(); ok && d.Cmp(big.NewRat(1, 1)) == 0 {
		return f.N.String()
	}
	return "(" + f.N.String() + ")/(" + f.D.String() + ")"
}

// Key is a canonical textual key (used to build atom keys of applications).
func (f *Form) Key() string {
	if f == nil {
		return "<none>"
	}
	if d, ok := f.D.constVal(); ok && d.Cmp(big.NewRat(1, 1)) == 0 {
		return f.N.keyString()
	}
	return "(" + f.N.keyString() + ")/(" + f.D.keyString() + ")"
}
