package main

import (
	"fmt"
	"go/constant"
	"go/types"
	"sort"
	"strings"

	"golang.org/x/tools/go/ssa"
)

// C05 — reported dimensions, bit depth and format equal the header's.

func init() {
	register(&PropertyCheck{ID: "C05", Level: "other", Run: runC05})
}

type runSpec struct{ Off, Lo, Width int }

func runsMatch(runs []bitsRun, spec []runSpec) bool {
	if len(runs) != len(spec) {
		return false
	}
	at := 0
	for k := len(spec) - 1; k >= 0; k-- {
		rr, sp := runs[k], spec[k]
		c, ok := rr.Off.ConstInt()
		if !ok || int(c) != sp.Off || rr.Lo != sp.Lo || rr.Width != sp.Width || rr.At != at {
			return false
		}
		at += sp.Width
	}
	return true
}

func specStr(spec []runSpec) string {
	var parts []string
	for _, s := range spec {
		parts = append(parts, fmt.Sprintf("in[%d] bits %d..%d", s.Off, s.Lo+s.Width-1, s.Lo))
	}
	return strings.Join(parts, " | ")
}

// webp layout oracle: RFC 9649 (container, VP8X), RFC 6386 §9.1 (VP8 frame
// header), WebP lossless bitstream §3 (VP8L header). Offsets are absolute
// stream offsets: RIFF header 12 bytes + chunk header 8 bytes, payload at 20.
type webpKind struct {
	FourCC        string
	Width, Height []runSpec
	PlusOne       bool
	Guards        map[int]int64 // byte offset -> required value
	LenIs10       bool
}

var webpKinds = []webpKind{
	{"VP8 ", []runSpec{{27, 0, 6}, {26, 0, 8}}, []runSpec{{29, 0, 6}, {28, 0, 8}}, false, map[int]int64{23: 0x9d, 24: 0x01, 25: 0x2a}, false},
	{"VP8L", []runSpec{{22, 0, 6}, {21, 0, 8}}, []runSpec{{24, 0, 4}, {23, 0, 8}, {22, 6, 2}}, true, map[int]int64{20: 0x2f}, false},
	{"VP8X", []runSpec{{26, 0, 8}, {25, 0, 8}, {24, 0, 8}}, []runSpec{{29, 0, 8}, {28, 0, 8}, {27, 0, 8}}, true, nil, true},
}

func runC05(p *Program, r *Report) {
	r.Explanation = "The three extractMetadata parsers are abstractly interpreted over a symbolic byte stream with an exact bit-provenance domain (parse loops followed for a bounded number of iterations, skip loops summarised): on EVERY explored success path the values stored to PixelWidth/PixelHeight/BitsPerComponent consist of exactly the header bits the format specifications assign (PNG IHDR BE32/BE32/byte after the 'IHDR' tag; JPEG SOF0/SOF2 Data[3:5], Data[1:3], Data[0]; WebP VP8 14-bit LE fields behind the 9D 01 2A start code, VP8L 14+14 bits behind 0x2F (+1), VP8X 24-bit LE (+1) with chunk length 10), the required signatures/guards are on the path, Format is the package's constant, every success path has all fields assigned from one header; PNG chunk headers are always read at chunk boundaries (t_next = t + 12 + Length for every arm); the JPEG marker table maps every declared marker to the stand-alone or length-carrying arm the standard prescribes, DataLength = length − 2, and readSegment consumes exactly DataLength bytes with a full-read primitive; autometa returns the chosen loader's metadata unmodified (C19). NOT decided: agreement with image.DecodeConfig on real files (a runtime oracle), JPEG constructs outside the marker table (fill bytes, SOF1, DNL), CRC/chunk-order validation; path exploration is bounded (3 chunks/segments per path), the per-arm position algebra is what generalises it."
	r.RuleText = "one instance per (parser, kind/arm, field) over all explored success paths, per marker constant, per chunk-chain link; facts are bit-provenance comparisons with the format specifications' layouts"
	r.Trusted = []string{"go/packages+go/types+go/ssa (x/tools v0.29.0)", "the abstract interpreter (bounded path exploration, loop summaries)", "ReadByte/io.ReadFull/io.CopyN deliver the next bytes in order", "format layout tables embedded in the checker (PNG spec §11.2.2, ITU T.81 B.2.2, RFC 9649, RFC 6386 §9.1, VP8L spec §3)"}
	checkWebpFields(p, r)
	checkPngFields(p, r)
	checkJpegFields(p, r)
	checkJpegMarkerTable(p, r)
	checkFormatConst(p, r)
	rd1Scan(p, r, "C05.fullread")
	checkLoadPassThrough(p, r)
	r.Floor("C05.load", 3)
	// a header parser that reads more than the format's header rejects the smallest well-formed
	// files (a lossless WebP header is 5 bytes, not 10): the C18 end-position rule for WebP,
	// re-evaluated here as a premise
	{
		sub := NewReport("C18", "other")
		checkStopWebp(p, sub)
		for _, ob := range sub.Obls {
			if ob.Rule != "C18.E4" {
				continue
			}
			ob.Rule = "C05.premise-" + ob.Rule
			ob.Key = "C05.premise-" + ob.Key
			r.Obls = append(r.Obls, ob)
		}
	}
	r.Floor("C05.fullread", 1)
	r.Floor("C05.fields", 15)
	r.Floor("C05.guards", 6)
	r.Floor("C05.dispatch", 35)
	r.Floor("C05.assigned", 3)
	r.Floor("C05.writers", 3)
}

func webpRun(p *Program) *parserRun {
	return runParser(p, p.Func("meta/webpmeta", "extractMetadata"), parserOpts{MaxIter: 3, MaxForks: 4, FailReads: true})
}

func checkWebpFields(p *Program, r *Report) {
	fn := p.Func("meta/webpmeta", "extractMetadata")
	if fn == nil {
		r.Undecide("C05.fields", "webpmeta.extractMetadata", "-", "parser not found")
		return
	}
	for _, f := range reachableFnsList(fn) {
		r.SawFn(f)
	}
	pr := webpRun(p)
	pos := p.FnPos(fn)
	if len(pr.Stuck) > 0 {
		r.Undecide("C05.fields", "webpmeta.extractMetadata", p.Pos(pr.Stuck[0].Pos), "parser not extractable: "+pr.Stuck[0].Why)
		return
	}
	checkFieldWriters(p, r, "C05.writers", "webpmeta", pr)
	e := pr.E
	u32 := types.Typ[types.Uint32]
	for _, kind := range webpKinds {
		key := "webp " + strings.TrimSpace(kind.FourCC)
		var outs []Outcome
		for _, o := range pr.Succ {
			for _, t := range tagConds(e, o) {
				if c, ok := t.Off.ConstInt(); ok && c == 12 && t.Equal && t.Tag == kind.FourCC {
					outs = append(outs, o)
				}
			}
		}
		if len(outs) == 0 {
			r.Violate("C05.fields", key+" width", pos, "no success path for a '"+kind.FourCC+"' chunk: this WebP flavour is rejected or misdetected")
			continue
		}
		wOK, hOK, bOK, gOK := true, true, true, true
		wGot, hGot, gWhy := "", "", ""
		for _, o := range outs {
			md := mdOf(o)
			if !md.OK {
				wOK, wGot = false, "a success path returns metadata with unassigned fields"
				continue
			}
			w, h := md.Width, md.Height
			if kind.PlusOne {
				w, h = w.Sub(formInt(1)), h.Sub(formInt(1))
			}
			if runs, ok := fieldRuns(e, w, u32); !ok || !runsMatch(runs, kind.Width) {
				wOK = false
				wGot = md.Width.String()
				if ok {
					wGot = runsStr(runs)
				}
			}
			if runs, ok := fieldRuns(e, h, u32); !ok || !runsMatch(runs, kind.Height) {
				hOK = false
				hGot = md.Height.String()
				if ok {
					hGot = runsStr(runs)
				}
			}
			if c, ok := md.Bits.ConstInt(); !ok || c != 8 {
				bOK = false
			}
			// guards
			tags := tagConds(e, o)
			has := func(off int64, tag string) bool {
				for _, t := range tags {
					if c, ok := t.Off.ConstInt(); ok && c == off && t.Equal && t.Tag == tag {
						return true
					}
				}
				return false
			}
			if !has(0, "RIFF") || !has(8, "WEBP") {
				gOK, gWhy = false, "RIFF/WEBP four-ccs at offsets 0 and 8 are not required on the success path"
			}
			eqs := byteEqConds(e, o)
			for off, want := range kind.Guards {
				if got, ok := eqs[fmt.Sprint(off)]; !ok || got != want {
					gOK, gWhy = false, fmt.Sprintf("byte %d is not required to be %#x on the success path", off, want)
				}
			}
			if kind.LenIs10 {
				found := false
				for _, c := range o.St.conds {
					a, ok1 := c.A.(*Form)
					b, ok2 := c.B.(*Form)
					if c.Op != "==" || !ok1 || !ok2 {
						continue
					}
					if cv, isC := b.ConstInt(); isC && cv == 10 {
						if runs, ok := fieldRuns(e, a, u32); ok && runsMatch(runs, []runSpec{{19, 0, 8}, {18, 0, 8}, {17, 0, 8}, {16, 0, 8}}) {
							found = true
						}
					}
				}
				if !found {
					gOK, gWhy = false, "VP8X chunk length (LE32 at 16..19) is not required to be 10"
				}
			}
		}
		plus := ""
		if kind.PlusOne {
			plus = "1 + "
		}
		r.Check(wOK, "C05.fields", key+" width", pos, fmt.Sprintf("on all %d success paths width = %s[%s]", len(outs), plus, specStr(kind.Width)), fmt.Sprintf("width is built from [%s]; the specification requires %s[%s]", wGot, plus, specStr(kind.Width)))
		r.Check(hOK, "C05.fields", key+" height", pos, fmt.Sprintf("height = %s[%s]", plus, specStr(kind.Height)), fmt.Sprintf("height is built from [%s]; the specification requires %s[%s]", hGot, plus, specStr(kind.Height)))
		r.Check(bOK, "C05.fields", key+" bits", pos, "bits per component = 8 (fixed in WebP)", "bits per component is not the constant 8")
		r.Check(gOK, "C05.guards", key, pos, "RIFF@0, WEBP@8, '"+kind.FourCC+"'@12 and the frame signature are required on every success path", gWhy)
	}
	// definite assignment: every success path has all three fields from one header
	all := true
	for _, o := range pr.Succ {
		if md := mdOf(o); !md.OK || md.Width.Equal(formInt(0)) || md.Height.Equal(formInt(0)) || md.Bits.Equal(formInt(0)) {
			all = false
		}
	}
	r.Check(all && len(pr.Succ) >= 3, "C05.assigned", "webpmeta", pos, fmt.Sprintf("all %d success paths assign width, height and bit depth (none left at its zero value)", len(pr.Succ)), "a success path leaves a dimension field unassigned (zero): a field is stored twice while its sibling is never stored")
}

// pngShortIHDR: the path is only taken by a file whose IHDR chunk declares fewer than the 13
// data bytes the format fixes (it ran out of IHDR data right after the 9 bytes the parser
// reads): not a well-formed PNG, outside the domain of C05/C06/C18.
func pngShortIHDR(e *Engine, o Outcome) bool {
	var plain []*BoolVal
	for _, c := range o.St.conds {
		cc := *c
		cc.Src, cc.Exact = nil, nil
		plain = append(plain, &cc)
	}
	for _, t := range tagConds(e, o) {
		if !t.Equal || t.Tag != "IHDR" {
			continue
		}
		L := e.beU32(t.Off.Sub(formInt(4)))
		if e.refutes(plain, &BoolVal{Op: ">=", A: L, B: formInt(13)}) {
			return true
		}
	}
	return false
}

func pngRunRaw(p *Program) *parserRun {
	return runParser(p, p.Func("meta/pngmeta", "extractMetadata"), parserOpts{MaxIter: 4, MaxForks: 3, FailReads: false})
}

// pngRun: the PNG parser's explored paths, without those only a short-IHDR file takes.
func pngRun(p *Program) *parserRun {
	pr := pngRunRaw(p)
	var keep []Outcome
	for _, o := range pr.Succ {
		if !pngShortIHDR(pr.E, o) {
			keep = append(keep, o)
		}
	}
	pr.Succ = keep
	return pr
}

// pngChain checks that chunk tags on a path sit at chunk boundaries.
func pngChain(e *Engine, o Outcome) (ok bool, why string, tags []tagCond) {
	seen := map[string]tagCond{}
	for _, t := range tagConds(e, o) {
		if len(t.Tag) != 4 {
			continue
		}
		if old, dup := seen[t.Off.Key()]; dup && !(t.Equal && !old.Equal) {
			continue
		}
		seen[t.Off.Key()] = t
	}
	// walk the chain from offset 12
	cur := formInt(12)
	for n := len(seen); n > 0; n-- {
		t, okT := seen[cur.Key()]
		if !okT {
			break
		}
		tags = append(tags, t)
		delete(seen, cur.Key())
		// length = BE32 at cur-4 .. cur-1
		l := o.St.resolve(e.beU32(cur.Sub(formInt(4)))) // with what the path has pinned (Length == 0 …)
		cur = cur.Add(formInt(12)).Add(l)
	}
	if len(seen) > 0 {
		for _, t := range seen {
			return false, fmt.Sprintf("a chunk type is read at offset %s, which is not a chunk boundary (previous chunk start + 12 + Length)", trunc(t.Off.Key(), 80)), tags
		}
	}
	return true, "", tags
}

// beU32 builds the form of the big-endian uint32 at stream offset off.
func (e *Engine) beU32(off *Form) *Form {
	w := 32
	bv := &BV{Bits: make([]Bit, w)}
	for k := 0; k < 4; k++ {
		f := e.A.Byte("in", off.Add(formInt(int64(k))))
		an, _ := f.SingleAtom()
		for j := 0; j < 8; j++ {
			bv.Bits[8*(3-k)+j] = Bit{Kind: 'a', A: an, Idx: j}
		}
	}
	return e.fromBV(bv, types.Typ[types.Uint32])
}

func checkPngFields(p *Program, r *Report) {
	fn := p.Func("meta/pngmeta", "extractMetadata")
	if fn == nil {
		r.Undecide("C05.fields", "pngmeta.extractMetadata", "-", "parser not found")
		return
	}
	for _, f := range reachableFnsList(fn) {
		r.SawFn(f)
	}
	pr := pngRun(p)
	pos := p.FnPos(fn)
	if len(pr.Stuck) > 0 {
		r.Undecide("C05.fields", "pngmeta.extractMetadata", p.Pos(pr.Stuck[0].Pos), "parser not extractable: "+pr.Stuck[0].Why)
		return
	}
	checkFieldWriters(p, r, "C05.writers", "pngmeta", pr)
	e := pr.E
	u32 := types.Typ[types.Uint32]
	wOK, hOK, bOK, tagOK, sigOK, chainOK := true, true, true, true, true, true
	wWhy, hWhy, bWhy, tagWhy, chainWhy := "", "", "", "", ""
	nLinks := 0
	for _, o := range pr.Succ {
		md := mdOf(o)
		if !md.OK {
			wOK, wWhy = false, "a success path returns metadata with unassigned fields"
			continue
		}
		wr, ok1 := fieldRuns(e, md.Width, u32)
		base, okW := isBE(wr, 4)
		if !ok1 || !okW {
			wOK, wWhy = false, "width is built from ["+runsStr(wr)+"], not a big-endian uint32 of four consecutive bytes"
			continue
		}
		hr, ok2 := fieldRuns(e, md.Height, u32)
		hb, okH := isBE(hr, 4)
		if !ok2 || !okH || !hb.Equal(base.Add(formInt(4))) {
			hOK, hWhy = false, "height is built from ["+runsStr(hr)+"]; required the big-endian uint32 right after the width (IHDR data bytes 4..7)"
		}
		br, ok3 := fieldRuns(e, md.Bits, u32)
		bb, okB := isBE(br, 1)
		if !ok3 || !okB || !bb.Equal(base.Add(formInt(8))) {
			bOK, bWhy = false, "bit depth is built from ["+runsStr(br)+"]; required IHDR data byte 8"
		}
		// the IHDR tag right before the width
		found := false
		for _, t := range tagConds(e, o) {
			if t.Equal && t.Tag == "IHDR" && t.Off.Equal(base.Sub(formInt(4))) {
				found = true
			}
			if t.Equal && len(t.Tag) == 8 {
				if c, ok := t.Off.ConstInt(); !ok || c != 0 || t.Tag != "\x89PNG\r\n\x1a\n" {
					sigOK = false
				}
			}
		}
		if !found {
			tagOK, tagWhy = false, "the dimensions are not read from the data of a chunk whose type was compared with 'IHDR' (4 bytes before the width)"
		}
		ok, why, tags := pngChain(e, o)
		if !ok {
			chainOK, chainWhy = false, why
		}
		nLinks += len(tags)
	}
	// every chunk arm the parser has must be seen through to a success path: an arm all of whose
	// paths end at the exploration bound has not been judged at all
	{
		covered := map[string]bool{}
		for _, o := range pr.Succ {
			for _, t := range tagConds(e, o) {
				if t.Equal && len(t.Tag) == 4 {
					covered[t.Tag] = true
				}
			}
		}
		var lost []string
		seenLost := map[string]bool{}
		for _, o := range pr.Outs {
			if o.Kind != "cutoff" {
				continue
			}
			for _, t := range tagConds(e, o) {
				if t.Equal && len(t.Tag) == 4 && !covered[t.Tag] && !seenLost[t.Tag] {
					seenLost[t.Tag] = true
					lost = append(lost, t.Tag)
				}
			}
		}
		sort.Strings(lost)
		if len(lost) > 0 {
			r.Undecide("C05.fields", "png chunk arms explored", pos, fmt.Sprintf("no explored path through the arm for chunk type %q reaches a successful return (all end at the exploration bound): what that arm does to the reported fields has not been judged", lost))
		} else {
			r.Hold("C05.fields", "png chunk arms explored", pos, fmt.Sprintf("every chunk type the parser compares with (%d) lies on at least one explored success path", len(covered)))
		}
	}
	n := len(pr.Succ)
	r.Check(wOK && n > 0, "C05.fields", "png width", pos, fmt.Sprintf("on all %d explored success paths width = BE32 of IHDR data[0:4]", n), wWhy)
	r.Check(hOK && n > 0, "C05.fields", "png height", pos, "height = BE32 of IHDR data[4:8]", hWhy)
	r.Check(bOK && n > 0, "C05.fields", "png bits", pos, "bits per component = IHDR data[8]", bWhy)
	// the chunk chain is explored for short profile names; a maximum-length (79-byte) name
	// must have its terminator consumed too, or every later chunk header — IHDR included when
	// iCCP precedes it — is read one byte off
	r.Check(pngNameLoopBound(fn), "C05.dispatch", "png iCCP name terminator consumed", pos, "the iCCP profile-name loop can read 80 bytes (79-byte name + NUL): chunk boundaries stay aligned for every legal name length", "the iCCP profile-name loop cannot read the terminator of a 79-byte name: the parser falls out of step with the chunk stream and a well-formed file fails to load")
	r.Check(tagOK && n > 0, "C05.guards", "png IHDR tag", pos, "the chunk providing the dimensions has type 'IHDR'", tagWhy)
	// the signature must be on every success path
	sigAll := n > 0
	for _, o := range pr.Succ {
		has := false
		for _, t := range tagConds(e, o) {
			if c, ok := t.Off.ConstInt(); ok && c == 0 && t.Equal && t.Tag == "\x89PNG\r\n\x1a\n" {
				has = true
			}
		}
		if !has {
			sigAll = false
		}
	}
	r.Check(sigAll && sigOK, "C05.guards", "png signature", pos, "the 8-byte PNG signature 89 50 4E 47 0D 0A 1A 0A at offset 0 is required on every success path", "the PNG signature is not required (or compared with other bytes) on a success path")
	r.Check(chainOK && nLinks > n, "C05.dispatch", "png chunk chain", pos, fmt.Sprintf("every chunk type on every path (%d links) is read at a chunk boundary: next = previous + 12 + Length for the IHDR, iCCP and skip arms alike", nLinks), chainWhy)
	r.Check(n > 0, "C05.assigned", "pngmeta", pos, fmt.Sprintf("all %d success paths carry width, height and bit depth of one IHDR chunk", n), "no success path")
}

func jpegOpts(p *Program) parserOpts {
	rs := p.Method("meta/jpegmeta", "segmentReader", "ReadSegment")
	return parserOpts{MaxIter: 4, MaxForks: 14, Opaque: opaqueSet(rs), SeqCalls: func(n string) bool { return strings.Contains(n, "ReadSegment") }}
}

// jpegRun explores the JPEG parse loop; withICC selects whether APP2
// segments are followed (only along the matching-identifier branch) or left
// out (dimension analysis).
func jpegRun(p *Program, withICC bool) *parserRun {
	o := jpegOpts(p)
	if withICC {
		o.Prune = func(c *BoolVal) bool {
			// identifier byte mismatch → `continue`: not followed (a non-ICC APP2 segment is simply skipped)
			k := c.Key()
			if c.Op == "==" && strings.Contains(k, ".Type(") {
				// further start-of-frame markers share the SOF0/SOF2 arm: the two the property names
				// stand for the whole case list (keeps the exploration within its path budget)
				if b, ok := c.B.(*Form); ok {
					if cv, isC := b.ConstInt(); isC && cv > 0xc2 && cv <= 0xcf && cv != 0xc4 && cv != 0xc8 && cv != 0xcc {
						return true
					}
					if cv, isC := b.ConstInt(); isC && cv == 0xc1 {
						return true
					}
				}
			}
			return c.Op == "!=" && strings.HasPrefix(k, "(1*index(.Data(") && !strings.Contains(k, "make#") && strings.Count(k, "index(") == 1 && !strings.HasSuffix(k, " != 0)")
		}
		setD := p.Method("meta", "Data", "SetICCProfileData")
		setE := p.Method("meta", "Data", "SetICCProfileError")
		o.TraceCalls = func(f *ssa.Function) bool { return f == setD || f == setE }
		o.MaxPaths = 40000
	} else {
		o.Prune = func(c *BoolVal) bool {
			k := c.Key()
			return c.Op == "==" && strings.Contains(k, ".Type(") && strings.HasSuffix(k, " == 226)")
		}
	}
	return runParser(p, p.Func("meta/jpegmeta", "extractMetadata"), o)
}

// jpegRunDeep: the ICC-following exploration with room for two complete ICC
// chunks on one path (each costs 12 identifier comparisons at one branch), so
// that decisions depending on an EARLIER chunk (inconsistent totals, duplicates)
// are reached.
func jpegRunDeep(p *Program) *parserRun {
	o := jpegOpts(p)
	base := jpegRun // same pruning as the ICC run
	_ = base
	o.MaxForks = 30
	o.MaxIter = 4
	o.Prune = func(c *BoolVal) bool {
		k := c.Key()
		if c.Op == "==" && strings.Contains(k, ".Type(") {
			if b, ok := c.B.(*Form); ok {
				if cv, isC := b.ConstInt(); isC && ((cv > 0xc2 && cv <= 0xcf && cv != 0xc4 && cv != 0xc8 && cv != 0xcc) || cv == 0xc1) {
					return true
				}
			}
		}
		return c.Op == "!=" && strings.HasPrefix(k, "(1*index(.Data(") && !strings.Contains(k, "make#") && strings.Count(k, "index(") == 1 && !strings.HasSuffix(k, " != 0)")
	}
	o.MaxPaths = 60000
	return runParser(p, p.Func("meta/jpegmeta", "extractMetadata"), o)
}

// segIndexAtom decodes index(.Data(call:...ReadSegment@k#0(sr)), i) → (k, i).
func segDataRef(e *Engine, atom string) (seg int, idx int64, ok bool) {
	at := e.A.get(atom)
	if at == nil || at.Fn != "index" || len(at.Args) != 2 {
		return 0, 0, false
	}
	base := valKey(at.Args[0])
	i := strings.Index(base, "ReadSegment@")
	if i < 0 || !strings.Contains(base, "Data") {
		return 0, 0, false
	}
	fmt.Sscanf(base[i+len("ReadSegment@"):], "%d", &seg)
	f, isF := at.Args[1].(*Form)
	if !isF {
		return 0, 0, false
	}
	idx, ok = f.ConstInt()
	return seg, idx, ok
}

func checkJpegFields(p *Program, r *Report) {
	fn := p.Func("meta/jpegmeta", "extractMetadata")
	if fn == nil {
		r.Undecide("C05.fields", "jpegmeta.extractMetadata", "-", "parser not found")
		return
	}
	for _, f := range reachableFnsList(fn) {
		r.SawFn(f)
	}
	pr := jpegRun(p, false)
	pos := p.FnPos(fn)
	if len(pr.Stuck) > 0 {
		r.Undecide("C05.fields", "jpegmeta.extractMetadata", p.Pos(pr.Stuck[0].Pos), "parser not extractable: "+pr.Stuck[0].Why)
		return
	}
	checkFieldWriters(p, r, "C05.writers", "jpegmeta", pr)
	e := pr.E
	u32 := types.Typ[types.Uint32]
	// dataRuns decodes a field into (segment, index, lo, width) runs
	type sr struct {
		seg           int
		idx           int64
		lo, width, at int
	}
	decode := func(f *Form) ([]sr, bool) {
		bv := e.BVOf(f, u32)
		var out []sr
		runs := bv.Runs()
		for i := len(runs) - 1; i >= 0; i-- {
			rr := runs[i]
			if rr.Kind == '0' {
				continue
			}
			if rr.Kind != 'a' {
				return nil, false
			}
			s, ix, ok := segDataRef(e, rr.A)
			if !ok {
				return nil, false
			}
			out = append(out, sr{s, ix, rr.Lo, rr.Width, rr.At})
		}
		return out, true
	}
	wOK, hOK, bOK, sofOK, soiOK := true, true, true, true, true
	why := ""
	sofSeen := map[int64]bool{}
	for _, o := range pr.Succ {
		md := mdOf(o)
		if !md.OK {
			wOK, why = false, "a success path returns metadata with unassigned fields"
			continue
		}
		w, ok1 := decode(md.Width)
		h, ok2 := decode(md.Height)
		b, ok3 := decode(md.Bits)
		if !ok1 || len(w) != 2 || w[0].idx != 3 || w[1].idx != 4 || w[0].at != 8 || w[1].at != 0 || w[0].width != 8 || w[1].width != 8 || w[0].seg != w[1].seg {
			wOK, why = false, "width is "+trunc(md.Width.String(), 160)+"; required BE16 of SOF Data[3:5]"
			continue
		}
		seg := w[0].seg
		if !ok2 || len(h) != 2 || h[0].idx != 1 || h[1].idx != 2 || h[0].at != 8 || h[1].at != 0 || h[0].seg != seg || h[1].seg != seg {
			hOK, why = false, "height is "+trunc(md.Height.String(), 160)+"; required BE16 of the same segment's Data[1:3]"
		}
		if !ok3 || len(b) != 1 || b[0].idx != 0 || b[0].seg != seg || b[0].width != 8 {
			bOK, why = false, "bit depth is "+trunc(md.Bits.String(), 160)+"; required the same segment's Data[0]"
		}
		// that segment's marker type must have been compared with SOF0 / SOF2; first segment SOI
		typeAtom := func(k int) string { return fmt.Sprintf("ReadSegment@%d#0", k) }
		foundSOF, foundSOI := false, false
		for _, c := range o.St.conds {
			if c.Op != "==" {
				continue
			}
			a, okA := c.A.(*Form)
			bb, okB := c.B.(*Form)
			if !okA || !okB {
				continue
			}
			cv, isC := bb.ConstInt()
			k := a.Key()
			if !isC || !strings.Contains(k, ".Type(") {
				continue
			}
			// any start-of-frame marker carries the same header layout (ITU T.81 B.2.2): SOF0..SOF15
			// without DHT (C4), JPG (C8) and DAC (CC); the property needs SOF0 and SOF2 among them
			if strings.Contains(k, typeAtom(seg)) && cv >= 0xc0 && cv <= 0xcf && cv != 0xc4 && cv != 0xc8 && cv != 0xcc {
				foundSOF = true
				sofSeen[cv] = true
			}
			if strings.Contains(k, typeAtom(0)) && cv == 0xd8 {
				foundSOI = true
			}
		}
		if !foundSOF {
			sofOK = false
		}
		if !foundSOI {
			soiOK = false
		}
	}
	n := len(pr.Succ)
	r.Check(wOK && n > 0, "C05.fields", "jpeg width", pos, fmt.Sprintf("on all %d explored success paths width = BE16 of SOF Data[3:5]", n), why)
	r.Check(hOK && n > 0, "C05.fields", "jpeg height", pos, "height = BE16 of the same SOF segment's Data[1:3]", why)
	r.Check(bOK && n > 0, "C05.fields", "jpeg bits", pos, "bits per component = the same SOF segment's Data[0]", why)
	r.Check(sofOK && sofSeen[0xc0] && sofSeen[0xc2], "C05.guards", "jpeg SOF0+SOF2", pos, "the dimension segment's marker is SOF0 (0xC0) or SOF2 (0xC2), and both reach the dimension arm", fmt.Sprintf("dimension arm reached for SOF0=%v SOF2=%v (all from an SOF marker: %v): baseline or progressive files lose their dimensions", sofSeen[0xc0], sofSeen[0xc2], sofOK))
	r.Check(soiOK && n > 0, "C05.guards", "jpeg SOI first", pos, "the first segment must be SOI (0xD8)", "a success path does not require the stream to begin with SOI")
	r.Check(n > 0, "C05.assigned", "jpegmeta", pos, fmt.Sprintf("all %d success paths carry width, height and bit depth of one SOF segment", n), "no success path")

	checkJpegScanOn(p, r, pos)

	// readSegment consumes exactly DataLength bytes with a full-read primitive
	rsFn := p.Func("meta/jpegmeta", "readSegment")
	rm := p.Func("meta/jpegmeta", "readMarker")
	if rsFn == nil || rm == nil {
		r.Undecide("C05.dispatch", "jpeg readSegment", "-", "function not found")
		return
	}
	r.SawFn(shortFn(rsFn))
	pr2 := runParser(p, rsFn, parserOpts{MaxForks: 2, Opaque: opaqueSet(rm)})
	good, gwhy := len(pr2.Succ) > 0 && len(pr2.Stuck) == 0, "readSegment not extractable"
	for _, o := range pr2.Succ {
		consumed := pr2.posOf(o)
		dl := formAtom(".DataLength(call:meta/jpegmeta.readMarker#0(reader:in))")
		pos0 := false
		for _, c := range o.St.conds {
			if c.Op == "<=" || (c.Op == ">" && false) {
				pos0 = true
			}
		}
		if pos0 {
			if !consumed.Equal(formInt(0)) {
				good, gwhy = false, "a segment without payload still consumes "+consumed.String()+" bytes"
			}
		} else if !consumed.Equal(dl) {
			good, gwhy = false, "readSegment consumes "+trunc(consumed.String(), 120)+" payload bytes; required exactly the marker's DataLength"
		}
	}
	r.Check(good, "C05.dispatch", "jpeg readSegment payload", p.FnPos(rsFn), "the payload read is exactly Marker.DataLength bytes via io.ReadFull, so the next marker is read at a segment boundary", gwhy)
}

// checkJpegMarkerTable: every declared marker constant is routed to the arm
// ITU T.81 prescribes (stand-alone: no length; otherwise BE16 length, payload = length − 2).
func checkJpegMarkerTable(p *Program, r *Report) {
	mm := p.Func("meta/jpegmeta", "makeMarker")
	pk := p.ByPath[p.pkgPath("meta/jpegmeta")]
	if mm == nil || pk == nil {
		r.Undecide("C05.dispatch", "jpeg makeMarker", "-", "function not found")
		return
	}
	r.SawFn(shortFn(mm))
	// declared constants of type markerType
	type mc struct {
		name string
		val  int64
	}
	var consts []mc
	sc := pk.Types.Scope()
	for _, n := range sc.Names() {
		c, ok := sc.Lookup(n).(*types.Const)
		if !ok {
			continue
		}
		if nt, ok := c.Type().(*types.Named); !ok || nt.Obj().Name() != "markerType" {
			continue
		}
		v, _ := constant.Int64Val(c.Val())
		if v != 0 {
			consts = append(consts, mc{n, v})
		}
	}
	sort.Slice(consts, func(i, j int) bool { return consts[i].val < consts[j].val })
	standalone := map[int64]bool{0x01: true, 0xd8: true, 0xd9: true}
	for v := int64(0xd0); v <= 0xd7; v++ {
		standalone[v] = true
	}
	// the classifier is interpreted once per declared marker value (a switch, range
	// tests or a table all come out the same way)
	e := NewEngine(p)
	e.EvalInits = true
	s := &Stream{Name: "in"}
	byConst := map[int64][]Outcome{}
	for _, c := range consts {
		st := newState()
		st.pos[s] = formInt(0)
		for _, o := range e.Run(mm, []Val{formInt(c.val), &ReaderVal{S: s}}, st) {
			if o.Kind != "return" {
				r.Undecide("C05.dispatch", "jpeg makeMarker", p.Pos(o.Pos), fmt.Sprintf("not extractable for marker %#x: %s", c.val, o.Why))
				return
			}
			byConst[c.val] = append(byConst[c.val], o)
		}
	}
	for _, c := range consts {
		key := fmt.Sprintf("jpeg marker %s (%#x)", c.name, c.val)
		os := byConst[c.val]
		if !standalone[c.val] && len(os) > 1 {
			// a segment length counts its own two bytes: rejecting a smaller one
			// concerns no well-formed file
			var keep []Outcome
			for _, o := range os {
				failed := false
				if tp, ok := o.Ret.(Tuple); ok && len(tp) == 2 {
					if ev, ok := tp[1].(*ErrVal); ok && !ev.IsNil {
						failed = true
					}
				}
				var plain []*BoolVal
				for _, cd := range o.St.conds {
					cc := *cd
					cc.Src, cc.Exact = nil, nil
					plain = append(plain, &cc)
				}
				if failed && e.refutes(plain, &BoolVal{Op: ">=", A: e.beU16(formInt(0)), B: formInt(2)}) {
					continue
				}
				keep = append(keep, o)
			}
			os = keep
			byConst[c.val] = os
		}
		if len(os) != 1 {
			r.Violate("C05.dispatch", key, p.FnPos(mm), fmt.Sprintf("makeMarker has %d outcomes for this marker value; exactly one expected", len(os)))
			continue
		}
		o := os[0]
		tp, _ := o.Ret.(Tuple)
		good, why := false, "unexpected result"
		if len(tp) == 2 {
			if ev, ok := tp[1].(*ErrVal); ok && ev.IsNil {
				dl, _ := formAt(tp[0], 1)
				consumed := o.St.pos[s]
				if standalone[c.val] {
					good = dl != nil && dl.Equal(formInt(0)) && consumed.Equal(formInt(0))
					why = fmt.Sprintf("stand-alone marker must carry no length: DataLength = %s, %s bytes consumed", dl.String(), consumed.String())
				} else {
					want := e.beU16(formInt(0)).Sub(formInt(2))
					good = dl != nil && dl.Equal(want) && consumed.Equal(formInt(2))
					why = fmt.Sprintf("length-carrying marker must read a BE16 length and set DataLength = length − 2: DataLength = %s, %s bytes consumed", trunc(dl.String(), 80), consumed.String())
				}
			} else {
				why = "declared marker is rejected with an error"
			}
		}
		arm := "length-carrying (BE16 length, payload = length − 2)"
		if standalone[c.val] {
			arm = "stand-alone (no length field)"
		}
		r.Check(good, "C05.dispatch", key, p.FnPos(mm), arm, why)
	}
}

// checkLoadPassThrough: what the parsers establish reaches the caller. Each
// format loader returns, on every path, exactly the (metadata, error) pair
// its parser returned — no later step replaces, filters or re-judges it — and
// autometa.Load returns the chosen loader's result verbatim (the C19 rule,
// re-evaluated here as a premise).
func checkLoadPassThrough(p *Program, r *Report) {
	for _, short := range formatLoaders {
		L := p.Func(short, "Load")
		key := short + ".Load"
		if L == nil || len(L.Params) != 1 {
			r.Undecide("C05.load", key, "-", "anchor function Load(r io.Reader) not found")
			continue
		}
		r.SawFn(shortFn(L))
		_, outs, _, _ := runLoader(p, L)
		good, why := true, ""
		n := 0
		for _, o := range outs {
			if o.Kind != "return" {
				good, why = false, "a path of the loader ends in "+o.Kind+" at "+p.Pos(o.Pos)+" "+o.Why
				continue
			}
			n++
			var parser *Event
			np := 0
			for k := range o.St.events {
				ev := &o.St.events[k]
				if ev.Kind == "call" && ev.Callee != nil && isPrismFn(ev.Callee) {
					if tp, ok := ev.Res.(Tuple); ok && len(tp) == 2 {
						parser = ev
						np++
					}
				}
			}
			tp, _ := o.Ret.(Tuple)
			if np != 1 || len(tp) != 3 {
				good, why = false, fmt.Sprintf("the path returning at %s runs %d parsers (exactly one expected)", p.Pos(o.Pos), np)
				continue
			}
			res := parser.Res.(Tuple)
			if valKey(tp[0]) != valKey(res[0]) || valKey(tp[2]) != valKey(res[1]) {
				good, why = false, fmt.Sprintf("the path returning at %s yields (%s, _, %s), not the pair %s returned: metadata the parser extracted can be withheld or altered after the fact", p.Pos(o.Pos), trunc(valKey(tp[0]), 80), trunc(valKey(tp[2]), 80), parser.Fn)
			}
		}
		r.Check(good && n > 0, "C05.load", key, p.FnPos(L), fmt.Sprintf("all %d paths return the parser's (metadata, error) pair unchanged", n), why)
	}
	sub := NewReport("C19", "proof")
	checkAutoLoader(p, sub, "C19")
	for _, ob := range sub.Obls {
		ob.Rule = "C05.premise-" + ob.Rule
		ob.Key = "C05.premise-" + ob.Key
		r.Obls = append(r.Obls, ob)
	}
	for f := range sub.Functions {
		r.SawFn(f)
	}
}

// checkJpegScanOn: the segment loop keeps scanning until the frame header.
// On every explored path (APP2/ICC handling included) that ends WITHOUT
// dimensions although no SOF segment was seen, the last segment read must be
// the reason: its read failed, it was not SOI at the start, or it is SOS/EOI.
// A path that gives up after an APPn/other segment (whatever its content)
// loses the dimensions of a well-formed file whose SOF comes later.
func checkJpegScanOn(p *Program, r *Report, pos string) {
	pr := jpegRunDeep(p)
	if len(pr.Stuck) > 0 {
		r.Undecide("C05.dispatch", "jpeg scan reaches SOF", p.Pos(pr.Stuck[0].Pos), "parser not extractable: "+pr.Stuck[0].Why)
		return
	}
	segNo := func(k string) int {
		i := strings.LastIndex(k, "ReadSegment@")
		if i < 0 {
			return -1
		}
		n := -1
		fmt.Sscanf(k[i+len("ReadSegment@"):], "%d", &n)
		return n
	}
	good, why := true, ""
	n := 0
	for _, o := range pr.Outs {
		if o.Kind != "return" {
			continue
		}
		if md := mdOf(o); md.OK && md.Width != nil && !md.Width.Equal(formInt(0)) {
			continue // dimensions reported
		}
		n++
		last := -1
		typeOf := map[int]int64{}
		failed := map[int]bool{}
		errSeen, succeeded := map[int]bool{}, map[int]bool{}
		for _, c := range o.St.conds {
			k := c.Key()
			sn := segNo(k)
			if sn < 0 {
				continue
			}
			if sn > last {
				last = sn
			}
			if strings.Contains(k, ".Type(") && c.Op == "==" {
				if b, ok := c.B.(*Form); ok {
					if cv, isC := b.ConstInt(); isC {
						typeOf[sn] = cv
					}
				}
			}
			// the segment's error result: decided to be nil (read succeeded) or anything else
			// (`err != nil`, `err == io.EOF`, …: the read failed)
			if strings.Contains(k, fmt.Sprintf("ReadSegment@%d#1", sn)) {
				errSeen[sn] = true
				if c.Op == "==" && strings.Contains(k, "nil-error") {
					succeeded[sn] = true
				}
			}
		}
		for sn := range errSeen {
			if !succeeded[sn] {
				failed[sn] = true
			}
		}
		sawSOF := false
		for _, t := range typeOf {
			if t >= 0xc0 && t <= 0xcf && t != 0xc4 && t != 0xc8 && t != 0xcc {
				sawSOF = true
			}
		}
		if sawSOF || last < 0 {
			continue
		}
		t, known := typeOf[last]
		switch {
		case failed[last]:
		case last == 0: // the first segment is not SOI (or its read failed)
		case known && (t == 0xda || t == 0xd9):
		default:
			good = false
			tail := condKeys(o)
			if len(tail) > 300 {
				tail = "…" + tail[len(tail)-300:]
			}
			why = fmt.Sprintf("a path returns without dimensions at %s although its last segment (#%d) was read successfully and is neither SOS nor EOI, and no SOF was seen yet: a well-formed file whose frame header follows loses its dimensions [path: %s]", p.Pos(o.Pos), last, tail)
		}
	}
	r.Check(good && n > 0, "C05.dispatch", "jpeg scan reaches SOF", pos, fmt.Sprintf("all %d explored paths without dimensions end at a failed read, a missing SOI, SOS or EOI — never after an APPn/other segment", n), why)
}

func (e *Engine) beU16(off *Form) *Form {
	bv := &BV{Bits: make([]Bit, 16)}
	for k := 0; k < 2; k++ {
		f := e.A.Byte("in", off.Add(formInt(int64(k))))
		an, _ := f.SingleAtom()
		for j := 0; j < 8; j++ {
			bv.Bits[8*(1-k)+j] = Bit{Kind: 'a', A: an, Idx: j}
		}
	}
	return e.fromBV(bv, types.Typ[types.Uint16])
}

// checkFormatConst: md.Format is the package's Format variable, written only by its initialiser.
func checkFormatConst(p *Program, r *Report) {
	for _, d := range []struct{ pkg, want string }{{"meta/pngmeta", "PNG"}, {"meta/jpegmeta", "JPEG"}, {"meta/webpmeta", "WebP"}} {
		g := p.Global(d.pkg, "Format")
		key := d.pkg + ".Format"
		if g == nil {
			r.Undecide("C05.guards", key, "-", "variable not found")
			continue
		}
		e := NewEngine(p)
		v, err := globalValue(p, e, d.pkg, "Format")
		sv, _ := v.(*StrVal)
		stores := 0
		for _, f := range p.SrcFuncs() {
			for _, b := range f.Blocks {
				for _, in := range b.Instrs {
					if st, ok := in.(*ssa.Store); ok && rootGlobal(st.Addr) == g && !isInitFn(f) {
						stores++
					}
				}
			}
		}
		r.Check(err == nil && sv != nil && sv.S == d.want && stores == 0, "C05.guards", key, p.Pos(g.Pos()), fmt.Sprintf("= %q, written only by its initialiser", d.want), fmt.Sprintf("Format is %s (%v), %d later stores; image.DecodeConfig names this format %q", valKey(v), err, stores, strings.ToLower(d.want)))
	}
}
