package main

import (
	"fmt"
	"go/types"
	"os"
	"sort"
	"strings"

	"golang.org/x/tools/go/ssa"
)

// Semantic form of the C07 / C19 loader rules.
//
// The loader is interpreted on a symbolic source reader r. Prism callees are
// inlined exactly when they are handed r or a *bytes.Buffer (or are closures of
// an inlined function), so that the tee/replay plumbing is followed through
// helpers, while the parser proper stays an uninterpreted call. The rule then
// reads the event trace of every path:
//
//	tee      every use of r is TeeReader(r, B) — source position — or the last
//	         argument of MultiReader(B, r)
//	buffer   B is one fresh bytes.Buffer, used only as the tee's sink and as the
//	         first MultiReader argument
//	order    MultiReader(B, r) in that order, and the replay stream is not read
//	         before it is returned
//	all-returns   every path returns that MultiReader as the stream
//	only-through-tee  exactly one in-module parser, fed a reader derived from the tee
//	no-panic-outside  nothing else is called in the loader region
//
// None of this depends on where the statements sit (Load itself or a helper).

func deepMention(e *Engine, st *State, v Val, pred func(Val) bool, depth int) bool {
	if v == nil || depth > 6 {
		return false
	}
	if pred(v) {
		return true
	}
	switch x := v.(type) {
	case Tuple:
		for _, el := range x {
			if deepMention(e, st, el, pred, depth+1) {
				return true
			}
		}
	case *Agg:
		for _, el := range x.Elems {
			if deepMention(e, st, el, pred, depth+1) {
				return true
			}
		}
	case *SliceVal:
		if els, ok := e.sliceElems(st, x); ok {
			for _, el := range els {
				if deepMention(e, st, el, pred, depth+1) {
					return true
				}
			}
		}
	case *FuncVal:
		for _, b := range x.Bindings {
			if deepMention(e, st, b, pred, depth+1) {
				return true
			}
			if p, ok := b.(*Ptr); ok && p.Cell != nil && len(p.Path) == 0 {
				if deepMention(e, st, e.cellVal(st, p.Cell), pred, depth+1) {
					return true
				}
			}
		}
	}
	return false
}

// derivedFrom reports whether v was computed from the result of a call of fn
// (through further uninterpreted applications).
func derivedFrom(v Val, fn string, depth int) bool {
	if depth > 8 {
		return false
	}
	switch x := v.(type) {
	case *Opaque:
		if x.Fn == fn {
			return true
		}
		for _, a := range x.Args {
			if derivedFrom(a, fn, depth+1) {
				return true
			}
		}
	case Tuple:
		for _, a := range x {
			if derivedFrom(a, fn, depth+1) {
				return true
			}
		}
	}
	return false
}

// recorderCellIn finds, in v (through uninterpreted applications), a pointer to a
// freshly allocated value of a verified recorder type.
func recorderCellIn(p *Program, v Val, depth int) *Cell {
	if depth > 8 {
		return nil
	}
	switch x := v.(type) {
	case *Ptr:
		if x.Cell != nil && x.Cell.Alloc && len(x.Path) == 0 && x.SymIdx == nil {
			if ri := recorderOf(p, x.Cell.Type); ri != nil && ri.Why == "" {
				return x.Cell
			}
		}
	case *Opaque:
		for _, a := range x.Args {
			if c := recorderCellIn(p, a, depth+1); c != nil {
				return c
			}
		}
	case Tuple:
		for _, a := range x {
			if c := recorderCellIn(p, a, depth+1); c != nil {
				return c
			}
		}
	}
	return nil
}

func isBufferPtr(v Val) (*Ptr, bool) {
	p, ok := v.(*Ptr)
	if !ok || p.Cell == nil || len(p.Path) != 0 || p.SymIdx != nil {
		return nil, false
	}
	return p, namedIs(p.Cell.Type, "bytes", "Buffer")
}

type obligations struct {
	fail, undecided map[string]string
}

func newObligations() *obligations {
	return &obligations{fail: map[string]string{}, undecided: map[string]string{}}
}
func (o *obligations) bad(k, why string) {
	if o.fail[k] == "" {
		o.fail[k] = why
	}
}
func (o *obligations) dunno(k, why string) {
	if o.undecided[k] == "" {
		o.undecided[k] = why
	}
}
func (o *obligations) report(r *Report, rule, key, pos, holds string) bool {
	k := rule[strings.LastIndex(rule, ".")+1:]
	if w := o.fail[k]; w != "" {
		r.Violate(rule, key, pos, w)
		return false
	}
	if w := o.undecided[k]; w != "" {
		r.Undecide(rule, key, pos, w)
		return false
	}
	r.Hold(rule, key, pos, holds)
	return true
}

// runLoader interprets a format loader on a symbolic source reader, inlining
// exactly the callees that are handed the source reader or a *bytes.Buffer
// (and their closures): the tee/replay plumbing, wherever it is written.
func runLoader(p *Program, L *ssa.Function) (*Engine, []Outcome, map[*ssa.Function]bool, func(Val) bool) {
	e := NewEngine(p)
	e.EvalInits = true
	rv := &Opaque{Key: "r", Type: L.Params[0].Type()}
	isR := func(v Val) bool {
		o, ok := v.(*Opaque)
		return ok && o.Key == rv.Key && o.Fn == ""
	}
	isRorB := func(v Val) bool {
		if isR(v) {
			return true
		}
		_, ok := isBufferPtr(v)
		return ok
	}
	inlined := map[*ssa.Function]bool{L: true}
	// a hand-written recording reader that keeps the tee contract (recorder.go) is followed like
	// the tee it stands for: its constructor and accessors are inlined, what its recording field
	// holds after the parser ran is "the bytes recorded so far" (the parser fills it through
	// bufio, behind the interpreter's back), and stores of the loader itself into it are noted
	recCell := func(v Val) *recorderInfo {
		ptr, ok := v.(*Ptr)
		if !ok || ptr.Cell == nil || !ptr.Cell.Alloc || ptr.SymIdx != nil {
			return nil
		}
		if ri := recorderOf(p, ptr.Cell.Type); ri != nil && ri.Why == "" {
			return ri
		}
		return nil
	}
	e.LoadHook = func(st *State, ptr *Ptr) (Val, bool) {
		ri := recCell(&Ptr{Cell: ptr.Cell})
		if ri == nil || ptr.SymIdx != nil || len(ptr.Path) != 1 || ptr.Path[0] != ri.Rec {
			return nil, false
		}
		base := &Opaque{Key: fmt.Sprintf("recorded#%d@%d", ptr.Cell.ID, len(st.events)), Fn: "recorded", Args: []Val{&Ptr{Cell: ptr.Cell}, formInt(int64(len(st.events)))}}
		return &SliceVal{Base: base, Lo: formInt(0), Len: e.A.App("len", types.Typ[types.Int], base), Elem: types.Typ[types.Uint8]}, true
	}
	e.StoreHook = func(st *State, ptr *Ptr, v Val) {
		if recCell(&Ptr{Cell: ptr.Cell}) != nil {
			st.addEvent(Event{Kind: "recorder-store", Fn: "store", Recv: ptr, Args: []Val{v}})
		}
	}
	e.InlineIf = func(st *State, fn *ssa.Function, args, bindings []Val) bool {
		yes := fn.Parent() != nil && inlined[fn.Parent()]
		for _, a := range args {
			if deepMention(e, st, a, isRorB, 0) || recCell(a) != nil {
				yes = true
			}
		}
		for _, b := range bindings {
			if deepMention(e, st, b, isRorB, 0) {
				yes = true
			}
		}
		if yes {
			inlined[fn] = true
		}
		return yes
	}
	outs := e.Run(L, []Val{rv}, nil)
	return e, outs, inlined, isR
}

// checkFormatLoader discharges the per-loader obligations of C07.
func checkFormatLoader(p *Program, r *Report, pre, short string) {
	L := p.Func(short, "Load")
	key := short + ".Load"
	if L == nil || len(L.Params) != 1 {
		r.Undecide(pre+".tee", key, "-", "anchor function Load(r io.Reader) not found")
		return
	}
	r.SawFn(shortFn(L))
	pos := p.FnPos(L)

	e, outs, inlined, isR := runLoader(p, L)
	if os.Getenv("PRISMCHECK_TRACE") != "" {
		for _, o := range outs {
			fmt.Println("--- loader outcome", o.Kind, p.Pos(o.Pos), "ret", trunc(valKey(o.Ret), 300))
			for _, ev := range o.St.events {
				fmt.Printf("    ev %s %s recv=%s args=%s res=%s\n", ev.Kind, ev.Fn, trunc(valKey(ev.Recv), 100), trunc(valKey(Tuple(ev.Args)), 300), trunc(valKey(ev.Res), 100))
			}
		}
	}

	ob := newObligations()
	parsers := map[*ssa.Function]bool{}
	recSeen := map[string]string{}
	defer func() {
		for name, at := range recSeen {
			r.Hold(pre+".tee", key+" recorder "+name, at, "hand-written recording reader accepted in place of io.TeeReader+bytes.Buffer: on every path of its Read the source is asked once with p itself, the recording becomes append(recording, p[:n]...) (or n <= 0), and (n, err) are returned unchanged; its replay is io.MultiReader(reader over the recording as it stands after the parser ran, r)")
		}
	}()
	nRet := 0
	for _, o := range outs {
		where := p.Pos(o.Pos)
		switch o.Kind {
		case "return":
		case "panic":
			ob.bad("all-returns", "a path of the loader ends in a panic at "+where+": no stream is returned")
			continue
		default:
			ob.dunno("all-returns", "the loader could not be followed at "+where+": "+o.Kind+" "+o.Why)
			continue
		}
		nRet++
		st := o.St
		var tees, multis []Event
		var B *Ptr
		for _, ev := range st.events {
			if ev.Kind == "call" && ev.Fn == "io.TeeReader" && len(ev.Args) == 2 {
				tees = append(tees, ev)
				if b, ok := isBufferPtr(ev.Args[1]); ok && B == nil {
					B = b
				}
			}
			if ev.Kind == "call" && ev.Fn == "io.MultiReader" {
				multis = append(multis, ev)
			}
		}
		// a hand-written recorder (recorder.go) standing in for TeeReader + Buffer
		var recC *Cell
		var recI *recorderInfo
		firstUse, parserIdx := -1, -1
		if len(tees) == 0 {
			for k, ev := range st.events {
				if ev.Kind == "recorder-store" {
					continue
				}
				for _, v := range append([]Val{ev.Recv}, ev.Args...) {
					if c := recorderCellIn(p, v, 0); c != nil && (recC == nil || recC == c) {
						if recC == nil {
							firstUse = k
						}
						recC = c
					}
				}
			}
			if recC != nil {
				recI = recorderOf(p, recC.Type)
			}
		}
		mentionsRec := func(v Val) bool { return recC != nil && recorderCellIn(p, v, 0) == recC }
		if recC != nil {
			for k, ev := range st.events {
				if ev.Kind == "call" && ev.Callee != nil && isPrismFn(ev.Callee) {
					for _, a := range ev.Args {
						if mentionsRec(a) {
							parserIdx = k
						}
					}
				}
			}
		}
		if len(tees) == 0 && recC == nil {
			msg := "no io.TeeReader(r, B) call on the path returning at " + where + ": consumed bytes are not recorded for replay"
			// a hand-written recording reader that does not keep the tee contract: say why
			for _, ev := range st.events {
				for _, v := range append([]Val{ev.Recv}, ev.Args...) {
					if ptr, ok := v.(*Ptr); ok && ptr.Cell != nil && ptr.Cell.Alloc {
						if ri := recorderOf(p, ptr.Cell.Type); ri != nil && ri.Why != "" {
							msg = "the recording reader " + ri.T.Obj().Name() + " used at " + p.Pos(ev.Pos) + " does not keep io.TeeReader's contract: " + ri.Why
						}
					}
				}
			}
			ob.bad("tee", msg)
			continue
		}
		if recC != nil {
			recSeen[recI.T.Obj().Name()] = p.FnPos(recI.Read)
		}
		if recC == nil && (B == nil || !B.Cell.Alloc) {
			ob.bad("buffer", "second argument of io.TeeReader at "+p.Pos(tees[0].Pos)+" is not a fresh *bytes.Buffer allocation")
			continue
		}
		if recC != nil {
			// the recorder reads from r and starts with an empty recording
			cur, _ := e.cellVal(st, recC).(*Agg)
			if cur == nil || len(cur.Elems) <= recI.Src || len(cur.Elems) <= recI.Rec {
				ob.dunno("tee", "the recording reader's fields could not be read")
				continue
			}
			if !isR(cur.Elems[recI.Src]) {
				ob.bad("tee", "the recording reader "+recI.T.Obj().Name()+" reads from "+trunc(valKey(cur.Elems[recI.Src]), 80)+", not from the source reader r")
			}
			if sl, ok := cur.Elems[recI.Rec].(*SliceVal); !ok || !(sl.Nil || (sl.Len != nil && sl.Len.Equal(formInt(0)))) {
				ob.bad("buffer", "the recording of "+recI.T.Obj().Name()+" does not start empty: "+trunc(valKey(cur.Elems[recI.Rec]), 80))
			}
		}
		sameB := func(v Val) bool {
			if recC != nil {
				// bytes.NewBuffer / bytes.NewReader over the recording as it stands AFTER the parser ran
				o, ok := v.(*Opaque)
				if !ok || (o.Fn != "call:bytes.NewBuffer" && o.Fn != "call:bytes.NewReader") || len(o.Args) != 1 {
					return false
				}
				sl, ok := o.Args[0].(*SliceVal)
				if !ok || sl.Base == nil || sl.Base.Fn != "recorded" || len(sl.Base.Args) != 2 || !sl.Lo.Equal(formInt(0)) || !sl.Len.Equal(e.A.App("len", types.Typ[types.Int], sl.Base)) {
					return false
				}
				cp, _ := sl.Base.Args[0].(*Ptr)
				at, _ := sl.Base.Args[1].(*Form)
				n, isC := int64(0), false
				if at != nil {
					n, isC = at.ConstInt()
				}
				return cp != nil && cp.Cell == recC && isC && parserIdx >= 0 && n > int64(parserIdx)
			}
			b, ok := isBufferPtr(v)
			return ok && b.Cell == B.Cell
		}
		goodMulti := map[string]bool{}
		for evIdx, ev := range st.events {
			evPos := p.Pos(ev.Pos)
			vals := append([]Val{ev.Recv}, ev.Args...)
			switch {
			case ev.Kind == "call" && ev.Fn == "io.TeeReader":
				if w := forwardedReader(p, e, st, ev.Args[0]); w != nil && isR(w) {
					// a hand-through wrapper around r (recorder.go: forwarder) is r for this purpose
				} else if !isR(ev.Args[0]) {
					ob.bad("tee", "io.TeeReader at "+evPos+" reads from "+trunc(valKey(ev.Args[0]), 80)+", not from the source reader r")
				}
				if !sameB(ev.Args[1]) {
					ob.bad("buffer", "io.TeeReader at "+evPos+" writes to "+trunc(valKey(ev.Args[1]), 80)+", not to the one rewind buffer")
				}
				continue
			case ev.Kind == "call" && ev.Fn == "io.MultiReader":
				els, ok := e.sliceElems(st, ev.Args[0])
				if !ok {
					ob.dunno("order", "io.MultiReader arguments at "+evPos+" are not a literal argument list")
					continue
				}
				if len(els) == 2 && sameB(els[0]) && isR(els[1]) {
					goodMulti[valKey(ev.Res)] = true
				} else {
					var ds []string
					for _, el := range els {
						switch {
						case sameB(el):
							ds = append(ds, "rewind buffer")
						case isR(el):
							ds = append(ds, "source reader r")
						default:
							ds = append(ds, trunc(valKey(el), 60))
						}
					}
					ob.bad("order", fmt.Sprintf("io.MultiReader arguments at %s are (%s); required exactly (rewind buffer, source reader) in that order", evPos, strings.Join(ds, ", ")))
				}
				continue
			}
			if recC != nil && ev.Kind == "recorder-store" {
				if evIdx >= firstUse {
					ob.bad("buffer", "the loader itself writes a field of the recording reader after handing it out (at "+evPos+"): what is replayed is no longer what was recorded")
				}
				continue
			}
			if ev.Kind == "call" && (ev.Fn == "(*bytes.Buffer).Len" || ev.Fn == "(*bytes.Buffer).Cap" || ev.Fn == "(*bytes.Buffer).Available") {
				continue // asks the buffer how much it holds: nothing is drained and nothing can fail
			}
			if recC != nil && ev.Kind == "call" && sameB(ev.Res) {
				continue // the replay head: a reader over the recording, built after the parser ran
			}
			// any other event
			for _, v := range vals {
				if deepMention(e, st, v, isR, 0) {
					ob.bad("tee", fmt.Sprintf("source reader r is used behind the tee's back by %s at %s: bytes read there are missing from the replay", ev.Fn, evPos))
				}
				if deepMention(e, st, v, func(x Val) bool { return sameB(x) }, 0) {
					ob.bad("buffer", fmt.Sprintf("rewind buffer has another use (%s at %s): it may be drained, reset or truncated before replay", ev.Fn, evPos))
				}
				if derivedFrom(v, "call:io.MultiReader", 0) {
					ob.bad("order", fmt.Sprintf("the replay stream is handed to %s at %s before it is returned: reading it drains the rewind buffer", ev.Fn, evPos))
				}
			}
			fromTee := false
			for _, v := range vals {
				if derivedFrom(v, "call:io.TeeReader", 0) || mentionsRec(v) {
					fromTee = true
				}
			}
			switch {
			case ev.Kind == "call" && (ev.Fn == "bufio.NewReader" || ev.Fn == "bufio.NewReaderSize"):
				if !fromTee {
					ob.bad("only-through-tee", "bufio reader at "+evPos+" does not wrap the tee")
				}
			case ev.Kind == "call" && ev.Callee != nil && isPrismFn(ev.Callee):
				if fromTee {
					parsers[ev.Callee] = true
				} else {
					ob.bad("no-panic-outside", fmt.Sprintf("unexpected call %s at %s in the loader outside the recover-guarded parser", ev.Fn, evPos))
				}
			case ev.Kind == "store" || ev.Kind == "alloc" || ev.Kind == "bounds":
			default:
				ob.bad("no-panic-outside", fmt.Sprintf("unexpected %s %s at %s in the loader outside the recover-guarded parser", ev.Kind, ev.Fn, evPos))
				if fromTee {
					ob.bad("only-through-tee", fmt.Sprintf("the tee reader is used by %s at %s, not only by the parser", ev.Fn, evPos))
				}
			}
		}
		tp, _ := o.Ret.(Tuple)
		if len(tp) == 3 && !goodMulti[valKey(tp[1])] {
			// a stateless wrapper whose Read hands through to the replay stream stands for it
			if w := forwardedReader(p, e, st, tp[1]); w != nil && goodMulti[valKey(w)] {
				tp = Tuple{tp[0], w, tp[2]}
			}
		}
		if len(tp) != 3 || !goodMulti[valKey(tp[1])] {
			got := "?"
			if len(tp) == 3 {
				got = trunc(valKey(tp[1]), 100)
			}
			ob.bad("all-returns", fmt.Sprintf("return at %s yields %s as the stream instead of io.MultiReader(B, r)", where, got))
		}
	}
	if nRet == 0 {
		ob.dunno("all-returns", "no returning path found")
	}
	var parser *ssa.Function
	switch len(parsers) {
	case 0:
		ob.bad("only-through-tee", "no in-module parser receives the (buffered) tee reader")
	case 1:
		for f := range parsers {
			parser = f
		}
	default:
		var ns []string
		for f := range parsers {
			ns = append(ns, shortFn(f))
		}
		sort.Strings(ns)
		ob.bad("only-through-tee", "the tee reader is handed to more than one parser: "+strings.Join(ns, ", "))
	}
	var region []string
	for f := range inlined {
		region = append(region, shortFn(f))
		r.SawFn(shortFn(f))
	}
	sort.Strings(region)
	reg := strings.Join(region, ", ")
	ob.report(r, pre+".order", key, pos, "io.MultiReader(B, r): buffer first, then the rest of the source, nothing else, on every path")
	ob.report(r, pre+".tee", key, pos, "source reader r is used only as io.TeeReader(r, B) source and as the last io.MultiReader argument (loader region: "+reg+")")
	ob.report(r, pre+".buffer", key, pos, "rewind buffer B is a fresh *bytes.Buffer used only as the tee's sink and the MultiReader's first reader")
	ob.report(r, pre+".only-through-tee", key, pos, fmt.Sprintf("the parser %s reads only through the tee", shortFn(parser)))
	ob.report(r, pre+".all-returns", key, pos, fmt.Sprintf("all %d paths return the MultiReader (non-nil) whatever err is", nRet))
	ob.report(r, pre+".no-panic-outside", key, pos, "the loader region only constructs TeeReader, bufio reader, MultiReader and calls the parser")

	// no goroutines on the path
	hasGo, goWhere := false, ""
	reach := reachableFns(L)
	for f := range reach {
		r.SawFn(shortFn(f))
		for _, b := range f.Blocks {
			for _, in := range b.Instrs {
				if _, ok := in.(*ssa.Go); ok {
					hasGo, goWhere = true, p.InstrPos(in)
				}
			}
		}
	}
	r.Check(!hasGo, pre+".no-goroutine", key, pos,
		fmt.Sprintf("no go statement in the %d prism functions reachable from the loader", len(reach)),
		"go statement reachable from the loader ("+goWhere+"): the rewind buffer could be shared")

	// recover armed before the first stream read
	if parser != nil {
		checkRecoverArmed(p, r, pre+".recover-armed", short+"."+parser.Name(), parser)
	} else {
		r.Undecide(pre+".recover-armed", key, pos, "parser not identified")
	}
}

// errNilCond reports whether c decides the nil-ness of errv.
func errNilCond(c *BoolVal, errv Val) (isNil, ok bool) {
	if c == nil || (c.Op != "==" && c.Op != "!=") {
		return false, false
	}
	k := valKey(errv)
	a, b := valKey(c.A), valKey(c.B)
	if b == k {
		a, b = b, a
	}
	if a != k || b != "nil-error" {
		return false, false
	}
	return c.Op == "==", true
}

// checkAutoLoader: autometa.Load tries the three format loaders, chaining the
// replay streams, and returns the first success verbatim.
func checkAutoLoader(p *Program, r *Report, pre string) {
	rule := pre + ".auto"
	L := p.Func("meta/autometa", "Load")
	if L == nil || len(L.Params) != 1 {
		r.Undecide(rule, "autometa.Load", "-", "anchor function not found")
		return
	}
	r.SawFn(shortFn(L))
	pos := p.FnPos(L)
	want := []*ssa.Function{p.Func("meta/pngmeta", "Load"), p.Func("meta/jpegmeta", "Load"), p.Func("meta/webpmeta", "Load")}
	for _, w := range want {
		if w == nil {
			r.Undecide(rule, "autometa.Load loaders", pos, "format loaders not found")
			return
		}
	}
	e := NewEngine(p)
	e.EvalInits = true
	e.Opaque = opaqueSet(want...)
	e.SeqCalls = func(fn string) bool { return strings.HasSuffix(fn, "meta.Load") }
	e.MaxForks = 2 * len(want) // the success test is revisited once per loader tried
	rv := &Opaque{Key: "r", Type: L.Params[0].Type()}
	isR := func(v Val) bool {
		o, ok := v.(*Opaque)
		return ok && o.Key == rv.Key && o.Fn == ""
	}
	isLoader := func(f *ssa.Function) bool {
		for _, w := range want {
			if f == w {
				return true
			}
		}
		return false
	}
	// the stream a format loader returns is never nil (obligation all-returns of each loader,
	// discharged in the same run): defensive `if stream == nil` guards are dead code
	e.NonNil = func(v Val) bool {
		o, ok := v.(*Opaque)
		if !ok || !strings.HasSuffix(o.Fn, "#1") {
			return false
		}
		for _, w := range want {
			if strings.HasPrefix(o.Fn, "call:"+shortFn(w)+"@") || o.Fn == "call:"+shortFn(w)+"#1" {
				return true
			}
		}
		return false
	}
	outs := e.Run(L, []Val{rv}, nil)
	ob := newObligations()
	success := map[*ssa.Function]bool{}
	exhausted := false
	for _, o := range outs {
		where := p.Pos(o.Pos)
		if o.Kind != "return" {
			ob.dunno("chaining", "autometa.Load could not be followed at "+where+": "+o.Kind+" "+o.Why)
			continue
		}
		st := o.St
		var calls []Event
		for _, ev := range st.events {
			if ev.Kind == "call" && ev.Callee != nil && isLoader(ev.Callee) {
				calls = append(calls, ev)
				continue
			}
			// other events must not touch r or any loader's stream
			for _, v := range append([]Val{ev.Recv}, ev.Args...) {
				if deepMention(e, st, v, isR, 0) {
					ob.bad("r-unused-elsewhere", fmt.Sprintf("the source reader is used by %s at %s", ev.Fn, p.Pos(ev.Pos)))
				}
				for _, w := range want {
					if derivedFrom(v, "call:"+shortFn(w), 0) || strings.Contains(valKey(v), "call:"+shortFn(w)+"@") {
						ob.bad("chaining", fmt.Sprintf("a loader's result is used by %s at %s before being passed on", ev.Fn, p.Pos(ev.Pos)))
					}
				}
			}
		}
		if len(calls) == 0 {
			ob.bad("table", "a path returns at "+where+" without trying any loader")
			continue
		}
		seen := map[*ssa.Function]bool{}
		okPath := true
		for i, ev := range calls {
			if seen[ev.Callee] {
				ob.bad("table", shortFn(ev.Callee)+" is tried twice on one path")
				okPath = false
			}
			seen[ev.Callee] = true
			if len(ev.Args) != 1 {
				okPath = false
				continue
			}
			if i == 0 {
				if !isR(ev.Args[0]) {
					ob.bad("chaining", fmt.Sprintf("the first loader (%s at %s) receives %s instead of the source reader r", ev.Fn, p.Pos(ev.Pos), trunc(valKey(ev.Args[0]), 80)))
					okPath = false
				}
				continue
			}
			prev, _ := calls[i-1].Res.(Tuple)
			if len(prev) != 3 || valKey(ev.Args[0]) != valKey(prev[1]) {
				ob.bad("chaining", fmt.Sprintf("the stream passed to %s at %s is %s; required: the previous loader's returned stream (the original reader has lost the bytes that loader consumed)", ev.Fn, p.Pos(ev.Pos), trunc(valKey(ev.Args[0]), 80)))
				okPath = false
			}
			// the previous loader must have failed
			failed := false
			for _, c := range st.conds[:min(ev.CondIdx, len(st.conds))] {
				if isNil, ok := errNilCond(c, prev[2]); ok && !isNil {
					failed = true
				}
			}
			if !failed {
				ob.bad("iteration", fmt.Sprintf("%s at %s is tried although the previous loader was not found to have failed", ev.Fn, p.Pos(ev.Pos)))
				okPath = false
			}
		}
		if !okPath {
			continue
		}
		last, _ := calls[len(calls)-1].Res.(Tuple)
		tp, _ := o.Ret.(Tuple)
		if len(last) != 3 || len(tp) != 3 {
			ob.dunno("success-return", "result shape not understood at "+where)
			continue
		}
		lastNil, lastKnown := false, false
		for _, c := range st.conds {
			if isNil, ok := errNilCond(c, last[2]); ok {
				lastNil, lastKnown = isNil, true
			}
		}
		switch {
		case lastKnown && lastNil:
			ev, isE := tp[2].(*ErrVal)
			if valKey(tp[0]) == valKey(last[0]) && valKey(tp[1]) == valKey(last[1]) && (valKey(tp[2]) == "nil-error" || (isE && ev.IsNil) || valKey(tp[2]) == valKey(last[2])) {
				success[calls[len(calls)-1].Callee] = true
			} else {
				ob.bad("success-return", fmt.Sprintf("success return at %s yields (%s, %s, %s); required the loader's own (md, stream, nil) unmodified", where, trunc(valKey(tp[0]), 60), trunc(valKey(tp[1]), 60), trunc(valKey(tp[2]), 60)))
			}
		case lastKnown && !lastNil:
			ev, isE := tp[2].(*ErrVal)
			nonNil := (isE && !ev.IsNil) || valKey(tp[2]) == valKey(last[2]) || nonNilErrorValue(tp[2])
			if len(calls) != len(want) {
				ob.bad("exhaustion-return", fmt.Sprintf("the path returning at %s gives up after %d of %d loaders", where, len(calls), len(want)))
			} else if valKey(tp[0]) != "nil" || valKey(tp[1]) != valKey(last[1]) || !nonNil {
				ob.bad("exhaustion-return", fmt.Sprintf("return at %s yields (%s, %s, %s); required (nil, the last loader's replay stream, non-nil error): a stale stream has lost its consumed prefix", where, trunc(valKey(tp[0]), 60), trunc(valKey(tp[1]), 60), trunc(valKey(tp[2]), 60)))
			} else {
				exhausted = true
			}
		default:
			ob.bad("success-return", fmt.Sprintf("return at %s does not depend on whether %s succeeded", where, calls[len(calls)-1].Fn))
		}
	}
	for _, w := range want {
		if !success[w] && ob.fail["success-return"] == "" {
			ob.bad("table", "no path on which "+shortFn(w)+" succeeds and its result is returned: the format is not auto-detected")
		}
	}
	if !exhausted && ob.fail["exhaustion-return"] == "" {
		ob.bad("exhaustion-return", "no path on which all loaders fail")
	}
	names := map[string][2]string{
		"table":              {"(1) table", "(a) table"},
		"iteration":          {"(2) iteration", ""},
		"chaining":           {"(3,4) chaining", "(b) chaining"},
		"success-return":     {"(5) success-return", "(c) success-return"},
		"exhaustion-return":  {"(6) exhaustion-return", "(d) exhaustion-return"},
		"r-unused-elsewhere": {"(7) r-unused-elsewhere", "(e) r-unused-elsewhere"},
	}
	holds := map[string]string{
		"table":              "the three format loaders (each discharges C07 itself), and only they, are tried, each at most once, and each one's success is returned",
		"iteration":          "a further loader is tried only after the previous one returned an error",
		"chaining":           "first loader receives r, each later loader receives the previous loader's replay stream",
		"success-return":     "on err == nil the loader's md and stream are returned verbatim with a nil error",
		"exhaustion-return":  "after the last loader: nil metadata, the last loader's replay stream, a non-nil error; no path leaves with a stale stream",
		"r-unused-elsewhere": "the source reader and the intermediate streams are only handed to loaders",
	}
	for _, k := range []string{"table", "iteration", "chaining", "success-return", "exhaustion-return", "r-unused-elsewhere"} {
		n := names[k][0]
		if pre != "C19" {
			n = names[k][1]
		}
		if n == "" {
			continue
		}
		w, u := ob.fail[k], ob.undecided[k]
		switch {
		case w != "":
			r.Violate(rule, "autometa.Load "+n, pos, w)
		case u != "":
			r.Undecide(rule, "autometa.Load "+n, pos, u)
		default:
			r.Hold(rule, "autometa.Load "+n, pos, holds[k])
		}
	}
	if pre == "C07" {
		hasGo := false
		for f := range reachableFns(L) {
			if isLoader(f) {
				continue
			}
			for _, b := range f.Blocks {
				for _, in := range b.Instrs {
					if _, ok := in.(*ssa.Go); ok {
						hasGo = true
					}
				}
			}
		}
		r.Check(!hasGo, "C07.no-goroutine", "autometa.Load", pos, "no go statement", "go statement in autometa.Load")
	}
}
