package main

import (
	"fmt"
	"go/token"
	"go/types"
	"strings"

	"golang.org/x/tools/go/ssa"
)

// C06 — an embedded ICC profile is returned byte-for-byte, or absent, or an error.

func init() {
	register(&PropertyCheck{ID: "C06", Level: "other", Run: runC06})
}

func runC06(p *Program, r *Report) {
	r.Explanation = "Decided on the abstract interpretation of the parsers over a symbolic stream (bounded path exploration) plus who-may-write: (state) iccProfileData/iccProfileErr are written only by SetICCProfileData (clears the error) and SetICCProfileError (clears the data) and ICCProfileData returns both fields unmodified — bytes and error are never both set; (webp) ICC presence is bit 5 of the VP8X flags byte, the next chunk must be 'ICCP' at offset 30, the returned bytes are exactly in[38 : 38+LE32(in[34:38])] copied with a full-read primitive, absence gives (nil,nil), a wrong chunk or short data gives an error while the dimensions are still returned; (png) the returned bytes are Bytes() of the buffer io.Copy filled from zlib.NewReader over exactly the chunk bytes after name, terminator and a zero method byte (Length − (nameLen+2) bytes), reached only when both zlib errors are nil, either error reaches SetICCProfileError and the metadata is still returned; (jpeg) APP2 'ICC_PROFILE\\0' (12 bytes compared), sequence number Data[12], count Data[13], payload Data[14:], stored in slot number−1 under the guards number ≠ 0, number ≤ count, consistent count; the profile is the slots written in ascending index order into one buffer; once an error is recorded no path sets profile data afterwards (sticky); (fullread) no payload is read with a bare Read; (owned) the payload slices the parsers keep until the profile is assembled are copies they own: no Peek/ReadSlice/ReadLine view into a buffered reader's buffer, which the next refill overwrites. NOT decided: byte equality through bufio/zlib themselves (library contracts); exploration is bounded (≤ 3 chunks/segments per path)."
	r.RuleText = "one instance per clause per container format, evaluated on all explored paths"
	r.Trusted = []string{"go/packages+go/types+go/ssa (x/tools v0.29.0)", "the abstract interpreter (bounded exploration)", "io.CopyN/io.Copy/zlib/bytes.Buffer contracts", "(&bytes.Buffer{}).Bytes() is nil for an empty buffer"}
	checkICCState(p, r)
	checkICCWebp(p, r)
	checkICCPng(p, r)
	checkICCJpeg(p, r)
	rd1Scan(p, r, "C06.fullread")
	borrowedViewScan(p, r, "C06.owned")
	r.Floor("C06.state", 4)
	r.Floor("C06.webp", 5)
	r.Floor("C06.png", 4)
	r.Floor("C06.jpeg", 6)
	r.Floor("C06.fullread", 1)
	r.Floor("C06.owned", 1)
}

// checkICCState: who-may-write + setter/getter forms.
func checkICCState(p *Program, r *Report) {
	rule := "C06.state"
	setD := p.Method("meta", "Data", "SetICCProfileData")
	setE := p.Method("meta", "Data", "SetICCProfileError")
	get := p.Method("meta", "Data", "ICCProfileData")
	if setD == nil || setE == nil || get == nil {
		r.Undecide(rule, "meta.Data accessors", "-", "SetICCProfileData/SetICCProfileError/ICCProfileData not found")
		return
	}
	// who may write the two fields
	bad := ""
	n := 0
	for _, f := range p.SrcFuncs() {
		for _, b := range f.Blocks {
			for _, in := range b.Instrs {
				st, ok := in.(*ssa.Store)
				if !ok {
					continue
				}
				fa, ok := st.Addr.(*ssa.FieldAddr)
				if !ok || !namedIs(fa.X.Type(), ModPath+"/meta", "Data") {
					continue
				}
				name := fa.X.Type().Underlying().(*types.Pointer).Elem().Underlying().(*types.Struct).Field(fa.Field).Name()
				if name != "iccProfileData" && name != "iccProfileErr" {
					continue
				}
				n++
				if f != setD && f != setE {
					bad = fmt.Sprintf("%s writes %s at %s", shortFn(f), name, p.InstrPos(st))
				}
			}
		}
	}
	r.Check(bad == "" && n >= 4, rule, "writers of iccProfileData/iccProfileErr", p.FnPos(setD), fmt.Sprintf("the %d stores to the two fields are all inside SetICCProfileData / SetICCProfileError", n), bad)

	run := func(fn *ssa.Function, arg Val) (*Agg, Val, bool) {
		e := NewEngine(p)
		st := newState()
		c := e.newCell("md", fn.Params[0].Type().(*types.Pointer).Elem())
		st.mem[c] = e.SymVal("md", c.Type)
		args := []Val{&Ptr{Cell: c}}
		if arg != nil {
			args = append(args, arg)
		}
		outs := e.Run(fn, args, st)
		if len(outs) != 1 || outs[0].Kind != "return" {
			return nil, nil, false
		}
		a, _ := outs[0].St.mem[c].(*Agg)
		return a, outs[0].Ret, a != nil
	}
	field := func(a *Agg, name string) Val {
		st := a.Type.Underlying().(*types.Struct)
		for i := 0; i < st.NumFields(); i++ {
			if st.Field(i).Name() == name {
				return a.Elems[i]
			}
		}
		return nil
	}
	data := &SliceVal{Base: &Opaque{Key: "DATA"}, Lo: formInt(0), Len: formAtom("n")}
	if a, _, ok := run(setD, data); ok {
		ev, _ := field(a, "iccProfileErr").(*ErrVal)
		r.Check(valKey(field(a, "iccProfileData")) == valKey(data) && ev != nil && ev.IsNil, rule, "SetICCProfileData", p.FnPos(setD), "stores the bytes and clears the error", "SetICCProfileData leaves "+valKey(field(a, "iccProfileData"))+" / "+valKey(field(a, "iccProfileErr")))
	} else {
		r.Undecide(rule, "SetICCProfileData", p.FnPos(setD), "not extractable")
	}
	errv := &ErrVal{IsNil: false, Desc: "E"}
	if a, _, ok := run(setE, errv); ok {
		sv, _ := field(a, "iccProfileData").(*SliceVal)
		r.Check(sv != nil && sv.Nil && valKey(field(a, "iccProfileErr")) == valKey(errv), rule, "SetICCProfileError", p.FnPos(setE), "stores the error and clears the bytes: an error never comes with bytes", "SetICCProfileError leaves "+valKey(field(a, "iccProfileData"))+" / "+valKey(field(a, "iccProfileErr")))
	} else {
		r.Undecide(rule, "SetICCProfileError", p.FnPos(setE), "not extractable")
	}
	if a, ret, ok := run(get, nil); ok {
		tp, _ := ret.(Tuple)
		r.Check(len(tp) == 2 && valKey(tp[0]) == valKey(field(a, "iccProfileData")) && valKey(tp[1]) == valKey(field(a, "iccProfileErr")), rule, "ICCProfileData", p.FnPos(get), "returns both fields unmodified", "ICCProfileData returns "+valKey(ret))
	} else {
		r.Undecide(rule, "ICCProfileData", p.FnPos(get), "not extractable")
	}
}

// iccOutcome classifies the ICC state of a returned metadata value.
func iccState(md mdFacts) (hasData, hasErr bool) {
	if sv, ok := md.ICCData.(*SliceVal); ok && !sv.Nil {
		hasData = true
	}
	if ev, ok := md.ICCErr.(*ErrVal); ok {
		hasErr = !ev.IsNil
	} else if md.ICCErr != nil {
		if o, ok := md.ICCErr.(*Opaque); ok && o.Key != "nil" {
			hasErr = true
		}
	}
	return
}

func checkICCWebp(p *Program, r *Report) {
	rule := "C06.webp"
	fn := p.Func("meta/webpmeta", "extractMetadata")
	if fn == nil {
		r.Undecide(rule, "webpmeta", "-", "parser not found")
		return
	}
	r.SawFn(shortFn(fn))
	pr := webpRun(p)
	pos := p.FnPos(fn)
	if len(pr.Stuck) > 0 {
		r.Undecide(rule, "webpmeta", p.Pos(pr.Stuck[0].Pos), "parser not extractable: "+pr.Stuck[0].Why)
		return
	}
	e := pr.E
	u32 := types.Typ[types.Uint32]
	flagOK, absentOK, dataOK, errOK, dimsOK := true, true, true, true, true
	nFlag, nAbsent, nData, nErr := 0, 0, 0, 0
	why := ""
	for _, o := range pr.Succ {
		isX := false
		for _, t := range tagConds(e, o) {
			if c, ok := t.Off.ConstInt(); ok && c == 12 && t.Equal && t.Tag == "VP8X" {
				isX = true
			}
		}
		md := mdOf(o)
		hasData, hasErr := iccState(md)
		if !isX {
			if hasData || hasErr {
				absentOK, why = false, "a non-VP8X file reports ICC data or an ICC error"
			}
			continue
		}
		// the flag condition
		flag := 0 // 1 set, -1 clear
		for _, c := range o.St.conds {
			a, ok1 := c.A.(*Form)
			b, ok2 := c.B.(*Form)
			if !ok1 || !ok2 {
				continue
			}
			if cv, isC := b.ConstInt(); !isC || cv != 0 {
				continue
			}
			runs, ok := fieldRuns(e, a, types.Typ[types.Uint8])
			if !ok || len(runs) != 1 {
				continue
			}
			if off, isC := runs[0].Off.ConstInt(); isC && off == 20 && runs[0].Width == 1 {
				nFlag++
				if runs[0].Lo != 5 {
					flagOK, why = false, fmt.Sprintf("ICC presence is decided by bit %d of the VP8X flags byte; RFC 9649 assigns bit 5 (0x20)", runs[0].Lo)
				}
				if c.Op == "!=" {
					flag = 1
				} else if c.Op == "==" {
					flag = -1
				}
			}
		}
		if !md.OK {
			dimsOK = false
		}
		switch {
		case flag == -1:
			nAbsent++
			if hasData || hasErr {
				absentOK, why = false, "no ICC flag but ICC data/error reported"
			}
			if c, ok := pr.posOf(o).ConstInt(); !ok || c != 30 {
				absentOK, why = false, "without the ICC flag the parser reads beyond the VP8X chunk"
			}
		case flag == 1 && hasData:
			nData++
			// tag ICCP at 30, copyn of in[38:+LE32(34..37)], returned = Bytes(of that buffer)
			tagOK := false
			for _, t := range tagConds(e, o) {
				if c, ok := t.Off.ConstInt(); ok && c == 30 && t.Equal && t.Tag == "ICCP" {
					tagOK = true
				}
			}
			var cp *Event
			for k := range o.St.events {
				if o.St.events[k].Kind == "copyn" || o.St.events[k].Kind == "readinto" {
					cp = &o.St.events[k]
				}
			}
			good := tagOK && cp != nil
			stageWhy := ""
			if good {
				start, _ := cp.Args[1].(*Form)
				n, _ := cp.Args[2].(*Form)
				runs, ok := fieldRuns(e, n, u32)
				good = start != nil && start.Equal(formInt(38)) && ok && runsMatch(runs, []runSpec{{37, 0, 8}, {36, 0, 8}, {35, 0, 8}, {34, 0, 8}})
				sv := md.ICCData.(*SliceVal)
				if good && !(sv.Base != nil && sv.Base.Fn == "call:(*bytes.Buffer).Bytes" && len(sv.Base.Args) == 1 && valKey(sv.Base.Args[0]) == valKey(cp.Recv)) && !(cp.Kind == "readinto" && valKey(md.ICCData) == valKey(cp.Recv)) {
					good = false
				}
				if good {
					if ok, w := freshStage(o, cp.Recv, cp); !ok {
						good = false
						stageWhy = w
					}
				}
			}
			if !good && stageWhy != "" {
				dataOK, why = false, "ICCP payload: "+stageWhy
			} else if !good {
				dataOK, why = false, fmt.Sprintf("the returned ICC bytes are not exactly the 'ICCP' chunk payload in[38 : 38+LE32(in[34:38])] (chunk tag at 30 required) on the path [%s]; returned %s", func() string {
					k := condKeys(o)
					if len(k) > 400 {
						k = "…" + k[len(k)-400:]
					}
					return k
				}(), trunc(valKey(md.ICCData), 120))
			}
			if hasErr {
				dataOK, why = false, "ICC data and an ICC error are both set"
			}
		case flag == 1 && hasErr:
			nErr++
			if hasData {
				errOK = false
			}
		case flag == 1:
			errOK, why = false, "ICC flag set but neither data nor an error is reported (data "+trunc(valKey(md.ICCData), 60)+", error "+trunc(valKey(md.ICCErr), 60)+") on […"+func() string {
				k := condKeys(o)
				if len(k) > 300 {
					k = k[len(k)-300:]
				}
				return k
			}()+"]"
		}
	}
	r.Check(flagOK && nFlag > 0, rule, "ICC flag bit", pos, "ICC presence = bit 5 (0x20) of the VP8X flags byte in[20]", why)
	r.Check(absentOK && nAbsent > 0, rule, "absent", pos, "without the flag (and for VP8/VP8L) the profile accessor yields (nil, nil) and nothing past the VP8X chunk is read", why)
	r.Check(dataOK && nData > 0, rule, "payload", pos, "returned bytes = 'ICCP' chunk payload in[38 : 38+LE32(in[34:38])], copied with a full-read primitive into a fresh buffer", why)
	r.Check(errOK && nErr > 0, rule, "damaged", pos, fmt.Sprintf("%d paths with the flag set but a wrong/short chunk: an error is recorded, no bytes", nErr), "flagged but damaged ICC chunk does not yield an error without bytes: "+why)
	r.Check(dimsOK, rule, "dimensions kept", pos, "every such path still returns the dimensions", "a path with ICC trouble loses the dimensions")
}

// freshStage reports whether v — the destination of a copy/read/write at event
// `at` — is storage created empty on this very path (a local bytes.Buffer
// allocation or a slice from make) that no earlier event has touched: a
// staging buffer that could carry bytes from an earlier chunk, an earlier call
// (a pool, a package-level scratch buffer, a parameter) would make the
// "returned bytes = embedded bytes" chain false.
func freshStage(o Outcome, v Val, at *Event, resetOK ...bool) (bool, string) {
	key := valKey(v)
	if len(resetOK) > 0 && resetOK[0] {
		// a reused *bytes.Buffer is as good as a new one right after Reset() (only for a
		// buffer whose contents do not outlive the call)
		var last *Event
		for k := range o.St.events {
			ev := &o.St.events[k]
			if ev == at {
				break
			}
			touches := ev.Recv != nil && valKey(ev.Recv) == key
			for _, a := range ev.Args {
				if a != nil && valKey(a) == key {
					touches = true
				}
			}
			if touches {
				last = ev
			}
		}
		if last != nil && last.Kind == "call" && last.Fn == "(*bytes.Buffer).Reset" {
			return true, ""
		}
	}
	if at != nil && at.Kind == "readinto" && (at.Fn == "io.ReadAll" || at.Fn == "io/ioutil.ReadAll") {
		return true, "" // ReadAll returns a slice of its own
	}
	switch x := v.(type) {
	case *Ptr:
		if x.Cell == nil || !x.Cell.Alloc || len(x.Path) != 0 || !namedIs(x.Cell.Type, "bytes", "Buffer") {
			return false, "the staging buffer " + trunc(key, 60) + " is not a bytes.Buffer allocated by this call"
		}
	case *SliceVal:
		if x.Base == nil || x.Base.Fn != "make" || !x.Lo.Equal(formInt(0)) {
			return false, "the staging slice " + trunc(key, 60) + " is not a slice made by this call"
		}
	default:
		return false, "the staging buffer " + trunc(key, 60) + " is not storage allocated by this call (a pooled, shared or caller-supplied buffer may still hold earlier bytes)"
	}
	for k := range o.St.events {
		ev := &o.St.events[k]
		if ev == at {
			break
		}
		if ev.Kind == "make" || ev.Kind == "bounds" {
			continue
		}
		if ev.Kind == "call" && ev.Fn == "(*bytes.Buffer).Grow" {
			continue // reserves capacity, leaves the contents empty
		}
		if ev.Recv != nil && valKey(ev.Recv) == key {
			return false, "the staging buffer is already used by " + ev.Fn + " before the payload is read into it"
		}
		for _, a := range ev.Args {
			if a != nil && valKey(a) == key {
				return false, "the staging buffer is already used by " + ev.Fn + " before the payload is read into it"
			}
		}
	}
	return true, ""
}

func checkICCPng(p *Program, r *Report) {
	rule := "C06.png"
	fn := p.Func("meta/pngmeta", "extractMetadata")
	if fn == nil {
		r.Undecide(rule, "pngmeta", "-", "parser not found")
		return
	}
	r.SawFn(shortFn(fn))
	pr := pngRun(p)
	pos := p.FnPos(fn)
	if len(pr.Stuck) > 0 {
		r.Undecide(rule, "pngmeta", p.Pos(pr.Stuck[0].Pos), "parser not extractable: "+pr.Stuck[0].Why)
		return
	}
	e := pr.E
	dataOK, errOK, absentOK := true, true, true
	nData, nErr, nAbsent := 0, 0, 0
	why := ""
	for _, o := range pr.Succ {
		md := mdOf(o)
		hasData, hasErr := iccState(md)
		var iccTag *tagCond
		for _, t := range tagConds(e, o) {
			if t.Equal && t.Tag == "iCCP" {
				tt := t
				iccTag = &tt
			}
		}
		if iccTag == nil {
			nAbsent++
			if hasData || hasErr {
				absentOK, why = false, "no iCCP chunk on the path but ICC data/error reported"
			}
			continue
		}
		if hasData && hasErr {
			dataOK, why = false, "ICC data and an ICC error are both set"
		}
		// events of the last iCCP chunk
		var cp, zr, cpy, byt, rall *Event
		nameLen := int64(0)
		for k := range o.St.events {
			ev := &o.St.events[k]
			switch {
			case ev.Kind == "copyn" || ev.Kind == "readinto":
				cp = ev
			case ev.Kind == "call" && ev.Fn == "compress/zlib.NewReader":
				zr = ev
			case ev.Kind == "call" && ev.Fn == "io.Copy":
				cpy = ev
			case ev.Kind == "call" && ev.Fn == "(*bytes.Buffer).Bytes":
				byt = ev
			case ev.Kind == "call" && (ev.Fn == "io.ReadAll" || ev.Fn == "io/ioutil.ReadAll"):
				rall = ev
			}
		}
		// the read that fed the decompressor (other copies, e.g. skips into io.Discard, are not it)
		if zr != nil && len(zr.Args) == 1 {
			var src *Event
			for k := range o.St.events {
				ev := &o.St.events[k]
				if ev.Kind != "copyn" && ev.Kind != "readinto" {
					continue
				}
				if rv, ok := zr.Args[0].(*ReaderVal); ok && rv.S.Data != nil {
					if valKey(rv.S.Data) == valKey(ev.Recv) {
						src = ev
					}
				} else if valKey(zr.Args[0]) == valKey(ev.Recv) {
					src = ev
				}
			}
			if src != nil {
				cp = src
			}
		}
		if cp != nil {
			// name length from the position algebra: payload start = tag + 4 + nameLen + 2
			if st, ok := cp.Args[1].(*Form); ok {
				if c, isC := st.Sub(iccTag.Off).Sub(formInt(6)).ConstInt(); isC {
					nameLen = c
				} else {
					nameLen = -1
				}
			}
		}
		if hasData {
			nData++
			good := cp != nil && zr != nil && ((cpy != nil && byt != nil) || rall != nil) && nameLen >= 0 && nameLen <= 79
			if good {
				t := iccTag.Off
				L := e.beU32(t.Sub(formInt(4)))
				start, _ := cp.Args[1].(*Form)
				n, _ := cp.Args[2].(*Form)
				wantStart := t.Add(formInt(4 + nameLen + 2))
				wantN := L.Sub(formInt(nameLen + 2))
				good = start != nil && n != nil && start.Equal(wantStart) && n.Equal(wantN)
				if !good {
					why = fmt.Sprintf("the compressed payload read is in[%s : +%s]; required the chunk bytes after name(%d)+NUL+method: in[%s : +%s]", trunc(start.Key(), 60), trunc(n.Key(), 60), nameLen, trunc(wantStart.Key(), 60), trunc(wantN.Key(), 60))
				}
				// method byte == 0 and terminator == 0 on the path
				eqs := byteEqConds(e, o)
				if v, ok := eqs[t.Add(formInt(4+nameLen+1)).Key()]; good && (!ok || v != 0) {
					good, why = false, "the compression method byte is not required to be 0"
				}
				if v, ok := eqs[t.Add(formInt(4+nameLen)).Key()]; good && (!ok || v != 0) {
					good, why = false, "the profile name is not terminated by a zero byte right before the method byte"
				}
				// chain: zlib over the copied buffer; io.Copy from that reader into Y; data = Y.Bytes()
				if good {
					src := zr.Args[0]
					if rv, ok := src.(*ReaderVal); ok && rv.S.Data != nil {
						// bytes.NewReader(chunkData) over the read-into slice
						good = valKey(rv.S.Data) == valKey(cp.Recv)
					} else {
						good = valKey(src) == valKey(cp.Recv)
					}
					zres, _ := zr.Res.(Tuple)
					sv, _ := md.ICCData.(*SliceVal)
					if cpy != nil && byt != nil {
						good = good && len(zres) == 2 && len(cpy.Args) == 2 && valKey(cpy.Args[1]) == valKey(zres[0]) && valKey(byt.Args[0]) == valKey(cpy.Args[0])
						good = good && sv != nil && sv.Base != nil && len(sv.Base.Args) == 1 && valKey(sv.Base.Args[0]) == valKey(cpy.Args[0])
					} else {
						// io.ReadAll(zlib reader): the returned slice itself
						rres, _ := rall.Res.(Tuple)
						good = good && len(zres) == 2 && len(rall.Args) == 1 && valKey(rall.Args[0]) == valKey(zres[0]) && len(rres) == 2 && valKey(md.ICCData) == valKey(rres[0])
					}
					if !good {
						why = "the returned bytes are not what was read to the end (io.Copy into a buffer + Bytes(), or io.ReadAll) from zlib.NewReader over the chunk payload"
					}
					// both staging buffers start empty and belong to this call
					if good {
						if ok, w := freshStage(o, cp.Recv, cp, true); !ok {
							good, why = false, "compressed payload: "+w
						}
					}
					if good && cpy != nil {
						if ok, w := freshStage(o, cpy.Args[0], cpy); !ok {
							good, why = false, "decompressed profile: "+w
						}
					}
				}
				// both errors nil on this path
				if good {
					nilConds := 0
					for _, c := range o.St.conds {
						k := c.Key()
						if c.Op == "==" && strings.Contains(k, "nil-error") && (strings.Contains(k, "zlib.NewReader#1") || strings.Contains(k, "io.Copy#1") || strings.Contains(k, "io.ReadAll#1") || strings.Contains(k, "ioutil.ReadAll#1")) {
							nilConds++
						}
					}
					if nilConds < 2 {
						good, why = false, "profile bytes are set although zlib.NewReader's or io.Copy's error was not checked to be nil"
					}
				}
			} else {
				why = "ICC data set without the copy → zlib → io.Copy → Bytes chain"
			}
			if !good {
				dataOK = false
			}
		} else if hasErr {
			nErr++
			// error must be zlib's or io.Copy's
			k := valKey(md.ICCErr)
			if !strings.Contains(k, "zlib.NewReader#1") && !strings.Contains(k, "io.Copy#1") && !strings.Contains(k, "ReadAll#1") {
				errOK, why = false, "the recorded ICC error is "+trunc(k, 80)+", not the decompression error"
			}
			if !md.OK {
				errOK, why = false, "a damaged profile loses the dimensions"
			}
		}
	}
	r.Check(dataOK && nData > 0, rule, "payload", pos, fmt.Sprintf("on %d paths: bytes = Bytes() of io.Copy(buffer, zlib.NewReader(chunk bytes after name+NUL+method 0)), both zlib errors nil", nData), why)
	r.Check(errOK && nErr > 0, rule, "damaged", pos, fmt.Sprintf("on %d paths a zlib header or stream error is recorded as the ICC error, no bytes, dimensions kept", nErr), why)
	r.Check(absentOK && nAbsent > 0, rule, "absent", pos, "without an iCCP chunk the accessor yields (nil, nil)", why)
	// name loop bound 80 / 79-byte limit
	nameOK := pngNameLoopBound(fn)
	r.Check(nameOK, rule, "name bound", pos, "the profile-name loop is bounded by 80 bytes (79-character names + terminator)", "the profile name loop is not bounded by 80")
}

func checkICCJpeg(p *Program, r *Report) {
	rule := "C06.jpeg"
	fn := p.Func("meta/jpegmeta", "extractMetadata")
	if fn == nil {
		r.Undecide(rule, "jpegmeta", "-", "parser not found")
		return
	}
	r.SawFn(shortFn(fn))
	pr := jpegRun(p, true)
	pos := p.FnPos(fn)
	if len(pr.Stuck) > 0 {
		r.Undecide(rule, "jpegmeta", p.Pos(pr.Stuck[0].Pos), "parser not extractable: "+pr.Stuck[0].Why)
		return
	}
	e := pr.E
	ident := "ICC_PROFILE\x00"
	storeOK, idOK, guardOK, asmOK, stickyOK, absentOK := true, true, true, true, true, true
	nStore, nAsm, nAbsent := 0, 0, 0
	why, stickyWhy, absentWhy := "", "", ""
	segOf := func(k string) int {
		i := strings.Index(k, "ReadSegment@")
		if i < 0 {
			return -1
		}
		n := -1
		fmt.Sscanf(k[i+len("ReadSegment@"):], "%d", &n)
		return n
	}
	for _, out := range pr.Outs {
		if out.Kind == "stuck" {
			continue
		}
		// sticky: after an error trace, no chunk store and no data trace
		errAt := -1
		for i, ev := range out.St.events {
			if ev.Kind == "trace" && strings.HasSuffix(ev.Fn, "SetICCProfileError") && errAt < 0 {
				errAt = i
			}
			if errAt >= 0 && i > errAt {
				if ev.Kind == "trace" && strings.HasSuffix(ev.Fn, "SetICCProfileData") {
					stickyOK, stickyWhy = false, "SetICCProfileData is reached after SetICCProfileError on the same path"
				}
			}
		}
		// every chunk store: slot Data[12]-1 := Data[14:] of the same segment, identifier matched
		for _, ev := range out.St.events {
			if ev.Kind != "store" {
				continue
			}
			ptr, ok := ev.Recv.(*Ptr)
			if !ok || ptr.Base == nil || ptr.Base.Fn != "make" {
				continue
			}
			nStore++
			idx := ptr.SymIdx
			val, _ := ev.Args[0].(*SliceVal)
			seg := -1
			good := false
			if idx != nil && val != nil && val.Base != nil {
				seg = segOf(val.Base.Key)
				num := idx.Add(formInt(1))
				if an, isA := num.SingleAtom(); isA {
					s2, ix, ok := segDataRef(e, an)
					good = ok && s2 == seg && ix == 12 && val.Lo.Equal(formInt(14))
				}
			}
			if !good {
				storeOK, why = false, fmt.Sprintf("chunk store at %s: slot %s := %s; required slot Data[12]−1 := Data[14:] of the same APP2 segment (ICC.1 Annex B.4)", p.Pos(ev.Pos), trunc(valKey(idx), 80), trunc(valKey(ev.Args[0]), 80))
				continue
			}
			// identifier equalities for that segment
			matched := map[int64]bool{}
			numNonZero, numLeq := false, false
			for ci, c := range out.St.conds {
				if ci >= ev.CondIdx {
					break
				}
				a, okA := c.A.(*Form)
				b, okB := c.B.(*Form)
				if !okA || !okB {
					continue
				}
				an, isA := a.SingleAtom()
				if !isA {
					continue
				}
				s2, ix, ok := segDataRef(e, an)
				if !ok || s2 != seg {
					continue
				}
				if cv, isC := b.ConstInt(); isC && c.Op == "==" && ix >= 0 && ix < 12 && cv == int64(ident[ix]) {
					matched[ix] = true
				}
			}
			// the same fact stated with bytes.HasPrefix(Data, "ICC_PROFILE\0")
			for ci, c := range out.St.conds {
				if ci >= ev.CondIdx || c.Op != "prefix" {
					continue
				}
				sl, _ := c.A.(*SliceVal)
				pf, _ := c.B.(*SliceVal)
				if sl == nil || pf == nil || sl.Base == nil || segOf(sl.Base.Key) != seg || !sl.Lo.Equal(formInt(0)) {
					continue
				}
				if els, ok := e.sliceElems(out.St, pf); ok && len(els) == len(ident) {
					all := true
					for i, el := range els {
						f, _ := el.(*Form)
						if cv, isC := f.ConstInt(); f == nil || !isC || cv != int64(ident[i]) {
							all = false
						}
					}
					if all {
						for i := range ident {
							matched[int64(i)] = true
						}
					}
				}
			}
			// bounds on the sequence number Data[12] of that segment, in any
			// spelling: n != 0, n >= 1, n > 0, !(n < 1), 1 <= n …; n <= count, count >= n, !(count < n) …
			for ci, c := range out.St.conds {
				if ci >= ev.CondIdx {
					break
				}
				a, okA := c.A.(*Form)
				b, okB := c.B.(*Form)
				if !okA || !okB {
					continue
				}
				op := c.Op
				isNum := func(f *Form) bool {
					an, isA := f.SingleAtom()
					if !isA {
						return false
					}
					s2, ix, ok := segDataRef(e, an)
					return ok && s2 == seg && ix == 12
				}
				if !isNum(a) && isNum(b) {
					a, b = b, a
					op = map[string]string{"<": ">", "<=": ">=", ">": "<", ">=": "<=", "==": "==", "!=": "!="}[op]
				}
				if !isNum(a) {
					continue
				}
				if cv, isC := b.ConstInt(); isC {
					if (op == "!=" && cv == 0) || (op == ">=" && cv == 1) || (op == ">" && cv == 0) {
						numNonZero = true
					}
					continue
				}
				if op == "<=" {
					numLeq = true
				}
			}
			if len(matched) != 12 {
				idOK, why = false, fmt.Sprintf("a chunk is stored after matching only %d of the 12 bytes of \"ICC_PROFILE\\0\"", len(matched))
			}
			if !numNonZero || !numLeq {
				guardOK, why = false, fmt.Sprintf("chunk store not guarded by sequence number ≠ 0 (%v) and ≤ count (%v)", numNonZero, numLeq)
			}
		}
		if out.Kind != "return" {
			continue
		}
		tp, _ := out.Ret.(Tuple)
		if len(tp) != 2 {
			continue
		}
		if ev, ok := tp[1].(*ErrVal); !ok || !ev.IsNil {
			continue
		}
		md := mdOf(out)
		hasData, hasErr := iccState(md)
		if hasData && hasErr {
			asmOK, why = false, "ICC data and error both set"
		}
		anyStore := false
		for _, ev := range out.St.events {
			if ev.Kind == "store" {
				anyStore = true
			}
		}
		if !anyStore && !hasErr {
			nAbsent++
			if hasData {
				// Bytes() of an empty buffer is nil by the library contract; the write loop must be empty
				for _, ev := range out.St.events {
					if ev.Kind == "loop-summary" {
						if lim, ok := ev.Args[1].(*Form); !ok || !lim.Equal(formInt(0)) {
							absentOK, absentWhy = false, "profile data is written although no ICC chunk was stored"
						}
					}
				}
			}
		}
		if hasData && anyStore {
			nAsm++
			// the assembly: loop over all slots ascending writing each into one buffer, data = Bytes(buffer)
			var sum, wr *Event
			for k := range out.St.events {
				ev := &out.St.events[k]
				if ev.Kind == "loop-summary" {
					sum = ev
				}
				if ev.Kind == "loop-call" && strings.HasSuffix(ev.Fn, "(*bytes.Buffer).Write") {
					wr = ev
				}
			}
			var app *Event
			for k := range out.St.events {
				ev := &out.St.events[k]
				if ev.Kind == "loop-append" {
					app = ev
				}
			}
			if wr == nil && app != nil && len(app.Args) >= 4 {
				// profile = append(append(empty, slot0...), slot1...) … in ascending slot order
				k, _ := app.Args[0].(*Form)
				first, _ := app.Args[1].(*Form)
				latch, _ := app.Args[3].(*SliceVal)
				init, _ := app.Recv.(*SliceVal)
				okA := k != nil && first != nil && first.Equal(formInt(0)) && latch != nil && latch.Base != nil && latch.Base.Fn == "append" && len(latch.Base.Args) == 2
				if okA {
					kk := valKey(latch.Base.Args[1])
					okA = strings.Contains(kk, "index(make#") && strings.Contains(kk, k.Key())
				}
				// the accumulator starts empty
				okA = okA && init != nil && (init.Nil || (init.Len != nil && init.Len.Equal(formInt(0))))
				sv, _ := md.ICCData.(*SliceVal)
				okA = okA && sv != nil && sv.Base != nil && sv.Base.Fn == "loop-append" && len(sv.Base.Args) == 2 && valKey(sv.Base.Args[0]) == valKey(app.Recv)
				if !okA {
					asmOK, why = false, "the returned profile is not the slots 0..count−1 appended in ascending order to one initially empty slice"
				}
				continue
			}
			good := sum != nil && wr != nil
			if good {
				first, _ := sum.Args[0].(*Form)
				step, _ := sum.Args[2].(*Form)
				k, _ := sum.Args[3].(*Form)
				ra := realArgs(*wr)
				good = first.Equal(formInt(0)) && step.Equal(formInt(1)) && len(ra) == 2
				if good {
					ch, _ := ra[1].(*SliceVal)
					_ = ch
					kk := valKey(ra[1])
					good = strings.Contains(kk, "index(make#") && strings.Contains(kk, k.Key())
					sv, _ := md.ICCData.(*SliceVal)
					good = good && sv != nil && sv.Base != nil && len(sv.Base.Args) == 1 && valKey(sv.Base.Args[0]) == valKey(ra[0])
					if good {
						if ok, w := freshStage(out, ra[0], wr); !ok {
							asmOK, why = false, "assembly: "+w
							continue
						}
					}
				}
			}
			if !good {
				asmOK, why = false, "the returned profile is not the slots 0..count−1 written in ascending order into one buffer"
			}
		}
	}
	r.Check(storeOK && nStore > 0, rule, "slot", pos, fmt.Sprintf("%d chunk stores on all explored paths: slot Data[12]−1 := Data[14:] of the same segment", nStore), why)
	r.Check(idOK && nStore > 0, rule, "identifier", pos, "a chunk is stored only after all 12 bytes of \"ICC_PROFILE\\0\" matched Data[0:12]", why)
	r.Check(guardOK && nStore > 0, rule, "guards", pos, "sequence number ≠ 0 and ≤ chunk count before any store", why)
	r.Check(asmOK && nAsm > 0, rule, "assembly", pos, fmt.Sprintf("on %d complete paths: profile = slots in ascending index order written into one buffer, Bytes() returned", nAsm), why)
	r.Check(stickyOK, rule, "sticky error", pos, "once an ICC error is recorded, no path sets profile data afterwards: a damaged profile stays an error", stickyWhy)
	r.Check(absentOK && nAbsent > 0, rule, "absent", pos, "without APP2 ICC segments no error is recorded and nothing is written to the profile buffer", absentWhy)
	// APP2 marker value
	if c, ok := constOf(p, "meta/jpegmeta", "markerTypeApp2"); ok {
		r.Check(c.Num().Int64() == 0xe2, rule, "APP2 = 0xE2", pos, "markerTypeApp2 = 0xE2", "markerTypeApp2 is not 0xE2")
	}
}

// pngNameLoopBound: the iCCP profile-name loop can read 80 bytes (a 79-byte
// name and its NUL terminator).
func pngNameLoopBound(fn *ssa.Function) bool {
	for f := range reachableFns(fn) {
		if !inMeta(f) || !strings.HasSuffix(f.Pkg.Pkg.Path(), "pngmeta") {
			continue
		}
		for _, iv := range loopIndVars(f) {
			if c, ok := constInt(iv.Limit); ok && ((iv.Op == token.LSS && c == 80) || (iv.Op == token.LEQ && c == 79)) {
				if s, okS := constInt(iv.Step); okS && s == 1 {
					return true
				}
			}
		}
	}
	return false
}
