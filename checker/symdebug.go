package main

import (
	"fmt"
	"os"
	"strings"

	"golang.org/x/tools/go/ssa"
)

// debugSym prints the abstract interpretation of one function (developer aid:
// prismcheck -sym srgb:encodedToLinear | meta/icc:ProfileReader.readHeader).
func debugSym(p *Program, spec string, failReads bool) {
	i := strings.LastIndex(spec, ":")
	pkg, name := spec[:i], spec[i+1:]
	var fn *ssa.Function
	if j := strings.Index(name, "."); j >= 0 {
		fn = p.Method(pkg, name[:j], name[j+1:])
	} else {
		fn = p.Func(pkg, name)
	}
	if fn == nil {
		fmt.Println("not found:", spec)
		return
	}
	e := NewEngine(p)
	e.EvalInits = true
	e.RunOnce, e.RunInitFuncs = true, true
	e.Opaque = func(f *ssa.Function) bool { return f.Pkg != nil && strings.HasSuffix(f.Pkg.Pkg.Path(), "linear/lut") }
	e.FailReads = failReads
	st := newState()
	var args []Val
	for _, prm := range fn.Params {
		if isReaderType(prm.Type()) && isIfaceOrReader(prm) {
			s := &Stream{Name: "in"}
			st.pos[s] = formInt(0)
			args = append(args, &ReaderVal{S: s})
			continue
		}
		args = append(args, e.SymVal(prm.Name(), prm.Type()))
	}
	outs := e.Run(fn, args, st)
	for k, o := range outs {
		fmt.Printf("--- outcome %d: %s %s %s\n", k, o.Kind, o.Why, p.Pos(o.Pos))
		for _, c := range o.St.conds {
			fmt.Println("   if", c.Key())
		}
		fmt.Println("   ret", valKey(o.Ret))
		for s, ps := range o.St.pos {
			fmt.Printf("   pos[%s] = %s\n", s.Name, ps.Key())
		}
		for _, ev := range o.St.events {
			fmt.Printf("   event %s %s recv=%s args=%s\n", ev.Kind, ev.Fn, valKey(ev.Recv), valKey(Tuple(ev.Args)))
		}
		for c, v := range o.St.mem {
			if strings.HasPrefix(c.Name, "*") || strings.HasPrefix(c.Name, "g:") {
				fmt.Printf("   mem %s#%d = %s\n", c.Name, c.ID, valKey(v))
			}
		}
	}
	fmt.Printf("%d outcomes, %d steps\n", len(outs), e.steps)
}

func isIfaceOrReader(prm *ssa.Parameter) bool {
	_, ok := prm.Type().Underlying().(interface{ NumMethods() int })
	return ok
}

func debugWorkers(p *Program, spec string) {
	i := strings.LastIndex(spec, ":")
	fn := p.Func(spec[:i], spec[i+1:])
	sites, outs, err := analyseWorkers(p, fn)
	fmt.Println("err:", err, "sites:", len(sites))
	for _, o := range outs {
		fmt.Println("--- outcome", o.Kind, p.Pos(o.Pos))
		for _, c := range o.St.conds {
			fmt.Println("   cond", trunc(c.Key(), 200))
		}
	}
	for _, s := range sites {
		fmt.Println("=== site", s.Pos, "closure", shortFn(s.Closure), "err:", s.Err)
		for _, c := range s.Conds {
			fmt.Println("   cond", trunc(c.Key(), 200))
		}
		for _, ev := range s.Events {
			fmt.Printf("   %s %s recv=%s args=%s res=%s\n", ev.Kind, ev.Fn, trunc(valKey(ev.Recv), 150), trunc(valKey(Tuple(ev.Args)), 600), trunc(valKey(ev.Res), 100))
		}
	}
}

// debugMeta prints a compact summary of the abstract interpretation of a
// parser taking a single reader parameter.
func debugMeta(p *Program, spec string, forks int) {
	i := strings.LastIndex(spec, ":")
	fn := p.Func(spec[:i], spec[i+1:])
	if fn == nil {
		fmt.Println("not found")
		return
	}
	e := NewEngine(p)
	e.EvalInits = true
	e.MaxForks = forks
	e.PruneByFacts = os.Getenv("PRISMCHECK_PRUNE") != ""
	if os.Getenv("PRISMCHECK_ITER") != "" {
		fmt.Sscan(os.Getenv("PRISMCHECK_ITER"), &e.MaxIter)
	}
	e.SeqCalls = func(n string) bool { return strings.Contains(n, "ReadSegment") }
	st := newState()
	s := &Stream{Name: "in"}
	st.pos[s] = formInt(0)
	outs := e.Run(fn, []Val{&ReaderVal{S: s}}, st)
	kinds := map[string]int{}
	for _, o := range outs {
		kinds[o.Kind]++
		tp, _ := o.Ret.(Tuple)
		okRet := false
		if len(tp) == 2 {
			if ev, ok := tp[1].(*ErrVal); ok && ev.IsNil {
				okRet = true
			}
		}
		if o.Kind == "stuck" {
			fmt.Println("STUCK", o.Why, p.Pos(o.Pos))
		}
		if !okRet {
			if os.Getenv("PRISMCHECK_ALLOUT") != "" {
				fmt.Printf("... %s at %s ret=%s why=%s\n", o.Kind, p.Pos(o.Pos), trunc(valKey(o.Ret), 160), o.Why)
			}
			continue
		}
		fmt.Printf("--- success at %s pos=%s conds=%d\n", p.Pos(o.Pos), o.St.pos[s].Key(), len(o.St.conds))
		for _, c := range o.St.conds {
			fmt.Println("    if", trunc(c.Key(), 220))
		}
		if ptr, ok := tp[0].(*Ptr); ok && ptr.Cell != nil {
			fmt.Println("    md =", trunc(valKey(o.St.mem[ptr.Cell]), 900))
		}
		for _, ev := range o.St.events {
			fmt.Printf("    ev %s %s recv=%s args=%s\n", ev.Kind, ev.Fn, trunc(valKey(ev.Recv), 60), trunc(valKey(Tuple(ev.Args)), 200))
		}
	}
	fmt.Println(kinds, "steps", e.steps)
}

// debugFn prints a compact summary of any function's abstract interpretation.
func debugFn(p *Program, spec string, iter, forks int, fail bool) {
	i := strings.LastIndex(spec, ":")
	pkg, name := spec[:i], spec[i+1:]
	var fn *ssa.Function
	if j := strings.Index(name, "."); j >= 0 {
		fn = p.Method(pkg, name[:j], name[j+1:])
	} else {
		fn = p.Func(pkg, name)
	}
	if fn == nil {
		fmt.Println("not found")
		return
	}
	e := NewEngine(p)
	e.EvalInits = true
	e.MaxIter, e.MaxForks, e.FailReads = iter, forks, fail
	st := newState()
	s := &Stream{Name: "in"}
	st.pos[s] = formInt(0)
	outs := e.Run(fn, setupArgs(e, st, fn, s), st)
	kinds := map[string]int{}
	for _, o := range outs {
		kinds[o.Kind]++
		if o.Kind == "cutoff" {
			continue
		}
		fmt.Printf("--- %s %s at %s ret=%s\n", o.Kind, trunc(o.Why, 200), p.Pos(o.Pos), trunc(valKey(o.Ret), 300))
		for st2, ps := range o.St.pos {
			fmt.Printf("    pos[%s]=%s\n", st2.Name, trunc(ps.Key(), 200))
		}
		for ci, c := range o.St.conds {
			fmt.Printf("    if#%d %s\n", ci, trunc(c.Key(), 200))
		}
		for _, ev := range o.St.events {
			fmt.Printf("    ev@%d %s %s recv=%s args=%s\n", ev.CondIdx, ev.Kind, ev.Fn, trunc(valKey(ev.Recv), 80), trunc(valKey(Tuple(ev.Args)), 400))
		}
	}
	fmt.Println(kinds, "steps", e.steps)
}
