package main

import (
	"fmt"
	"go/token"
	"go/types"
	"math/big"

	"golang.org/x/tools/go/ssa"
)

// A small prover for slice/index bounds (C09.P1, rule B).
//
// The unprotected function is interpreted (engine, TrackBounds); each indexing
// or slicing operation leaves a "bounds" event with the index/bounds, the
// length and the path conditions in force. The obligation
//
//	0 <= lo <= hi <= len        (slice)      0 <= i < len   (index)
//
// is proved in integer linear arithmetic: a target P <= Q holds when Q − P is a
// non-negative constant after subtracting at most two known facts A <= B. Facts
// are the path conditions whose SSA arithmetic provably does not wrap (an
// addition of two values in a 32-bit type is NOT a fact: that is defect D4),
// non-negativity of unsigned/len atoms, and the ranges of generic-iteration
// counters. The bounds' own arithmetic may be formed in a type at least 32 bits
// wide: the exact value is proved <= len, and slices handed to these parsers are
// shorter than 2^31 bytes on 32-bit targets by the definition of int and than
// 2^32 on 64-bit targets because their lengths come from 32-bit size fields
// (recorded as an assumption).

// geZero is the fact D >= 0 for an integer-valued form D.
type geZero struct {
	D   *Form
	Why string
}

func intForm(f *Form) bool {
	if f == nil {
		return false
	}
	c, ok := f.D.constVal()
	return ok && c.Sign() != 0
}

func (e *Engine) atomNonneg(key string) bool {
	at := e.A.get(key)
	if at == nil {
		return false
	}
	switch {
	case at.Kind == "byte", at.Kind == "bv":
		return at.Kind == "byte" || at.BV != nil
	case at.Fn == "len", at.Fn == "cap", at.Fn == "index", at.Fn == "idiv", at.Fn == "short":
		return true // lengths, byte elements, quotients of those, byte counts of a short read
	}
	if at.Type != nil {
		if b, ok := at.Type.Underlying().(*types.Basic); ok && b.Info()&types.IsUnsigned != 0 {
			return true
		}
	}
	return false
}

// arithExact reports whether the integer arithmetic producing v cannot wrap
// for any operand values (so that the engine's exact reading of it is the
// machine's). wordBits is the width of int/uint.
func arithExact(v ssa.Value, wordBits, depth int) bool {
	if depth > 12 {
		return false
	}
	switch x := v.(type) {
	case *ssa.Const, *ssa.Parameter, *ssa.FreeVar, *ssa.Extract, *ssa.Phi, *ssa.Lookup, *ssa.Field, *ssa.Index:
		return true
	case *ssa.Call:
		return true
	case *ssa.UnOp:
		switch x.Op {
		case token.MUL, token.NOT: // load, boolean not
			if x.Op == token.NOT {
				return arithExact(x.X, wordBits, depth+1)
			}
			return true
		case token.SUB:
			return false
		}
		return false
	case *ssa.Convert:
		dw, dsigned, dInt := intTypeInfo(x.Type(), wordBits)
		sw, ssigned, sInt := intTypeInfo(x.X.Type(), wordBits)
		if !dInt || !sInt {
			return false
		}
		if !arithExact(x.X, wordBits, depth+1) {
			return false
		}
		switch {
		case dw > sw && (!ssigned || dsigned):
			return true // zero/sign extension keeps the value
		case dw >= sw && ssigned && !dsigned:
			return nonnegSource(x.X, depth) // int → uintN of a non-negative quantity
		case dw == sw && ssigned == dsigned:
			return true
		}
		return false
	case *ssa.ChangeType:
		return arithExact(x.X, wordBits, depth+1)
	case *ssa.BinOp:
		switch x.Op {
		case token.EQL, token.NEQ, token.LSS, token.LEQ, token.GTR, token.GEQ:
			return arithExact(x.X, wordBits, depth+1) && arithExact(x.Y, wordBits, depth+1)
		case token.ADD:
			w, _, isInt := intTypeInfo(x.Type(), wordBits)
			if !isInt || w < 64 {
				return false // the sum of two narrow values can wrap (D4)
			}
			return smallOperand(x.X, wordBits, depth) && smallOperand(x.Y, wordBits, depth)
		case token.AND:
			return true
		case token.SHR:
			return arithExact(x.X, wordBits, depth+1)
		}
		return false
	}
	return false
}

// smallOperand: a 64-bit operand that is known to be far below 2^63: a value
// widened from at most 32 bits, a small constant, or a length.
func smallOperand(v ssa.Value, wordBits, depth int) bool {
	switch x := v.(type) {
	case *ssa.Const:
		c, ok := constInt(x)
		return ok && c >= 0 && c < 1<<32
	case *ssa.Convert:
		sw, _, sInt := intTypeInfo(x.X.Type(), wordBits)
		if sInt && sw <= 32 {
			return arithExact(x, wordBits, depth+1)
		}
		return nonnegSource(x.X, depth) && arithExact(x, wordBits, depth+1)
	case *ssa.Call:
		return nonnegSource(x, depth)
	}
	return false
}

// nonnegSource: len(x), cap(x), (*bytes.Reader).Len() and unsigned values.
func nonnegSource(v ssa.Value, depth int) bool {
	if depth > 12 {
		return false
	}
	if _, signed, isInt := intTypeInfo(v.Type(), 64); isInt && !signed {
		return true
	}
	switch x := v.(type) {
	case *ssa.Const:
		c, ok := constInt(x)
		return ok && c >= 0
	case *ssa.Call:
		if b, ok := x.Call.Value.(*ssa.Builtin); ok && (b.Name() == "len" || b.Name() == "cap") {
			return true
		}
		if f := staticCallee(x); methIs(f, "bytes", "Reader", "Len") || methIs(f, "bytes", "Buffer", "Len") {
			return true
		}
	case *ssa.Convert:
		return nonnegSource(x.X, depth+1)
	}
	return false
}

// boundArithOK audits the arithmetic of a bound expression: additions and
// subtractions may be formed in types of at least 32 bits (the proof obligation
// itself shows the exact value lies in [0, len]); anything narrower, and any
// narrowing conversion, is refused.
func boundArithOK(v ssa.Value, wordBits, depth int) bool {
	if v == nil {
		return true
	}
	if depth > 12 {
		return false
	}
	switch x := v.(type) {
	case *ssa.BinOp:
		w, _, isInt := intTypeInfo(x.Type(), wordBits)
		if !isInt {
			return false
		}
		switch x.Op {
		case token.ADD, token.SUB:
			return w >= 32 && boundArithOK(x.X, wordBits, depth+1) && boundArithOK(x.Y, wordBits, depth+1)
		case token.MUL:
			_, isC := constInt(x.Y)
			_, isC2 := constInt(x.X)
			return w >= 32 && (isC || isC2) && boundArithOK(x.X, wordBits, depth+1) && boundArithOK(x.Y, wordBits, depth+1)
		}
		return false
	case *ssa.Convert:
		dw, _, dInt := intTypeInfo(x.Type(), wordBits)
		sw, _, sInt := intTypeInfo(x.X.Type(), wordBits)
		if !dInt || !sInt || dw < sw {
			return false
		}
		return boundArithOK(x.X, wordBits, depth+1)
	case *ssa.ChangeType:
		return boundArithOK(x.X, wordBits, depth+1)
	}
	return true // leaves: values, loads, calls, constants
}

// factsOf turns path conditions into linear facts, keeping only conditions
// whose own arithmetic is exact.
func (e *Engine) factsOf(conds []*BoolVal) []geZero {
	var out []geZero
	one := formInt(1)
	for _, c := range conds {
		if c == nil || c.Const != nil {
			continue
		}
		a, okA := c.A.(*Form)
		b, okB := c.B.(*Form)
		if !okA || !okB || !intForm(a) || !intForm(b) {
			continue
		}
		if c.Exact != nil {
			if !*c.Exact {
				continue
			}
		} else if c.Src != nil && !arithExact(c.Src, e.WordBits, 0) {
			continue
		}
		switch c.Op {
		case "<=":
			out = append(out, geZero{b.Sub(a), c.Key()})
		case "<":
			out = append(out, geZero{b.Sub(a).Sub(one), c.Key()})
		case ">=":
			out = append(out, geZero{a.Sub(b), c.Key()})
		case ">":
			out = append(out, geZero{a.Sub(b).Sub(one), c.Key()})
		case "==":
			out = append(out, geZero{b.Sub(a), c.Key()}, geZero{a.Sub(b), c.Key()})
		case "!=":
			// X != 0 for a non-negative X: X >= 1
			x, z := a, b
			if _, isC := a.Const(); isC {
				x, z = b, a
			}
			if zc, isC := z.Const(); isC && zc.Sign() == 0 && e.formNonneg(x) {
				out = append(out, geZero{x.Sub(one), c.Key()})
			}
		}
	}
	return out
}

// formNonneg: all atoms non-negative with non-negative coefficients and constant.
func (e *Engine) formNonneg(f *Form) bool {
	if !intForm(f) {
		return false
	}
	for _, t := range f.N.t {
		if t.c.Sign() < 0 {
			return false
		}
		for _, v := range t.m.vars {
			if !e.atomNonneg(v.a) {
				return false
			}
		}
	}
	return true
}

// proveGE0 proves target >= 0 from at most two facts.
func (e *Engine) proveGE0(target *Form, facts []geZero) (bool, string) {
	if !intForm(target) {
		return false, ""
	}
	if e.formNonneg(target) {
		return true, "non-negative terms"
	}
	// non-negativity of atoms as extra facts
	all := append([]geZero(nil), facts...)
	seenAtom := map[string]bool{}
	addAtom := func(a string) {
		if seenAtom[a] {
			return
		}
		seenAtom[a] = true
		if e.atomNonneg(a) {
			all = append(all, geZero{formAtom(a), a + " >= 0"})
		}
		// an index search answers -1 or a position inside its first argument
		if at := e.A.get(a); at != nil && len(at.Args) >= 1 {
			switch at.Fn {
			case "call:bytes.IndexByte", "call:bytes.Index", "call:bytes.IndexRune", "call:bytes.IndexAny", "call:bytes.LastIndexByte", "call:bytes.LastIndex",
				"call:strings.IndexByte", "call:strings.Index", "call:strings.IndexRune", "call:strings.IndexAny", "call:strings.LastIndexByte", "call:strings.LastIndex":
				var n *Form
				switch h := at.Args[0].(type) {
				case *SliceVal:
					n = h.Len
				case *StrVal:
					n = formInt(int64(len(h.S)))
				}
				all = append(all, geZero{formAtom(a).Add(formInt(1)), trunc(a, 40) + " >= -1"})
				if n != nil && intForm(n) {
					all = append(all, geZero{n.Sub(formAtom(a)).Sub(formInt(1)), trunc(a, 40) + " < len"})
				}
			}
		}
		// upper bound of a byte / a bit vector of known width
		if at := e.A.get(a); at != nil {
			w := 0
			switch {
			case at.Kind == "byte":
				w = 8
			case at.Kind == "bv" && at.BV != nil:
				for i, b := range at.BV.Bits {
					if b.Kind != '0' {
						w = i + 1
					}
				}
			case at.Fn == "index":
				w = 8
			}
			if w > 0 && w < 63 {
				max := new(big.Int).Sub(new(big.Int).Lsh(big.NewInt(1), uint(w)), big.NewInt(1))
				all = append(all, geZero{formRat(new(big.Rat).SetInt(max)).Sub(formAtom(a)), fmt.Sprintf("%s < 2^%d", trunc(a, 40), w)})
			}
		}
	}
	for a := range target.Atoms() {
		addAtom(a)
	}
	for _, f := range facts {
		for a := range f.D.Atoms() {
			addAtom(a)
		}
	}
	// truncated division: c·idiv(X, c) <= X <= c·idiv(X, c) + c − 1 for X >= 0
	seenDiv := map[string]bool{}
	addDiv := func(f *Form) {
		for a := range f.Atoms() {
			at := e.A.get(a)
			if at == nil || at.Fn != "idiv" || len(at.Args) != 2 || seenDiv[a] {
				continue
			}
			x, _ := at.Args[0].(*Form)
			c, _ := at.Args[1].(*Form)
			if x == nil || c == nil || !e.formNonneg(x) {
				continue
			}
			cv, isC := c.ConstInt()
			if !isC || cv <= 0 {
				continue
			}
			seenDiv[a] = true
			q := formAtom(a).Mul(formInt(cv))
			all = append(all, geZero{x.Sub(q), fmt.Sprintf("%d·(X/%d) <= X", cv, cv)}, geZero{q.Add(formInt(cv - 1)).Sub(x), "X < c·(X/c) + c"})
		}
	}
	addDiv(target)
	for _, f := range facts {
		addDiv(f.D)
	}
	scales := []*big.Rat{big.NewRat(1, 1), big.NewRat(2, 1)}
	shares := func(f *Form, atoms map[string]bool) bool {
		for a := range f.Atoms() {
			if atoms[a] {
				return true
			}
		}
		return false
	}
	tAtoms := target.Atoms()
	for i, f1 := range all {
		// a fact can only help if it mentions something the target mentions
		if !shares(f1.D, tAtoms) {
			continue
		}
		for _, s1 := range scales {
			r1 := target.Sub(f1.D.Mul(formRat(s1)))
			if e.formNonneg(r1) {
				return true, f1.Why
			}
			rAtoms := r1.Atoms()
			for j, f2 := range all {
				if j == i || !shares(f2.D, rAtoms) {
					continue
				}
				r2 := r1.Sub(f2.D)
				if e.formNonneg(r2) {
					return true, f1.Why + " and " + f2.Why
				}
			}
		}
	}
	return false, ""
}

// boundsProof decides every bounds event of instruction in recorded on the
// outcomes; ok is false with the unproved obligation otherwise. n is the
// number of events examined.
func boundsProof(e *Engine, outs []Outcome, in ssa.Instruction) (n int, ok bool, how, why string) {
	ok = true
	one := formInt(1)
	seen := map[string]bool{}
	for _, o := range outs {
		if o.St == nil {
			continue
		}
		for _, ev := range o.St.events {
			if ev.Kind != "bounds" || ev.Instr != in {
				continue
			}
			sig := valKey(Tuple(ev.Args)) + "|" + fmt.Sprint(len(ev.Conds))
			for _, c := range ev.Conds {
				sig += c.Key()
			}
			if seen[sig] {
				continue
			}
			seen[sig] = true
			n++
			facts := e.factsOf(ev.Conds)
			var obl []struct {
				d    *Form
				text string
			}
			switch ev.Fn {
			case "index":
				idx, _ := ev.Args[0].(*Form)
				ln, _ := ev.Args[1].(*Form)
				if idx == nil || ln == nil {
					return n, false, "", "bounds not numeric"
				}
				obl = append(obl, struct {
					d    *Form
					text string
				}{idx, "index >= 0"}, struct {
					d    *Form
					text string
				}{ln.Sub(idx).Sub(one), "index < len"})
			case "slice":
				lo, _ := ev.Args[0].(*Form)
				hi, _ := ev.Args[1].(*Form)
				ln, _ := ev.Args[2].(*Form)
				if lo == nil || hi == nil || ln == nil {
					return n, false, "", "bounds not numeric"
				}
				obl = append(obl, struct {
					d    *Form
					text string
				}{lo, "low >= 0"}, struct {
					d    *Form
					text string
				}{hi.Sub(lo), "low <= high"}, struct {
					d    *Form
					text string
				}{ln.Sub(hi), "high <= len"})
			default:
				continue
			}
			for _, ob := range obl {
				good, by := e.proveGE0(ob.d, facts)
				if !good {
					return n, false, "", fmt.Sprintf("%s is not implied by the conditions on the path (needed: %s >= 0)", ob.text, trunc(ob.d.String(), 120))
				}
				if by != "" && how == "" {
					how = ob.text + " from " + trunc(by, 120)
				}
			}
		}
	}
	return n, ok, how, ""
}

// refutes reports whether the conditions conds make c impossible (linear
// integer arithmetic, at most two facts).
func (e *Engine) refutes(conds []*BoolVal, c *BoolVal) bool {
	if c == nil || c.Const != nil {
		return false
	}
	if c.Op == "==" {
		// an equality is refuted by a strict inequality either way
		a, okA := c.A.(*Form)
		b, okB := c.B.(*Form)
		if !okA || !okB || !intForm(a) || !intForm(b) {
			return false
		}
		return e.refutes(conds, &BoolVal{Op: "<=", A: a, B: b, Src: c.Src, Exact: c.Exact}) || e.refutes(conds, &BoolVal{Op: ">=", A: a, B: b, Src: c.Src, Exact: c.Exact})
	}
	nc := *c.Not()
	nc.Src, nc.Exact = nil, nil // c is judged as the engine reads it
	neg := e.factsOf([]*BoolVal{&nc})
	if len(neg) == 0 {
		return false
	}
	// only conditions that mention an atom of c can refute it (directly; chains
	// through a third quantity are not attempted)
	want := map[string]bool{}
	for _, n := range neg {
		for a := range n.D.Atoms() {
			want[a] = true
		}
	}
	var rel []*BoolVal
	for _, pc := range conds {
		fa, okA := pc.A.(*Form)
		fb, okB := pc.B.(*Form)
		if !okA || !okB {
			continue
		}
		hit := false
		for a := range fa.Atoms() {
			if want[a] {
				hit = true
			}
		}
		for a := range fb.Atoms() {
			if want[a] {
				hit = true
			}
		}
		if hit {
			rel = append(rel, pc)
		}
	}
	if len(rel) == 0 {
		return false
	}
	facts := e.factsOf(rel)
	// c is refuted when every way of c.Not() holding... c.Not() is a
	// conjunction of the facts in neg (1 for orderings, 2 for ==): c is
	// impossible iff all of them follow from the path
	if c.Op == "!=" {
		return false // c.Not() is an equality: both directions must follow
	}
	for _, n := range neg {
		if ok, _ := e.proveGE0(n.D, facts); !ok {
			return false
		}
	}
	return true
}

// exactArith is arithExact with the operand values of the current path: in a
// signed type of at least 32 bits, x ± y is exact when both operands are small
// (a constant, a value widened from a narrower type, a length on a 64-bit
// target) — the case of `len(data) - offset` with a constant offset passed in.
func (e *Engine) exactArith(st *State, fr *frame, v ssa.Value, depth int) bool {
	if depth > 12 {
		return false
	}
	switch x := v.(type) {
	case *ssa.Convert:
		dw, dsigned, dInt := intTypeInfo(x.Type(), e.WordBits)
		sw, ssigned, sInt := intTypeInfo(x.X.Type(), e.WordBits)
		if !dInt || !sInt || !e.exactArith(st, fr, x.X, depth+1) {
			return false
		}
		switch {
		case dw > sw && (!ssigned || dsigned):
			return true
		case dw >= sw && ssigned && !dsigned:
			return nonnegSource(x.X, depth) || e.knownNonneg(st, fr, x.X)
		case dw == sw && ssigned == dsigned:
			return true
		}
		return false
	case *ssa.ChangeType:
		return e.exactArith(st, fr, x.X, depth+1)
	case *ssa.UnOp:
		if x.Op == token.NOT {
			return e.exactArith(st, fr, x.X, depth+1)
		}
		return x.Op == token.MUL
	case *ssa.BinOp:
		switch x.Op {
		case token.EQL, token.NEQ, token.LSS, token.LEQ, token.GTR, token.GEQ:
			return e.exactArith(st, fr, x.X, depth+1) && e.exactArith(st, fr, x.Y, depth+1)
		case token.ADD, token.SUB:
			w, signed, isInt := intTypeInfo(x.Type(), e.WordBits)
			if !isInt {
				return false
			}
			if !e.exactArith(st, fr, x.X, depth+1) || !e.exactArith(st, fr, x.Y, depth+1) {
				return false
			}
			if x.Op == token.SUB && !signed {
				return false // an unsigned difference wraps below zero
			}
			return w >= 32 && e.smallValue(st, fr, x.X, w) && e.smallValue(st, fr, x.Y, w)
		case token.AND:
			return true
		case token.SHR:
			return e.exactArith(st, fr, x.X, depth+1)
		}
		return false
	}
	return true // leaves
}

// smallValue: |v| is far below 2^(w-1) on this path.
func (e *Engine) smallValue(st *State, fr *frame, v ssa.Value, w int) bool {
	limit := new(big.Rat).SetInt(new(big.Int).Lsh(big.NewInt(1), uint(w-2)))
	if f, ok := e.val(st, fr, v).(*Form); ok {
		if c, isC := f.Const(); isC {
			return ratAbs(c).Cmp(limit) < 0
		}
	}
	switch x := v.(type) {
	case *ssa.Convert:
		sw, _, sInt := intTypeInfo(x.X.Type(), e.WordBits)
		return sInt && sw < w-1
	case *ssa.Call:
		// len/cap/Len: below 2^(w-2) only on 64-bit targets (no slice is that long)
		return w >= 64 && nonnegSource(x, 0)
	}
	return false
}

// knownNonneg: the value is a non-negative constant on this path.
func (e *Engine) knownNonneg(st *State, fr *frame, v ssa.Value) bool {
	if f, ok := e.val(st, fr, v).(*Form); ok {
		if c, isC := f.Const(); isC {
			return c.Sign() >= 0
		}
		return e.formNonneg(f)
	}
	return false
}
