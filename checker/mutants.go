package main

import (
	"encoding/json"
	"fmt"
	"os"
	"os/exec"
	"path/filepath"
	"sort"
	"strings"
	"sync"
)

// runMutants is the thorough tier's mutation-witness pass. For the property
// under check it takes
//
//   - /verif/mutants/<ID>-*.patch   single-edit mutants written for the rules
//     (tools/mkmutants.py), including the reverse patches of repaired defects;
//   - /verif/seeded/<ID>-*/patch.diff  changes written by independent
//     sub-agents that saw only the property text,
//
// applies each one to a scratch copy of the repository under a mktemp
// directory outside /repo and /verif, runs this same checker (quick tier, no
// evidence) against the copy in a fresh process, and requires a violation.
// A patch that no longer applies to the current tree is reported as skipped.
// The copy is removed as soon as it has been judged.
func runMutants(pc *PropertyCheck, r *Report, repo, verif string) {
	type mutant struct{ name, patch string }
	var ms []mutant
	own, _ := filepath.Glob(filepath.Join(verif, "mutants", pc.ID+"-*.patch"))
	sort.Strings(own)
	for _, f := range own {
		ms = append(ms, mutant{"mutant " + strings.TrimSuffix(filepath.Base(f), ".patch"), f})
	}
	seeded, _ := filepath.Glob(filepath.Join(verif, "seeded", "*", "meta.json"))
	sort.Strings(seeded)
	for _, mf := range seeded {
		b, err := os.ReadFile(mf)
		if err != nil {
			continue
		}
		var meta struct {
			Property string          `json:"property"`
			CaughtBy map[string]bool `json:"caught_by"`
		}
		if json.Unmarshal(b, &meta) != nil {
			continue
		}
		if meta.CaughtBy[pc.ID] {
			dir := filepath.Dir(mf)
			ms = append(ms, mutant{"seeded " + filepath.Base(dir), filepath.Join(dir, "patch.diff")})
		}
	}
	if len(ms) == 0 {
		return
	}
	self, err := os.Executable()
	if err != nil {
		r.Violate("MUTANT", "setup", "-", "cannot locate the checker binary: "+err.Error())
		return
	}
	type result struct {
		status, detail string
	}
	results := make([]result, len(ms))
	sem := make(chan struct{}, 8)
	var wg sync.WaitGroup
	for i, m := range ms {
		wg.Add(1)
		go func(i int, m mutant) {
			defer wg.Done()
			sem <- struct{}{}
			defer func() { <-sem }()
			tmp, err := os.MkdirTemp("", "prismcheck-mutant-")
			if err != nil {
				results[i] = result{"error", err.Error()}
				return
			}
			defer os.RemoveAll(tmp)
			dst := filepath.Join(tmp, "repo")
			if out, err := exec.Command("rsync", "-a", "--exclude", ".git", repo+"/", dst+"/").CombinedOutput(); err != nil {
				results[i] = result{"error", "copy failed: " + string(out)}
				return
			}
			ap := exec.Command("git", "apply", "--unsafe-paths", "--directory="+dst, m.patch)
			ap.Dir = tmp
			if out, err := ap.CombinedOutput(); err != nil {
				// try patch(1)-style application from inside the copy
				ap2 := exec.Command("git", "apply", m.patch)
				ap2.Dir = dst
				if out2, err2 := ap2.CombinedOutput(); err2 != nil {
					results[i] = result{"skipped", "patch no longer applies to the current tree: " + trunc(strings.TrimSpace(string(out)+" "+string(out2)), 160)}
					return
				}
			}
			cmd := exec.Command(self, "-property", pc.ID, "-tier", "quick", "-repo", dst, "-verif", verif, "-noevidence")
			cmd.Env = append(os.Environ(), "GOCACHE="+filepath.Join(tmp, "gocache"))
			out, _ := cmd.CombinedOutput()
			code := cmd.ProcessState.ExitCode()
			first := ""
			for _, l := range strings.Split(string(out), "\n") {
				l = strings.TrimSpace(l)
				if strings.HasPrefix(l, "VIOLATED") || strings.HasPrefix(l, "UNDECIDED") {
					first = l
					break
				}
			}
			if code == 1 && first != "" {
				results[i] = result{"detected", trunc(first, 260)}
			} else {
				results[i] = result{"missed", fmt.Sprintf("exit %d: %s", code, trunc(strings.TrimSpace(string(out)), 200))}
			}
		}(i, m)
	}
	wg.Wait()
	var table []map[string]string
	for i, m := range ms {
		res := results[i]
		table = append(table, map[string]string{"mutant": m.name, "status": res.status, "report": res.detail})
		switch res.status {
		case "detected":
			r.Hold("MUTANT", m.name, "-", "detected: "+res.detail)
		case "skipped":
			r.Note("MUTANT", m.name, "-", res.detail)
		default:
			r.Violate("MUTANT", m.name, "-", "the change breaks the property but the check did not report it ("+res.detail+"): the checker has lost sensitivity")
		}
	}
	r.Extra["mutation_witnesses"] = table
}
