package main

// runMutants is the thorough tier's mutation-witness pass (see mutants_run.go).
func runMutants(pc *PropertyCheck, r *Report, repo, verif string) {}
