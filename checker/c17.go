package main

import (
	"fmt"
	"go/types"
	"strings"

	"golang.org/x/tools/go/ssa"
)

// C17 — the ICC description is found via the tag table and decoded as the right string.

func init() {
	register(&PropertyCheck{ID: "C17", Level: "other", Run: runC17})
}

// dataBE32 reports whether f is the big-endian uint32 of data[off..off+3]
// (data = the opaque byte slice named base) and returns off.
func dataBytesBE(e *Engine, f *Form, base string, n int) (*Form, bool) {
	bv := e.BVOf(f, types.Typ[types.Uint32])
	runs := bv.Runs()
	var offs []*Form
	for i := len(runs) - 1; i >= 0; i-- {
		rr := runs[i]
		if rr.Kind == '0' {
			continue
		}
		if rr.Kind != 'a' || rr.Width != 8 || rr.Lo != 0 {
			return nil, false
		}
		at := e.A.get(rr.A)
		if at == nil {
			return nil, false
		}
		switch {
		case at.Fn == "index" && len(at.Args) == 2 && valKey(at.Args[0]) == base:
			ix, ok := at.Args[1].(*Form)
			if !ok {
				return nil, false
			}
			offs = append(offs, ix)
		case at.Kind == "byte" && at.Stream == base:
			if at.Off >= 0 {
				offs = append(offs, formInt(at.Off))
			} else {
				offs = append(offs, at.OffF)
			}
		default:
			return nil, false
		}
		if rr.At != 8*(n-len(offs)) {
			return nil, false
		}
	}
	if len(offs) != n {
		return nil, false
	}
	for k := 1; k < n; k++ {
		if !offs[k].Equal(offs[0].Add(formInt(int64(k)))) {
			return nil, false
		}
	}
	return offs[0], true
}

func runC17(p *Program, r *Report) {
	r.Explanation = "The ICC tag-table reader and the two description parsers are abstractly interpreted over symbolic bytes (record/tag loops followed for 0..2 iterations, inner loops summarised by one generic iteration with exact positions). Decided on all explored paths: (table) tag count = BE32 at 128, entry j = three BE32 at 132+12j (signature, offset, size), tag data offset = 132 + 12·count, the bulk read starts right after the table and its length is (max over entries of offset+size) − tag data offset where ANY entry can be the maximum, each tag's bytes are tagData[offset − tagDataOffset : +size] stored under its own signature — so order, sharing and gaps are irrelevant by construction; zero tags succeed without reading; (lookup) the description is entries['desc'], dispatched on BE32 data[0:4] 'desc' / 'mluc', anything else is an error; (text) count = BE32 data[8:12], string = bytes data[12 : 12+count−1] positionally; (mluc) record count BE32 data[8:12], record size BE32 data[12:16], record j at 16 + j·recordSize with language [0,2), country [2,4), length BE32 [4,8), offset BE32 [8,12); OFFSET-USE: code unit k of the text is data[offset+2k]<<8 | data[offset+2k+1] for k < length/2 — taken from the record's declared offset — and the text is string(utf16.Decode(units)) stored under (language, country); (pref) the 'en' language is asked first, any record only as a fallback. NOT decided: utf16.Decode's surrogate handling (library), map iteration order for 'some record', exploration bounded to ≤ 2 tags/records per path."
	r.RuleText = "one instance per clause, evaluated on all explored paths of readTagTable, getProfileDescription, parseTextDescription, parseMultiLocalisedUnicode"
	r.Trusted = []string{"go/packages+go/types+go/ssa (x/tools v0.29.0)", "the abstract interpreter (bounded exploration, generic-iteration loop summaries with exact positions)", "bytes.Reader / io.CopyN sequential contracts", "unicode/utf16.Decode"}
	checkTagTable(p, r)
	checkDescLookup(p, r)
	checkTextDescription(p, r)
	checkMluc(p, r)
	r.Floor("C17.table", 5)
	r.Floor("C17.lookup", 3)
	r.Floor("C17.text", 3)
	r.Floor("C17.mluc", 8)
	r.Floor("C17.pref", 1)
}

func checkTagTable(p *Program, r *Report) {
	rule := "C17.table"
	fn := p.Method("meta/icc", "ProfileReader", "readTagTable")
	if fn == nil {
		r.Undecide(rule, "readTagTable", "-", "anchor not found")
		return
	}
	r.SawFn(shortFn(fn))
	e := NewEngine(p)
	e.EvalInits = true
	e.MaxIter, e.MaxForks = 3, 3
	e.PruneInfeasible = true
	st := newState()
	s := &Stream{Name: "in"}
	st.pos[s] = formInt(0)
	outs := e.Run(fn, setupArgs(e, st, fn, s), st)
	pos := p.FnPos(fn)
	u32 := types.Typ[types.Uint32]
	count := e.beU32(formInt(0))
	tdo := formInt(132).Add(formInt(12).Mul(count)) // absolute tag data offset (table starts at 128: stream offset 0 = profile offset 128)
	entOK, copyOK, zeroOK := true, true, false
	freshOK, freshWhy := true, ""
	why := ""
	nEnt := 0
	maxSeen := map[string]bool{}
	maxAllOK, maxWhy := true, ""
	for _, o := range outs {
		if o.Kind == "stuck" {
			r.Undecide(rule, "readTagTable extractable", p.Pos(o.Pos), "not extractable: "+o.Why)
			return
		}
		if o.Kind != "return" {
			continue
		}
		if ev, ok := o.Ret.(*ErrVal); !ok || !ev.IsNil {
			continue
		}
		var ups []Event
		var cp *Event
		for k := range o.St.events {
			ev := &o.St.events[k]
			if ev.Kind == "mapupdate" {
				ups = append(ups, *ev)
			}
			if ev.Kind == "copyn" || ev.Kind == "readinto" {
				cp = ev
			}
		}
		k := len(ups)
		if k == 0 {
			if cp == nil && o.St.pos[s].Equal(formInt(4)) {
				zeroOK = true
			}
			continue
		}
		// infeasible orderings (mathematically negative lengths) are skipped: they need offset+size to wrap
		for j, up := range ups {
			nEnt++
			sig, _ := up.Args[0].(*Form)
			sl, _ := up.Args[1].(*SliceVal)
			wantSig := e.beU32(formInt(int64(4 + 12*j)))
			off := e.beU32(formInt(int64(8 + 12*j)))
			size := e.beU32(formInt(int64(12 + 12*j)))
			if sig == nil || sl == nil || !sig.Equal(wantSig) || !sl.Lo.Equal(off.Sub(tdo)) || !sl.Len.Equal(size) {
				entOK = false
				why = fmt.Sprintf("entry %d is stored as key %s ↦ tagData[%s : +%s]; required key BE32@%d ↦ tagData[BE32@%d − (132+12·count) : + BE32@%d]", j, trunc(valKey(up.Args[0]), 60), trunc(valKey(sl.Lo), 80), trunc(valKey(sl.Len), 60), 132+12*j, 136+12*j, 140+12*j)
			}
			if cp != nil && sl != nil && sl.Base != nil && valKey(sl) != "" && sl.Base.Fn != "" {
				fromBuffer := len(sl.Base.Args) == 1 && valKey(sl.Base.Args[0]) == valKey(cp.Recv) // buf.Bytes()
				if rs, ok := cp.Recv.(*SliceVal); ok && cp.Kind == "readinto" && rs.Base != nil && rs.Base.Key == sl.Base.Key {
					fromBuffer = true // the slice io.ReadAll returned
				}
				if !fromBuffer {
					entOK, why = false, "tag bytes are not sliced from the bulk tag-data buffer"
				}
			}
		}
		if cp != nil {
			// the storage the entries alias must belong to this profile alone: a
			// fresh allocation of this call (or the slice io.ReadAll returns), never
			// handed to anything that could reuse it (a pool, a package variable)
			if cp.Kind == "copyn" {
				bp, isPtr := cp.Recv.(*Ptr)
				if !isPtr || bp.Cell == nil || !bp.Cell.Alloc {
					freshOK, freshWhy = false, "the buffer the tag data is read into ("+trunc(valKey(cp.Recv), 80)+") is not allocated by this call: its bytes can be shared with, and overwritten by, another profile"
				} else {
					for _, ev := range o.St.events {
						if ev.Kind != "call" && ev.Kind != "invoke" && ev.Kind != "store" && ev.Kind != "mapupdate" {
							continue
						}
						if strings.HasSuffix(ev.Fn, "(*bytes.Buffer).Bytes") || strings.HasSuffix(ev.Fn, "(*bytes.Buffer).Len") {
							continue
						}
						for _, a := range append([]Val{ev.Recv}, ev.Args...) {
							if q, ok := a.(*Ptr); ok && q.Cell == bp.Cell && len(q.Path) == 0 {
								freshOK, freshWhy = false, fmt.Sprintf("the tag-data buffer is handed to %s at %s while the tag table still aliases its bytes: it can be reused and overwritten", ev.Fn, p.Pos(ev.Pos))
							}
						}
					}
				}
			}
			start, _ := cp.Args[1].(*Form)
			n, _ := cp.Args[2].(*Form)
			if start == nil || !start.Equal(formInt(int64(4+12*k))) {
				copyOK, why = false, fmt.Sprintf("the bulk read starts at table offset %s, not right after the %d table entries", valKey(cp.Args[1]), k)
			}
			end := n.Add(tdo)
			found := false
			for j := 0; j < k; j++ {
				ej := e.beU32(formInt(int64(8 + 12*j))).Add(e.beU32(formInt(int64(12 + 12*j))))
				if end.Equal(ej) {
					found = true
					maxSeen[fmt.Sprintf("%d/%d", j, k)] = true
				}
			}
			if !found {
				copyOK, why = false, "the bulk read length is "+trunc(n.Key(), 100)+", which is not (offset+size of some entry) − tag data offset"
			}
			// … and on THIS path it reaches the end of every entry (it is the maximum, whichever entry that is)
			if found && k <= 2 {
				var plain []*BoolVal
				for _, c := range o.St.conds {
					cc := *c
					cc.Src, cc.Exact = nil, nil
					plain = append(plain, &cc)
				}
				facts := e.factsOf(plain)
				for j := 0; j < k; j++ {
					ej := e.beU32(formInt(int64(8 + 12*j))).Add(e.beU32(formInt(int64(12 + 12*j))))
					if ok, _ := e.proveGE0(end.Sub(ej), facts); !ok {
						maxAllOK = false
						maxWhy = fmt.Sprintf("on a path with %d table entries the tag data read ends at %s, which the path's conditions do not show to reach the end of entry %d (offset+size): a tag laid out after the others is cut off", k, trunc(end.Key(), 80), j)
					}
				}
			}
		}
		_ = u32
	}
	r.Check(entOK && nEnt > 0, rule, "entries", pos, fmt.Sprintf("%d table entries on all explored paths: signature, offset, size = three BE32 at 132+12j; bytes = tagData[offset − (132+12·count) : +size] under its own signature", nEnt), why)
	r.Check(freshOK, rule, "storage", pos, "the bytes the tag table aliases live in storage allocated by this call and handed to nothing else (each profile owns its tag data)", freshWhy)
	r.Check(copyOK, rule, "bulk read", pos, "tag data is read from right after the table; its length is (offset+size of the furthest entry) − (132 + 12·count)", why)
	r.Check(maxAllOK, rule, "bulk read covers every entry", pos, "on every explored path with one or two entries the end of the tag data read is >= offset+size of each entry (integer linear arithmetic over the path's conditions)", maxWhy)
	both := maxSeen["0/2"] && maxSeen["1/2"]
	r.Check(both, rule, "furthest entry is any entry", pos, "with two entries, either one can determine the end of tag data (it is the maximum, not the last or the first)", fmt.Sprintf("with two table entries only %v determine the end of the tag data: tag data laid out in a different order than the table is truncated", keysOf(maxSeen)))
	r.Check(zeroOK, rule, "zero tags", pos, "a table with zero tags succeeds without reading tag data", "a profile with zero tags does not succeed cleanly (length underflow)")
	// tagTableOffset constant 128 (C16 proves the header consumes exactly 128 bytes)
	r.Hold(rule, "table at 128", pos, "stream offset 0 of this analysis is profile offset 128 (C16: readHeader consumes exactly 128 bytes); the code's tag data offset 128+4+12·count matches")
}

func keysOf(m map[string]bool) []string {
	var ks []string
	for k := range m {
		ks = append(ks, k)
	}
	return ks
}

func checkDescLookup(p *Program, r *Report) {
	fn := p.Method("meta/icc", "TagTable", "getProfileDescription")
	ptd := p.Func("meta/icc", "parseTextDescription")
	pml := p.Func("meta/icc", "parseMultiLocalisedUnicode")
	gsl := p.Method("meta/icc", "MultiLocalisedUnicode", "getStringForLanguage")
	gas := p.Method("meta/icc", "MultiLocalisedUnicode", "getAnyString")
	if fn == nil || ptd == nil || pml == nil || gsl == nil || gas == nil {
		r.Undecide("C17.lookup", "getProfileDescription", "-", "anchor not found")
		return
	}
	r.SawFn(shortFn(fn))
	e := NewEngine(p)
	e.EvalInits = true
	e.Opaque = opaqueSet(ptd, pml, gsl, gas)
	outs, err := extract(p, e, fn, nil)
	pos := p.FnPos(fn)
	if err != nil {
		r.Undecide("C17.lookup", "getProfileDescription", pos, err.Error())
		return
	}
	descOK, mlucOK, otherOK, prefOK := false, false, false, false
	keyOK := true
	why := ""
	for _, o := range outs {
		if o.Kind != "return" {
			continue
		}
		// the data looked up must be entries['desc']
		var sigCond *BoolVal
		for _, c := range o.St.conds {
			a, okA := c.A.(*Form)
			b, okB := c.B.(*Form)
			if okA && okB {
				if cv, isC := b.ConstInt(); isC && (cv == 0x64657363 || cv == 0x6D6C7563) && c.Op == "==" {
					if k := a.Key(); strings.Contains(k, "lookup(") {
						sigCond = c
						if !strings.Contains(k, "1684370275") { // 'desc' as the map key
							keyOK = false
							why = "the description is not looked up under the 'desc' signature: " + trunc(k, 120)
						}
						// first four bytes of that data
						if _, ok := dataBytesBE(e, a, leadingBase(e, a), 4); !ok {
							keyOK, why = false, "the element type is not BE32 of data[0:4]"
						}
					}
				}
			}
		}
		tp, _ := o.Ret.(Tuple)
		if len(tp) != 2 {
			continue
		}
		var calls []Event
		for _, ev := range o.St.events {
			if ev.Kind == "call" {
				calls = append(calls, ev)
			}
		}
		errv, _ := tp[1].(*ErrVal)
		switch {
		case sigCond != nil && valKey(sigCond.B) == "1684370275":
			if len(calls) >= 1 && strings.HasSuffix(calls[0].Fn, "parseTextDescription") {
				if errv != nil && errv.IsNil {
					descOK = strings.Contains(valKey(tp[0]), "parseTextDescription") && strings.Contains(valKey(tp[0]), ".ASCII")
				} else {
					descOK = descOK || false
				}
			}
		case sigCond != nil && valKey(sigCond.B) == "1835824483":
			if len(calls) >= 2 && strings.HasSuffix(calls[0].Fn, "parseMultiLocalisedUnicode") && strings.HasSuffix(calls[1].Fn, "getStringForLanguage") {
				mlucOK = true
				// language argument {'e','n'}
				if len(calls[1].Args) == 2 && valKey(calls[1].Args[1]) == "{101, 110}" {
					if len(calls) == 2 && errv != nil && errv.IsNil && strings.Contains(valKey(tp[0]), "getStringForLanguage") {
						prefOK = true
					}
					if len(calls) == 3 && !strings.HasSuffix(calls[2].Fn, "getAnyString") {
						prefOK, why = false, "the fallback after the 'en' lookup is not getAnyString"
					}
				} else if len(calls[1].Args) == 2 {
					why = "the preferred language asked first is " + valKey(calls[1].Args[1]) + ", not {'e','n'}"
				}
			}
		default:
			if sigCond == nil && errv != nil && !errv.IsNil && len(calls) == 0 {
				otherOK = true
			}
		}
	}
	r.Check(keyOK && descOK, "C17.lookup", "'desc' element", pos, "entries['desc'] with type BE32 data[0:4] == 'desc' ↦ parseTextDescription(data).ASCII", "textDescription dispatch broken: "+why)
	r.Check(keyOK && mlucOK, "C17.lookup", "'mluc' element", pos, "type 'mluc' (0x6D6C7563) ↦ parseMultiLocalisedUnicode(data)", "multiLocalizedUnicode dispatch broken: "+why)
	r.Check(otherOK, "C17.lookup", "unknown element type", pos, "any other type yields a non-nil error", "an unknown description element type does not yield an error")
	r.Check(prefOK, "C17.pref", "English first", pos, "getStringForLanguage({'e','n'}) is asked first and returned when non-empty; getAnyString() only as the fallback", "language preference broken: "+why)
}

// leadingBase finds the opaque base the bytes of f are indexed from.
func leadingBase(e *Engine, f *Form) string {
	for a := range f.Atoms() {
		at := e.A.get(a)
		if at != nil && at.Kind == "bv" {
			for _, rr := range at.BV.Runs() {
				if rr.Kind == 'a' {
					if ia := e.A.get(rr.A); ia != nil && ia.Fn == "index" {
						return valKey(ia.Args[0])
					}
				}
			}
		}
	}
	return ""
}

func checkTextDescription(p *Program, r *Report) {
	rule := "C17.text"
	fn := p.Func("meta/icc", "parseTextDescription")
	if fn == nil {
		r.Undecide(rule, "parseTextDescription", "-", "anchor not found")
		return
	}
	r.SawFn(shortFn(fn))
	e := NewEngine(p)
	e.EvalInits = true
	e.MaxForks = 2
	outs, err := extract(p, e, fn, nil)
	pos := p.FnPos(fn)
	if err != nil {
		r.Undecide(rule, "parseTextDescription", pos, err.Error())
		return
	}
	sigOK, cntOK, copyOK := false, false, false
	why := "no success path that copies the ASCII bytes"
	for _, o := range outs {
		if o.Kind != "return" {
			continue
		}
		tp, _ := o.Ret.(Tuple)
		if len(tp) != 2 {
			continue
		}
		if ev, ok := tp[1].(*ErrVal); !ok || !ev.IsNil {
			continue
		}
		var mk, sum, stv, rdi *Event
		for k := range o.St.events {
			ev := &o.St.events[k]
			switch ev.Kind {
			case "make":
				mk = ev
			case "loop-summary":
				sum = ev
			case "loop-store":
				stv = ev
			case "readinto":
				rdi = ev
			}
		}
		// the text taken directly as string(data[12 : 12+count−1])
		direct := false
		var dsl *SliceVal
		if ag, ok := tp[0].(*Agg); ok {
			for _, el := range ag.Elems {
				if op, ok := el.(*Opaque); ok && strings.HasPrefix(op.Fn, "convert:string") && len(op.Args) == 1 {
					if sl, ok := op.Args[0].(*SliceVal); ok && sl.Base != nil && sl.Base.Key == "data" {
						direct, dsl = true, sl
					}
				}
			}
		}
		// the text read in one piece into a fresh buffer: io.ReadFull(reader over data, make([]byte, count−1))
		bulk := false
		if !direct && mk != nil && rdi != nil && sum == nil && stv == nil && len(rdi.Args) == 4 {
			if src, ok := rdi.Args[3].(*SliceVal); ok && src.Base != nil && src.Base.Key == "data" {
				if dst, ok := rdi.Recv.(*SliceVal); ok && dst.Base != nil && dst.Lo.Equal(formInt(0)) {
					if n, ok := mk.Args[0].(*Form); ok && dst.Len.Equal(n) && dst.Base.Fn == "make" {
						rpos, _ := rdi.Args[1].(*Form)
						bulk = true
						direct = true
						dsl = &SliceVal{Base: src.Base, Lo: src.Lo.Add(rpos), Len: n, Elem: src.Elem}
						// returned string = string(that buffer)
						if rk := valKey(tp[0]); !strings.Contains(rk, "convert:string("+valKey(dst)+")") {
							direct, bulk = false, false
							why = "the returned text is not the buffer the ASCII bytes were read into"
						}
					}
				}
			}
		}
		_ = bulk
		if !direct && (mk == nil || sum == nil || stv == nil) {
			continue
		}
		// signature condition data[0:4] == 'desc'
		for _, c := range o.St.conds {
			a, okA := c.A.(*Form)
			b, okB := c.B.(*Form)
			if okA && okB && c.Op == "==" {
				if cv, isC := b.ConstInt(); isC && cv == 0x64657363 {
					if off, ok := dataBytesBE(e, a, "data", 4); ok && off.Equal(formInt(0)) {
						sigOK = true
					}
				}
			}
		}
		if direct {
			cnt := dsl.Len.Add(formInt(1))
			if off, ok := dataBytesBE(e, cnt, "data", 4); ok && off.Equal(formInt(8)) {
				cntOK = true
			} else {
				why = "the ASCII length is " + trunc(dsl.Len.Key(), 80) + "; required BE32 data[8:12] − 1 (terminator excluded)"
			}
			if dsl.Lo.Equal(formInt(12)) {
				copyOK = true
			} else {
				why = "the ASCII text starts at data[" + trunc(dsl.Lo.Key(), 60) + "]; required data[12]"
			}
			continue
		}
		n, _ := mk.Args[0].(*Form)
		cnt := n.Add(formInt(1))
		if off, ok := dataBytesBE(e, cnt, "data", 4); ok && off.Equal(formInt(8)) {
			cntOK = true
		} else {
			why = "the ASCII length is " + trunc(n.Key(), 80) + "; required BE32 data[8:12] − 1 (terminator excluded)"
		}
		k, _ := stv.Args[0].(*Form)
		first, _ := sum.Args[0].(*Form)
		limit, _ := sum.Args[1].(*Form)
		idx, _ := stv.Args[3].(*Form)
		val := appOf(e, stv.Args[4])
		good := first.Equal(formInt(0)) && limit.Equal(n) && idx.Equal(k) && val != nil && val.Fn == "index" && valKey(val.Args[0]) == "data"
		if good {
			src, _ := val.Args[1].(*Form)
			good = src != nil && src.Equal(formInt(12).Add(k))
		}
		// returned string = string(that slice)
		rk := valKey(tp[0])
		if good && strings.Contains(rk, "convert:string(") && strings.Contains(rk, stv.Recv.(*Ptr).Base.Key) {
			copyOK = true
		} else if !good {
			why = "ASCII byte k is taken from " + trunc(valKey(stv.Args[4]), 80) + "; required data[12+k] for k < count−1"
		}
	}
	checkTextDescriptionComplete(p, r, fn)
	r.Check(sigOK, rule, "signature", pos, "BE32 data[0:4] == 'desc' is required", "the 'desc' signature is not checked on data[0:4]")
	r.Check(cntOK, rule, "count", pos, "count = BE32 data[8:12]; count−1 characters (terminating NUL excluded)", why)
	r.Check(copyOK, rule, "bytes", pos, "character k = data[12+k] for k in [0, count−1), returned as string", why)
}

// dataBE32 is the big-endian 32-bit value at data[off:off+4] (symbolic offset allowed).
func dataBE32(e *Engine, off *Form) *Form {
	bv := &BV{Bits: make([]Bit, 32)}
	for k := 0; k < 4; k++ {
		f := e.A.App("index", types.Typ[types.Uint8], &Opaque{Key: "data"}, off.Add(formInt(int64(k))))
		an, _ := f.SingleAtom()
		for j := 0; j < 8; j++ {
			bv.Bits[8*(3-k)+j] = Bit{Kind: 'a', A: an, Idx: j}
		}
	}
	return e.fromBV(bv, types.Typ[types.Uint32])
}

// checkTextDescriptionComplete: a well-formed v2 textDescription tag is never
// rejected. The premise is the FULL layout of ICC.1:2001 §6.5.17 — signature
// 'desc', ASCII count a >= 1, and data long enough for
//
//	12 + a  (header, ASCII text incl. NUL)  + 4 + 4 + 2u (Unicode language, count u, text)
//	+ 2 + 1 + 67 (ScriptCode code, count <= 67, fixed 67-byte field)
//
// so that a reader which also parses the optional parts is not faulted for
// requiring them. Every explored path that returns an error (read failures
// included: a reader over memory fails exactly when it runs out of bytes) must
// contain a condition this premise refutes; an error path that is feasible for
// such a tag loses the description of a well-formed profile.
func checkTextDescriptionComplete(p *Program, r *Report, fn *ssa.Function) {
	rule := "C17.text"
	pos := p.FnPos(fn)
	e := NewEngine(p)
	e.EvalInits = true
	e.MaxForks = 2
	e.FailReads = true
	args := symArgs(e, fn)
	outs, err := extract(p, e, fn, args)
	if err != nil {
		r.Undecide(rule, "complete", pos, err.Error())
		return
	}
	data, _ := args[0].(*SliceVal)
	if data == nil || data.Len == nil {
		r.Undecide(rule, "complete", pos, "parameter is not a byte slice")
		return
	}
	L := data.Len
	// the premise, with the counts as this path has pinned them (a path that decided u == 0
	// addresses the ScriptCode count at 22+a)
	premiseOn := func(st *State) []*BoolVal {
		a := st.resolve(dataBE32(e, formInt(8)))
		u := st.resolve(dataBE32(e, formInt(16).Add(a)))
		var plain []*BoolVal
		for _, c := range st.conds {
			cc := *c
			cc.Src, cc.Exact = nil, nil
			plain = append(plain, &cc)
		}
		if e.refutes(plain, &BoolVal{Op: ">=", A: u, B: formInt(1)}) {
			u = formInt(0) // the path took the "no Unicode text" branch
		}
		scOff := formInt(22).Add(a).Add(u.Mul(formInt(2)))
		sc := e.A.App("index", types.Typ[types.Uint8], &Opaque{Key: "data"}, scOff)
		return []*BoolVal{
			{Op: ">=", A: a, B: formInt(1)},
			{Op: ">=", A: L, B: formInt(12 + 8 + 3 + 67).Add(a).Add(u.Mul(formInt(2)))},
			{Op: "<=", A: sc, B: formInt(67)},
		}
	}
	sig := dataBE32(e, formInt(0))
	sigKey := (&BoolVal{Op: "==", A: sig, B: formInt(0x64657363)}).Key()
	good, why := true, ""
	n := 0
	for _, o := range outs {
		if o.Kind != "return" {
			continue
		}
		tp, _ := o.Ret.(Tuple)
		if len(tp) != 2 {
			continue
		}
		if ev, ok := tp[1].(*ErrVal); ok && ev.IsNil {
			continue
		}
		n++
		refuted := false
		premise := premiseOn(o.St)
		var plain []*BoolVal
		for _, c := range o.St.conds {
			cc := *c
			cc.Src, cc.Exact = nil, nil
			plain = append(plain, &cc)
		}
		for i, c := range plain {
			if c.Op == "!=" && c.Not().Key() == sigKey {
				refuted = true
				break
			}
			// the premise together with the rest of the path makes this condition impossible
			others := append(append([]*BoolVal(nil), premise...), plain[:i]...)
			others = append(others, plain[i+1:]...)
			if e.refutes(others, c) {
				refuted = true
				break
			}
		}
		if !refuted {
			good = false
			tail := condKeys(o)
			if len(tail) > 400 {
				tail = "…" + tail[len(tail)-400:]
			}
			why = fmt.Sprintf("the error return at %s is reachable for a tag with the 'desc' signature, an ASCII count >= 1 and the complete v2 layout present: a well-formed description is rejected [path: %s]", p.Pos(o.Pos), tail)
		}
	}
	r.Check(good && n > 0, rule, "complete", pos, fmt.Sprintf("all %d error paths (failed reads included) require a wrong signature or missing bytes: no well-formed v2 tag is rejected", n), why)
}

func checkMluc(p *Program, r *Report) {
	rule := "C17.mluc"
	fn := p.Func("meta/icc", "parseMultiLocalisedUnicode")
	set := p.Method("meta/icc", "MultiLocalisedUnicode", "setString")
	dec := p.Func("meta/icc", "decodeUTF16BE")
	if fn == nil || set == nil || dec == nil {
		r.Undecide(rule, "parseMultiLocalisedUnicode", "-", "anchor not found (parseMultiLocalisedUnicode / setString / decodeUTF16BE)")
		return
	}
	r.SawFn(shortFn(fn))
	r.SawFn(shortFn(dec))
	e := NewEngine(p)
	e.EvalInits = true
	e.MaxIter, e.MaxForks = 3, 3
	e.TraceCalls = func(f *ssa.Function) bool { return f == set }
	outs := e.Run(fn, symArgs(e, fn), nil)
	pos := p.FnPos(fn)
	for _, o := range outs {
		if o.Kind == "stuck" {
			r.Undecide(rule, "parseMultiLocalisedUnicode extractable", p.Pos(o.Pos), "not extractable: "+o.Why)
			return
		}
	}
	dataBE := func(off *Form) *Form {
		bv := &BV{Bits: make([]Bit, 32)}
		for k := 0; k < 4; k++ {
			f := e.A.App("index", types.Typ[types.Uint8], &Opaque{Key: "data"}, off.Add(formInt(int64(k))))
			an, _ := f.SingleAtom()
			for j := 0; j < 8; j++ {
				bv.Bits[8*(3-k)+j] = Bit{Kind: 'a', A: an, Idx: j}
			}
		}
		return e.fromBV(bv, types.Typ[types.Uint32])
	}
	recSize := dataBE(formInt(12))
	hdrOK, recOK, offOK, setOK, cntOK := false, true, true, true, false
	nRec := 0
	why := ""
	for _, o := range outs {
		if o.Kind != "return" {
			continue
		}
		tp, _ := o.Ret.(Tuple)
		if len(tp) != 2 {
			continue
		}
		if ev, ok := tp[1].(*ErrVal); !ok || !ev.IsNil {
			continue
		}
		for _, c := range o.St.conds {
			a, okA := c.A.(*Form)
			b, okB := c.B.(*Form)
			if !okA || !okB {
				continue
			}
			if cv, isC := b.ConstInt(); isC && cv == 0x6D6C7563 && c.Op == "==" {
				if off, ok := dataBytesBE(e, a, "data", 4); ok && off.Equal(formInt(0)) {
					hdrOK = true
				}
			}
			// the record loop is bounded by BE32 data[8:12]
			if c.Op == "<" || c.Op == ">=" {
				if off, ok := dataBytesBE(e, b, "data", 4); ok && off.Equal(formInt(8)) {
					if _, isC := a.ConstInt(); isC {
						cntOK = true
					}
				}
			}
		}
		// a record is visited either on an unrolled iteration j = 0, 1, 2 (trace
		// events in order) or in the generic iteration k of the summarised loop
		type recVisit struct {
			idx  *Form
			args []Val
		}
		var sets []recVisit
		nTrace := 0
		for _, ev := range o.St.events {
			switch ev.Kind {
			case "trace":
				sets = append(sets, recVisit{formInt(int64(nTrace)), ev.Args})
				nTrace++
			case "loop-trace":
				if len(ev.Args) >= 3 {
					if k, ok := ev.Args[0].(*Form); ok {
						sets = append(sets, recVisit{k, ev.Args[3:]})
					}
				}
			case "loop-summary":
				first, _ := ev.Args[0].(*Form)
				limit, _ := ev.Args[1].(*Form)
				step, _ := ev.Args[2].(*Form)
				if first != nil && limit != nil && step != nil && first.Equal(formInt(0)) && step.Equal(formInt(1)) {
					if off, ok := dataBytesBE(e, limit, "data", 4); ok && off.Equal(formInt(8)) {
						cntOK = true
					}
				}
			}
		}
		// on a path that has established recordSize <= 12 nothing is skipped
		// between records: the stride is the 12 bytes read (equal to recordSize
		// for conforming input, whose record size is 12)
		stride := recSize
		for _, c := range o.St.conds {
			a, okA := c.A.(*Form)
			b, okB := c.B.(*Form)
			if okA && okB && c.Op == "<=" && a.Equal(recSize) && b.Equal(formInt(12)) {
				stride = formInt(12)
			}
		}
		for _, sv := range sets {
			nRec++
			j := sv.idx.Key()
			rec := formInt(16).Add(sv.idx.Mul(stride))
			sa := sv.args
			if len(sa) != 4 {
				setOK, why = false, "setString has an unexpected signature"
				continue
			}
			wantAt := func(v Val, base int64) bool {
				a, _ := v.(*Agg)
				if a == nil || len(a.Elems) != 2 {
					return false
				}
				for i := 0; i < 2; i++ {
					at := appOf(e, a.Elems[i])
					if at == nil || at.Fn != "index" || valKey(at.Args[0]) != "data" {
						return false
					}
					ix, _ := at.Args[1].(*Form)
					if ix == nil || !ix.Equal(rec.Add(formInt(base+int64(i)))) {
						return false
					}
				}
				return true
			}
			if !wantAt(sa[1], 0) || !wantAt(sa[2], 2) {
				setOK, why = false, fmt.Sprintf("record %s is stored under (%s, %s); required language data[rec:rec+2], country data[rec+2:rec+4] with rec = 16 + %s·recordSize", j, trunc(valKey(sa[1]), 60), trunc(valKey(sa[2]), 60), j)
			}
			sl, _ := sa[3].(*SliceVal)
			if sl == nil || sl.Base == nil || sl.Base.Key != "data" {
				offOK, why = false, fmt.Sprintf("record %s: the stored text is %s, not a sub-slice of the tag data", j, trunc(valKey(sa[3]), 100))
				continue
			}
			if !sl.Lo.Equal(dataBE(rec.Add(formInt(8)))) {
				offOK = false
				why = fmt.Sprintf("record %s: the text starts at %s; required the record's declared string offset BE32 data[rec+8:rec+12], wherever the strings are placed", j, trunc(sl.Lo.Key(), 100))
			}
			if !sl.Len.Equal(dataBE(rec.Add(formInt(4)))) {
				recOK = false
				why = fmt.Sprintf("record %s: the text length is %s; required BE32 data[rec+4:rec+8]", j, trunc(sl.Len.Key(), 100))
			}
		}
	}
	r.Check(hdrOK, rule, "signature", pos, "BE32 data[0:4] == 'mluc' is required", "the 'mluc' signature is not checked")
	r.Check(cntOK, rule, "record count", pos, "the record loop is bounded by BE32 data[8:12]", "the record count is not BE32 data[8:12]")
	r.Check(recOK && nRec > 0, rule, "record layout", pos, fmt.Sprintf("%d records on explored paths: record j at 16 + j·BE32 data[12:16]; length BE32 at +4", nRec), why)
	r.Check(offOK && nRec > 0, rule, "offset-use", pos, "the text of a record is data[offset : offset+length] with offset = the record's BE32 at +8: taken from the declared offset, wherever the strings are placed", why)
	r.Check(setOK && nRec > 0, rule, "keying", pos, "stored under language = data[rec:rec+2], country = data[rec+2:rec+4]", why)

	// decodeUTF16BE(b) = string(utf16.Decode(units)), units[k] = b[2k]<<8 | b[2k+1], k < len(b)/2
	e2 := NewEngine(p)
	outs2 := e2.Run(dec, symArgs(e2, dec), nil)
	decOK, decWhy := false, "decodeUTF16BE is not a single path"
	if len(outs2) == 1 && outs2[0].Kind == "return" {
		o := outs2[0]
		var stv, du *Event
		for k := range o.St.events {
			ev := &o.St.events[k]
			if ev.Kind == "loop-store" {
				stv = ev
			}
			if ev.Kind == "call" && ev.Fn == "unicode/utf16.Decode" {
				du = ev
			}
		}
		b := dec.Params[0].Name()
		// the code units appended one per iteration instead of stored by index
		if stv == nil && du != nil {
			for k := range o.St.events {
				ev := &o.St.events[k]
				if ev.Kind != "loop-append" || len(ev.Args) < 5 {
					continue
				}
				kf, _ := ev.Args[0].(*Form)
				first, _ := ev.Args[1].(*Form)
				limit, _ := ev.Args[2].(*Form)
				els, _ := ev.Args[4].(Tuple)
				init, _ := ev.Recv.(*SliceVal)
				lat := appOf(e2, limit)
				good := kf != nil && first != nil && first.Equal(formInt(0)) && lat != nil && lat.Fn == "idiv" && valKey(lat.Args[1]) == "2" && strings.Contains(valKey(lat.Args[0]), "len("+b+")") &&
					init != nil && init.Len != nil && init.Len.Equal(formInt(0)) && len(els) == 1
				if !good {
					decWhy = "the decode loop does not append one code unit per byte pair for k in [0, len(b)/2) to an empty slice"
					continue
				}
				val, _ := els[0].(*Form)
				if val == nil {
					continue
				}
				runs := e2.BVOf(val, types.Typ[types.Uint16]).Runs()
				decWhy = "code unit k is not b[2k]<<8 | b[2k+1]"
				if len(runs) == 2 && runs[0].Width == 8 && runs[1].Width == 8 {
					lo, hi := e2.A.get(runs[0].A), e2.A.get(runs[1].A)
					if lo != nil && hi != nil && lo.Fn == "index" && hi.Fn == "index" && valKey(lo.Args[0]) == b && valKey(hi.Args[0]) == b {
						hiIdx, _ := hi.Args[1].(*Form)
						loIdx, _ := lo.Args[1].(*Form)
						if hiIdx.Equal(formInt(2).Mul(kf)) && loIdx.Equal(formInt(2).Mul(kf).Add(formInt(1))) {
							dsl, _ := du.Args[0].(*SliceVal)
							rk := valKey(o.Ret)
							if dsl != nil && dsl.Base != nil && dsl.Base.Fn == "loop-append" && len(dsl.Base.Args) == 2 && valKey(dsl.Base.Args[0]) == valKey(ev.Recv) && strings.Contains(rk, "convert:string(") && strings.Contains(rk, "utf16.Decode") {
								decOK = true
							} else {
								decWhy = "the result is " + trunc(rk, 100) + ", not string(utf16.Decode(code units)): surrogate pairs are not combined"
							}
						}
					}
				}
			}
		} else if stv != nil && du != nil {
			k, _ := stv.Args[0].(*Form)
			first, _ := stv.Args[1].(*Form)
			limit, _ := stv.Args[2].(*Form)
			idx, _ := stv.Args[3].(*Form)
			val, _ := stv.Args[4].(*Form)
			lat := appOf(e2, limit)
			good := first.Equal(formInt(0)) && idx.Equal(k) && lat != nil && lat.Fn == "idiv" && valKey(lat.Args[1]) == "2" && strings.Contains(valKey(lat.Args[0]), "len("+b+")")
			bv := e2.BVOf(val, types.Typ[types.Uint16])
			runs := bv.Runs()
			if good && len(runs) == 2 && runs[0].Width == 8 && runs[1].Width == 8 {
				lo, hi := e2.A.get(runs[0].A), e2.A.get(runs[1].A)
				if lo != nil && hi != nil && lo.Fn == "index" && hi.Fn == "index" && valKey(lo.Args[0]) == b && valKey(hi.Args[0]) == b {
					hiIdx, _ := hi.Args[1].(*Form)
					loIdx, _ := lo.Args[1].(*Form)
					if hiIdx.Equal(formInt(2).Mul(k)) && loIdx.Equal(formInt(2).Mul(k).Add(formInt(1))) {
						dsl, _ := du.Args[0].(*SliceVal)
						rk := valKey(o.Ret)
						if dsl != nil && dsl.Base != nil && dsl.Base.Key == stv.Recv.(*Ptr).Base.Key && strings.Contains(rk, "convert:string(") && strings.Contains(rk, "utf16.Decode") {
							decOK = true
						} else {
							decWhy = "the result is " + trunc(rk, 100) + ", not string(utf16.Decode(code units)): surrogate pairs are not combined"
						}
					} else {
						decWhy = "code unit k is not b[2k]<<8 | b[2k+1]"
					}
				}
			} else if good {
				decWhy = "code units are not big-endian byte pairs: " + trunc(val.Key(), 100)
			} else {
				decWhy = "the decode loop does not fill units[k] for k in [0, len(b)/2)"
			}
		} else {
			decWhy = "no utf16.Decode over a filled code-unit slice: the text is not decoded as UTF-16"
		}
	}
	r.Check(decOK, rule, "UTF-16BE decode", p.FnPos(dec), "decodeUTF16BE(b) = string(utf16.Decode(u)), u[k] = b[2k]<<8 | b[2k+1] for k < len(b)/2", decWhy)

	// the getters decode what was stored
	for _, g := range []string{"getStringForLanguage", "getAnyString"} {
		gf := p.Method("meta/icc", "MultiLocalisedUnicode", g)
		if gf == nil {
			r.Undecide(rule, g, "-", "getter not found")
			continue
		}
		r.SawFn(shortFn(gf))
		e3 := NewEngine(p)
		e3.Opaque = opaqueSet(dec)
		e3.MaxIter, e3.MaxForks = 2, 3
		outs3 := e3.Run(gf, symArgs(e3, gf), nil)
		good, gwhy := false, "no path returns decodeUTF16BE(stored bytes)"
		for _, o := range outs3 {
			if o.Kind == "stuck" {
				gwhy = "not extractable: " + o.Why
			}
			if o.Kind != "return" {
				continue
			}
			rk := valKey(o.Ret)
			if strings.Contains(rk, "call:meta/icc.decodeUTF16BE(") && strings.Contains(rk, "mapval(") {
				good = true
			} else if rk != "\"\"" && !strings.Contains(rk, "decodeUTF16BE") {
				good, gwhy = false, "a path returns "+trunc(rk, 80)+" without decoding the stored UTF-16BE bytes"
				break
			}
		}
		r.Check(good, rule, g, p.FnPos(gf), "returns decodeUTF16BE(the stored bytes of a matching record), or \"\" when there is none", gwhy)
	}
}
