package main

import (
	"fmt"
	"go/token"
	"go/types"
	"strings"

	"golang.org/x/tools/go/ssa"
)

// C08 — extraction results do not depend on how the source segments its data.
//
// RD1 no bare Read on a reader that may legally return short counts
// RD2 the error of every read primitive is consumed (never dropped)
// RD3 binary.ReadU* helpers are built from ReadByte only
// RD4 parsers do not look behind the reader abstraction (no type assertion
//     on the stream that could expose Buffered()/Peek()-style schedule
//     dependent state)

func init() {
	register(&PropertyCheck{ID: "C08", Level: "other", Run: runC08})
}

func metaPkg(f *ssa.Function) bool {
	for f.Parent() != nil {
		f = f.Parent()
	}
	if f.Pkg == nil {
		return false
	}
	pp := f.Pkg.Pkg.Path()
	return pp == ModPath+"/meta" || strings.HasPrefix(pp, ModPath+"/meta/")
}

// inMeta: f belongs to the parsing packages AND to the code the statements speak
// of: everything the loaders, the profile reader and the metadata accessors can
// reach, and every function of those packages that existed when the rules were
// written (metafns.go). A NEW function that none of those entry points can reach —
// an additional exported diagnostic next to the loaders, say — is a different API
// with its own contract; the properties do not quantify over it.
func inMeta(f *ssa.Function) bool {
	if !metaPkg(f) {
		return false
	}
	for f.Parent() != nil {
		f = f.Parent()
	}
	if knownMetaFns[shortFn(f)] || scopeProg == nil {
		return true
	}
	if metaReach == nil {
		metaReach = map[*ssa.Function]bool{}
		var work []*ssa.Function
		mark := func(g *ssa.Function) {
			if g != nil && !metaReach[g] {
				metaReach[g] = true
				work = append(work, g)
			}
		}
		for _, g := range scopeProg.SrcFuncs() {
			if g.Parent() == nil && metaPkg(g) && knownMetaFns[shortFn(g)] {
				mark(g)
			}
		}
		for len(work) > 0 {
			g := work[len(work)-1]
			work = work[:len(work)-1]
			for _, b := range g.Blocks {
				for _, in := range b.Instrs {
					for _, op := range in.Operands(nil) {
						if op == nil || *op == nil {
							continue
						}
						if h, ok := (*op).(*ssa.Function); ok {
							mark(h)
						}
						if mc, ok := (*op).(*ssa.MakeClosure); ok {
							if h, ok := mc.Fn.(*ssa.Function); ok {
								mark(h)
							}
						}
					}
					if c, ok := in.(ssa.CallInstruction); ok {
						mark(staticCallee(c))
						// a method called through an interface: every module method of that name
						if c.Common().IsInvoke() {
							for _, h := range scopeProg.SrcFuncs() {
								if h.Signature.Recv() != nil && h.Name() == c.Common().Method.Name() && metaPkg(h) {
									mark(h)
								}
							}
						}
					}
				}
			}
		}
	}
	return metaReach[f]
}

var scopeProg *Program
var metaReach map[*ssa.Function]bool

// isReadSig reports Read([]byte) (int, error).
func isReadSig(sig *types.Signature) bool {
	if sig.Params().Len() != 1 || sig.Results().Len() != 2 {
		return false
	}
	sl, ok := sig.Params().At(0).Type().Underlying().(*types.Slice)
	if !ok {
		return false
	}
	b, ok := sl.Elem().Underlying().(*types.Basic)
	if !ok || b.Kind() != types.Uint8 {
		return false
	}
	r0, ok := sig.Results().At(0).Type().Underlying().(*types.Basic)
	return ok && r0.Kind() == types.Int && types.Identical(sig.Results().At(1).Type(), types.Universe.Lookup("error").Type())
}

// readCallClass classifies a call of a Read method.
//
//	"" not a Read call; "iface" interface receiver; "bufio" *bufio.Reader;
//	"mem" *bytes.Reader / *bytes.Buffer / *strings.Reader; "other:<type>"
func readCallClass(c ssa.CallInstruction) string {
	cc := c.Common()
	if cc.IsInvoke() {
		if cc.Method.Name() == "Read" && isReadSig(cc.Method.Type().(*types.Signature)) {
			return "iface"
		}
		return ""
	}
	f := staticCallee(c)
	if f == nil || f.Name() != "Read" || f.Signature.Recv() == nil {
		return ""
	}
	sig := f.Signature
	if sig.Params().Len() != 1 || !isReadSig(types.NewSignatureType(nil, nil, nil, sig.Params(), sig.Results(), false)) {
		return ""
	}
	rt := sig.Recv().Type()
	switch {
	case namedIs(rt, "bufio", "Reader"):
		return "bufio"
	case namedIs(rt, "bytes", "Reader"), namedIs(rt, "bytes", "Buffer"), namedIs(rt, "strings", "Reader"):
		return "mem"
	}
	return "other:" + typeString(rt)
}

// errIndex returns the index of the error result of a call, or -1.
func errIndex(c *ssa.Call) int {
	res := c.Call.Signature().Results()
	for i := res.Len() - 1; i >= 0; i-- {
		if types.Identical(res.At(i).Type(), types.Universe.Lookup("error").Type()) {
			return i
		}
	}
	return -1
}

// resultUses returns the referrers of result i of call c (handles both the
// tuple/Extract form and single-result calls).
func resultUses(c *ssa.Call, i int) (uses []ssa.Instruction, extracted bool) {
	if c.Call.Signature().Results().Len() == 1 {
		return refs(c), true
	}
	for _, u := range refs(c) {
		if ex, ok := u.(*ssa.Extract); ok && ex.Index == i {
			extracted = true
			uses = append(uses, refs(ex)...)
		}
	}
	return uses, extracted
}

// isReadPrimitive reports calls whose error must be consumed.
func isReadPrimitive(c *ssa.Call) (string, bool) {
	cc := c.Common()
	if cc.IsInvoke() {
		switch cc.Method.Name() {
		case "ReadByte", "Read":
			return "(" + typeString(cc.Value.Type()) + ")." + cc.Method.Name(), true
		}
		return "", false
	}
	f := staticCallee(c)
	if f == nil {
		return "", false
	}
	switch {
	case fnIs(f, "io", "ReadFull"), fnIs(f, "io", "ReadAtLeast"), fnIs(f, "io", "CopyN"), fnIs(f, "io", "Copy"), fnIs(f, "io", "ReadAll"), fnIs(f, "io/ioutil", "ReadAll"):
		return "io." + f.Name(), true
	case f.Pkg != nil && f.Pkg.Pkg.Path() == ModPath+"/meta/binary" && strings.HasPrefix(f.Name(), "Read"):
		return "binary." + f.Name(), true
	case f.Name() == "ReadByte" && f.Signature.Recv() != nil:
		return shortFn(f), true
	case f.Name() == "Read" && f.Signature.Recv() != nil && readCallClass(c) != "":
		return shortFn(f), true
	case fnIs(f, "compress/zlib", "NewReader"):
		return "zlib.NewReader", true
	}
	// prism-internal reading helpers that return an error
	if isPrismFn(f) && inMeta(f) && errIndex(c) >= 0 && takesReader(f) {
		return shortFn(f), true
	}
	return "", false
}

// takesReader reports whether f has a parameter or receiver through which it
// can read the stream (an interface with ReadByte/Read, or a prism reader type).
func takesReader(f *ssa.Function) bool {
	for _, p := range f.Params {
		if isReaderType(p.Type()) {
			return true
		}
	}
	return false
}

func isReaderType(t types.Type) bool {
	ms := types.NewMethodSet(t)
	for i := 0; i < ms.Len(); i++ {
		n := ms.At(i).Obj().Name()
		if n == "ReadByte" || n == "Read" || n == "ReadSegment" || n == "ReadProfile" {
			return true
		}
	}
	if p, ok := t.(*types.Pointer); ok {
		if st, ok := p.Elem().Underlying().(*types.Struct); ok {
			for i := 0; i < st.NumFields(); i++ {
				if isReaderType(st.Field(i).Type()) {
					return true
				}
			}
		}
	}
	return false
}

func runC08(p *Program, r *Report) {
	r.Explanation = "Structural necessary-and-nearly-sufficient condition for schedule independence, decided on every call site of the metadata packages: (RD1) no fixed-size field is obtained with a single Read on an io.Reader/binary.Reader/bufio.Reader, which may legally return a short count; all stream bytes come from io.ReadFull, io.CopyN/Copy, ReadByte-based helpers, whose result is a function of the byte sequence only; (RD2) no read primitive's error is dropped; (RD3) the binary.ReadU* helpers are built from ReadByte only; (RD4) parsers never type-assert the stream to reach buffering state; (RD5) decoders that buffer ahead on their own (compress/zlib, a second bufio) are applied to in-memory data only, never to the live stream; (RD6) no Peek/ReadSlice/ReadLine: nothing the parsers keep is a view into a buffered reader's own buffer. What is NOT decided: the behaviour of bufio, io.ReadFull and compress/zlib themselves (trusted library contracts)."
	r.RuleText = "one instance per call site (resolved callee, receiver static type); non-trivial = every classified Read call and every read primitive whose error flow was traced"
	r.Trusted = []string{"go/packages+go/types+go/ssa (x/tools v0.29.0)", "io.ReadFull / io.CopyN / bufio.Reader.ReadByte return the next bytes of the stream regardless of how the source segments them", "compress/zlib reads through io.Reader contract only"}

	nFn := 0
	for _, f := range p.SrcFuncs() {
		if !inMeta(f) {
			continue
		}
		nFn++
		r.SawFn(shortFn(f))
		site := map[string]int{}
		for _, b := range f.Blocks {
			for _, in := range b.Instrs {
				switch in := in.(type) {
				case *ssa.Call:
					// RD1
					if cls := readCallClass(in); cls != "" {
						site["Read"]++
						key := fmt.Sprintf("%s call#%d of Read", shortFn(f), site["Read"])
						switch {
						case f.Name() == "Read" && forwardsRead(f, in):
							r.Hold("C08.RD1", key, p.InstrPos(in), "Read method forwarding n, err of the underlying Read unchanged (class c)")
						case cls == "mem":
							// in-memory reader: short only at end of data; the count must be looked at
							uses, _ := resultUses(in, 0)
							if len(uses) == 0 {
								r.Violate("C08.RD1", key, p.InstrPos(in), "Read on an in-memory reader whose byte count is ignored: a short read at end of data goes unnoticed")
							} else {
								r.Hold("C08.RD1", key, p.InstrPos(in), "Read on *bytes.Reader/*bytes.Buffer over data already in memory (short only at end of data) and the count is examined (class b)")
							}
						default:
							r.Violate("C08.RD1", key, p.InstrPos(in), fmt.Sprintf("bare Read on a %s receiver (%s): one Read may legally return fewer bytes than requested, so the result depends on how the source segments its data; use io.ReadFull / io.CopyN", cls, typeString(in.Call.Value.Type())))
						}
					}
					// RD2
					if name, ok := isReadPrimitive(in); ok {
						ei := errIndex(in)
						if ei < 0 {
							continue
						}
						site[name]++
						key := fmt.Sprintf("%s call#%d of %s", shortFn(f), site[name], name)
						uses, _ := resultUses(in, ei)
						if len(uses) == 0 && memReaderArg(in) {
							r.Hold("C08.RD2", key, p.InstrPos(in), "reads data already in memory (*bytes.Reader): whether it fails is a function of the bytes alone, there is no delivery schedule")
							continue
						}
						if len(uses) == 0 {
							r.Violate("C08.RD2", key, p.InstrPos(in), "the error result of "+name+" is dropped: a failed or short read is indistinguishable from success")
						} else {
							r.Hold("C08.RD2", key, p.InstrPos(in), fmt.Sprintf("error result has %d use(s)", len(uses)))
						}
					}
				case *ssa.TypeAssert:
					// RD4
					// asserting the stream to a concrete type, or probing it for a capability other than
					// reading (Size, Len, Peek, Discard, Buffered, Seek …), makes what the parser does —
					// and here even whether it succeeds — depend on what the caller wrapped the bytes in
					probe := false
					if it, ok := in.AssertedType.Underlying().(*types.Interface); ok {
						for k := 0; k < it.NumMethods(); k++ {
							switch it.Method(k).Name() {
							case "Read", "ReadByte":
							case "Discard":
								// a forward-only skip of exactly n bytes: what it does is a function of the byte
								// sequence, not of the read schedule
							default:
								probe = true
							}
						}
					}
					if isReaderType(in.X.Type()) && types.IsInterface(in.X.Type()) && (!types.IsInterface(in.AssertedType) || probe) {
						site["assert"]++
						key := fmt.Sprintf("%s assert#%d", shortFn(f), site["assert"])
						r.Violate("C08.RD4", key, p.InstrPos(in), "type assertion on the stream reader to "+typeString(in.AssertedType)+": exposes buffering state or a capability that depends on how the caller delivers the data, not on the bytes")
					}
				}
			}
		}
	}
	r.Hold("C08.RD4", "scan", "-", fmt.Sprintf("%d functions of meta/... scanned for type assertions on stream readers", nFn))

	// RD5: decoders that buffer ahead on their own (compress/*, a second bufio) are
	// applied to in-memory data only. On the live stream their read-ahead — and so the
	// position the parser resumes at — depends on how the source segments its data.
	nDec := 0
	for _, f := range p.SrcFuncs() {
		if !inMeta(f) {
			continue
		}
		isLoad := f.Name() == "Load" && f.Parent() == nil
		for _, b := range f.Blocks {
			for _, in := range b.Instrs {
				c, ok := in.(*ssa.Call)
				if !ok {
					continue
				}
				cf := staticCallee(c)
				if cf == nil || cf.Pkg == nil || len(c.Call.Args) == 0 {
					continue
				}
				pp := cf.Pkg.Pkg.Path()
				readsAhead := strings.HasPrefix(pp, "compress/") && strings.HasPrefix(cf.Name(), "NewReader")
				if pp == "bufio" && strings.HasPrefix(cf.Name(), "NewReader") && !isLoad {
					readsAhead = true // the one buffering layer belongs to the loader plumbing (C18.E3); none inside the parsers
					if tc, ok := stripIface(c.Call.Args[0]).(*ssa.Call); ok && fnIs(staticCallee(tc), "io", "TeeReader") {
						readsAhead = false // bufio directly over the recording tee: that is the loader's layer
					}
				}
				if !readsAhead {
					continue
				}
				nDec++
				src := stripIface(c.Call.Args[0])
				inMem := inMemoryReader(p, src, 0)
				key := fmt.Sprintf("%s %s.%s#%d", shortFn(f), pp, cf.Name(), nDec)
				r.Check(inMem, "C08.RD5", key, p.InstrPos(c), "the buffering decoder reads from in-memory data (bytes.Buffer / bytes.Reader) that was first read with a full-read primitive", "a decoder that buffers ahead on its own ("+pp+"."+cf.Name()+") is applied to "+trunc(src.String(), 80)+", not to in-memory data: how much of the stream it swallows depends on the read schedule, so the bytes the parser sees next do too")
			}
		}
	}
	r.Hold("C08.RD5", "scan", "-", fmt.Sprintf("%d buffering-decoder constructions in meta/...", nDec))

	// RD6: no borrowed view of a reader's internal buffer. Peek / ReadSlice / ReadLine return
	// a slice INTO the buffered reader's buffer, valid only until the next read: which bytes
	// the parser finds there later depends on when the buffer was refilled, i.e. on how the
	// source segments its data (a payload kept from a Peek is overwritten under short reads
	// and intact under one big read).
	borrowedViewScan(p, r, "C08.RD6")

	// RD3
	bin := p.SSAPkg[ModPath+"/meta/binary"]
	if bin == nil {
		r.Undecide("C08.RD3", "meta/binary", "-", "package not found")
	} else {
		for _, name := range []string{"ReadU16Big", "ReadU32Big", "ReadU32Little", "ReadU24Little", "ReadU64Big"} {
			f := bin.Func(name)
			if f == nil {
				r.Undecide("C08.RD3", "binary."+name, "-", "helper not found")
				continue
			}
			// every call, transitively through helpers of the same package, is ReadByte
			// on the reader (or builtin/conversion): the result depends on the byte
			// sequence only, never on how the source segments it
			ok, why := true, ""
			n := 0
			seen := map[*ssa.Function]bool{}
			var scan func(g *ssa.Function)
			scan = func(g *ssa.Function) {
				if seen[g] {
					return
				}
				seen[g] = true
				for _, b := range g.Blocks {
					for _, in := range b.Instrs {
						c, isCall := in.(*ssa.Call)
						if !isCall {
							continue
						}
						cc := c.Common()
						if _, isB := cc.Value.(*ssa.Builtin); isB {
							continue
						}
						n++
						switch {
						case cc.IsInvoke() && cc.Method.Name() == "ReadByte":
						case !cc.IsInvoke() && staticCallee(c) != nil && staticCallee(c).Pkg == bin && len(staticCallee(c).Blocks) > 0:
							scan(staticCallee(c))
						default:
							ok, why = false, fmt.Sprintf("%s at %s", c.String(), p.InstrPos(c))
						}
					}
				}
			}
			scan(f)
			r.Check(ok && n > 0, "C08.RD3", "binary."+name, p.FnPos(f), fmt.Sprintf("built from %d calls, all ReadByte or helpers of meta/binary that themselves only call ReadByte", n), "contains a call other than ReadByte: "+why)
		}
	}

	// RD1 legitimately has few instances (expected violation count zero): guarded by fixtures, not a floor
	r.Floor("C08.RD2", 40) // confirmed by reading: 125 read primitives with an error result today
	r.Floor("C08.RD3", 5)
}

// forwardsRead reports whether Read method f returns the results of call c unchanged.
func forwardsRead(f *ssa.Function, c *ssa.Call) bool {
	// a wrapper that keeps state between calls (a budget, a position) can make its refusals — and so
	// the result — depend on how many bytes earlier reads happened to return
	stateless := true
	for _, b := range f.Blocks {
		for _, in := range b.Instrs {
			if _, isStore := in.(*ssa.Store); isStore {
				stateless = false
			}
		}
	}
	for _, b := range f.Blocks {
		for _, in := range b.Instrs {
			ret, ok := in.(*ssa.Return)
			if !ok {
				continue
			}
			if len(ret.Results) != 2 {
				return false
			}
			// a refusal before reading — return 0, err (a cancelled context, a closed wrapper) —
			// delivers no byte and so cannot depend on the schedule
			if n0, isC := constInt(ret.Results[0]); stateless && isC && n0 == 0 && !isNilConst(ret.Results[1]) && !dominatesInstr(c, ret) {
				continue
			}
			for i, rv := range ret.Results {
				ex, ok := rv.(*ssa.Extract)
				if !ok || ex.Tuple != ssa.Value(c) || ex.Index != i {
					return false
				}
			}
		}
	}
	return true
}

var _ = token.ADD

// rd1Scan applies rule RD1 (no bare Read on a reader that may return short
// counts) to every function of meta/... under the given rule name; used by
// C05/C06 for their "payload is read with a full-read primitive" clause.
func rd1Scan(p *Program, r *Report, rule string) {
	n, bad := 0, 0
	for _, f := range p.SrcFuncs() {
		if !inMeta(f) {
			continue
		}
		site := 0
		for _, b := range f.Blocks {
			for _, in := range b.Instrs {
				c, ok := in.(*ssa.Call)
				if !ok {
					continue
				}
				cls := readCallClass(c)
				if cls == "" {
					continue
				}
				n++
				site++
				if cls == "mem" || (f.Name() == "Read" && forwardsRead(f, c)) {
					continue
				}
				bad++
				r.Violate(rule, fmt.Sprintf("%s call#%d of Read", shortFn(f), site), p.InstrPos(c), fmt.Sprintf("bare Read on a %s receiver: a short read truncates the field/payload (full-read primitive required)", cls))
			}
		}
	}
	if bad == 0 {
		r.Hold(rule, "no bare Read in meta/...", "-", fmt.Sprintf("%d Read call sites classified; all stream payloads are read with io.ReadFull / io.CopyN / ReadByte helpers", n))
	}
}

// inMemoryReader: the value is a reader over data already held in memory
// (bytes.Buffer, bytes.Reader, strings.Reader), possibly handed down through
// parameters of functions all of whose callers pass such a value.
func inMemoryReader(p *Program, v ssa.Value, depth int) bool {
	if depth > 4 {
		return false
	}
	v = stripIface(v)
	isMemType := func(t types.Type) bool {
		return namedIs(t, "bytes", "Buffer") || namedIs(t, "bytes", "Reader") || namedIs(t, "strings", "Reader")
	}
	if isMemType(v.Type()) {
		return true
	}
	switch x := v.(type) {
	case *ssa.Call:
		if g := staticCallee(x); g != nil && (fnIs(g, "bytes", "NewReader") || fnIs(g, "bytes", "NewBuffer") || fnIs(g, "bytes", "NewBufferString") || fnIs(g, "strings", "NewReader")) {
			return true
		}
	case *ssa.Parameter:
		fn := x.Parent()
		idx := -1
		for i, prm := range fn.Params {
			if prm == x {
				idx = i
			}
		}
		if idx < 0 {
			return false
		}
		n := 0
		for _, g := range p.SrcFuncs() {
			for _, b := range g.Blocks {
				for _, in := range b.Instrs {
					c, ok := in.(ssa.CallInstruction)
					if !ok || staticCallee(c) != fn {
						continue
					}
					args := c.Common().Args
					if idx >= len(args) {
						return false
					}
					n++
					if !inMemoryReader(p, args[idx], depth+1) {
						return false
					}
				}
			}
		}
		return n > 0
	case *ssa.Phi:
		for _, e := range x.Edges {
			if !inMemoryReader(p, e, depth+1) {
				return false
			}
		}
		return len(x.Edges) > 0
	}
	return false
}

// memReaderArg: the stream the read primitive is applied to is, by its static type
// before any interface conversion, a *bytes.Reader or *strings.Reader.
func memReaderArg(c *ssa.Call) bool {
	cc := c.Common()
	var vals []ssa.Value
	if cc.IsInvoke() {
		vals = append(vals, cc.Value)
	}
	vals = append(vals, cc.Args...)
	for _, v := range vals {
		for {
			if mi, ok := v.(*ssa.MakeInterface); ok {
				v = mi.X
				continue
			}
			if ct, ok := v.(*ssa.ChangeInterface); ok {
				v = ct.X
				continue
			}
			break
		}
		if pt, ok := v.Type().(*types.Pointer); ok {
			if n, ok := pt.Elem().(*types.Named); ok && n.Obj().Pkg() != nil {
				if (n.Obj().Pkg().Path() == "bytes" || n.Obj().Pkg().Path() == "strings") && n.Obj().Name() == "Reader" {
					return true
				}
			}
		}
	}
	return false
}

// borrowedViewScan (C08.RD6, C06.owned): no call in the parsing packages returns a view into a
// buffered reader's own buffer (Peek / ReadSlice / ReadLine). Such a slice is valid only until the
// next refill, while the parsers keep payload slices (ICC chunks, staging buffers) until the end of
// the parse.
func borrowedViewScan(p *Program, r *Report, rule string) {
	nView, badView := 0, ""
	for _, f := range p.SrcFuncs() {
		if !inMeta(f) {
			continue
		}
		for _, b := range f.Blocks {
			for _, in := range b.Instrs {
				c, ok := in.(ssa.CallInstruction)
				if !ok {
					continue
				}
				name := ""
				if c.Common().IsInvoke() {
					name = c.Common().Method.Name()
				} else if cf := staticCallee(c); cf != nil && cf.Signature.Recv() != nil {
					name = cf.Name()
				}
				nView++
				switch name {
				case "Peek", "ReadSlice", "ReadLine":
					badView = fmt.Sprintf("%s calls %s at %s: the result is a view into the reader's own buffer, overwritten by the next refill — what the parser keeps from it depends on the read schedule", shortFn(f), name, p.InstrPos(in))
				}
			}
		}
	}
	r.Check(badView == "", rule, "no borrowed buffer views", "-", fmt.Sprintf("%d calls scanned: no Peek/ReadSlice/ReadLine in meta/... (every byte the parsers keep is copied out of the stream)", nView), badView)
}
