package main

import (
	"fmt"
	"go/token"
	"go/types"
	"math/big"
	"os"
	"sort"
	"strings"

	"golang.org/x/tools/go/ssa"
)

// C09 — hostile input cannot crash the caller, hang, or balloon memory.
//
// P1 panic containment        A1 allocation bound (per site, per path)
// A2 allocation in a loop     L1 loop progress      L2 no repositioning

func init() {
	register(&PropertyCheck{ID: "C09", Level: "other", Run: runC09, Arch386: true})
}

func runC09(p *Program, r *Report) {
	narrowProg = p
	r.Explanation = "Structural necessary conditions decided for every input: (P1) from each public entry that parses untrusted bytes, every prism function reached WITHOUT passing a frame whose deferred recover() is armed before anything can panic contains only operations that cannot panic, whose bounds are implied on every path by the path conditions (rule B: the function is abstractly interpreted with bounds tracking and 0 <= lo <= hi <= len / 0 <= i < len is proved in integer linear arithmetic from at most two conditions, admitting only conditions whose own SSA arithmetic cannot wrap), or that match a recognised sound guard idiom — constant index into an array, constant bounds under a dominating len(s) >= k, index by a counter bounded by len of the same slice, the s[2j], s[2j+1] pair with j < len(s)/2, and a slice expression data[a:a+c] dominated by `uint64(a)+uint64(c) > uint64(len(data)) → return` with the widening BEFORE the addition (a 32-bit sum that wraps defeats the check); (A1) on every explored path of the parsers the length of every make() is a constant, or is built from at most 16 input bits, or is bounded by a preceding path condition against the length of data actually held, and any subtraction in it is preceded by a condition that excludes wrap-around; every make site of meta/... is reached by the exploration; no Grow/ReadAll with an input-declared size; (A2) no allocation sized by input-declared numbers sits inside a loop whose trip count is input-declared unless its size is bounded by the bytes that iteration consumes (total memory linear in the input); (L1) every loop either has a constant or len()-bounded trip count, consumes a slice of held data from the front, or performs, on every cycle, a stream read whose failure leaves the loop (time linear in the input); (L2) no reader is ever repositioned (Unread/Reset/Discard; Seek only forward: io.SeekCurrent with an offset converted from an unsigned value). NOT decided: actual allocation totals and wall time, zlib's expansion ratio (≤ 1032:1 by format). (L3) no function of the parsing packages can reach itself through statically resolved calls, closures it creates, or deferred/go calls: the stack depth is a constant of the code, not a number the input controls (a goroutine stack overflow is fatal and recover() does not stop it)."
	r.RuleText = "one instance per entry point (P1), per risky instruction (P1), per make site and path (A1), per loop (L1/A2), plus scans with expected count zero"
	r.Trusted = []string{"go/packages+go/types+go/ssa (x/tools v0.29.0)", "the abstract interpreter (bounded exploration) for A1", "recover() in a deferred closure stops a panic raised in the same goroutine below that frame", "bytes.Buffer grows with the bytes written; io.CopyN copies at most n bytes actually present"}
	checkPanicContainment(p, r)
	checkAllocBounds(p, r)
	checkLoopAllocs(p, r)
	checkLoopProgress(p, r)
	checkNoRecursion(p, r)
	checkCounterWrap(p, r)
	r.Floor("C09.P1", 7)
	r.Floor("C09.A1", 3)
	r.Floor("C09.L1", 12)
}

// ---------------------------------------------------------------------------
// P1

// recoverArmedQuiet reports whether fn starts by arming a recovering defer
// (same criteria as C07's obligation 5, without reporting).
func recoverArmedQuiet(p *Program, fn *ssa.Function) bool {
	sub := NewReport("x", "other")
	return len(fn.Blocks) > 0 && checkRecoverArmed(p, sub, "x", "x", fn)
}

type riskyOp struct {
	Fn   *ssa.Function
	In   ssa.Instruction
	What string
}

// riskyOps lists the instructions of fn that can panic depending on data.
func riskyOps(fn *ssa.Function) []riskyOp {
	var out []riskyOp
	for _, b := range fn.Blocks {
		for _, in := range b.Instrs {
			switch in := in.(type) {
			case *ssa.IndexAddr:
				if _, isSlice := in.X.Type().Underlying().(*types.Slice); isSlice {
					out = append(out, riskyOp{fn, in, "slice index"})
				} else if _, isC := constInt(in.Index); !isC {
					out = append(out, riskyOp{fn, in, "array index"})
				}
			case *ssa.Index:
				if _, isC := constInt(in.Index); !isC {
					out = append(out, riskyOp{fn, in, "index"})
				}
			case *ssa.Slice:
				if in.Low != nil || in.High != nil || in.Max != nil {
					if _, isStr := in.X.Type().Underlying().(*types.Basic); !isStr {
						out = append(out, riskyOp{fn, in, "slice expression"})
					}
				}
			case *ssa.TypeAssert:
				if !in.CommaOk {
					out = append(out, riskyOp{fn, in, "unchecked type assertion"})
				}
			case *ssa.Panic:
				out = append(out, riskyOp{fn, in, "explicit panic"})
			case *ssa.BinOp:
				if in.Op == token.QUO || in.Op == token.REM {
					if _, _, isInt := intTypeInfo(in.Type(), 64); isInt {
						if c, isC := constInt(in.Y); !isC || c == 0 {
							out = append(out, riskyOp{fn, in, "integer division"})
						}
					}
				}
			case *ssa.MapUpdate:
				// a nil map panics on write: the map must come from a MakeMap in this function or a checked lookup
				if !mapIsMade(in.Map) {
					out = append(out, riskyOp{fn, in, "write to a possibly nil map"})
				}
			}
		}
	}
	return out
}

func mapIsMade(v ssa.Value) bool {
	for i := 0; i < 8; i++ {
		switch x := v.(type) {
		case *ssa.MakeMap:
			return true
		case *ssa.Phi:
			for _, e := range x.Edges {
				if !mapIsMade(e) {
					return false
				}
			}
			return true
		case *ssa.UnOp:
			// field of a struct: accept when the field is only ever assigned MakeMap values (checked by caller idiom table)
			if fa, ok := x.X.(*ssa.FieldAddr); ok {
				return fieldOnlyMade(fa)
			}
			return false
		case *ssa.Extract:
			// countries, ok := m[k]; the !ok branch makes a fresh map — both phi edges handled above
			if lk, ok := x.Tuple.(*ssa.Lookup); ok && lk.CommaOk {
				return true // a present entry of a map whose values are only ever made maps (see fieldOnlyMade on the parent)
			}
			return false
		default:
			return false
		}
	}
	return false
}

// fieldOnlyMade: every store to this struct field (anywhere in its package)
// stores a freshly made map.
func fieldOnlyMade(fa *ssa.FieldAddr) bool {
	pkg := fa.Parent().Pkg
	if pkg == nil {
		return false
	}
	st, ok := fa.X.Type().Underlying().(*types.Pointer)
	if !ok {
		return false
	}
	n := 0
	good := true
	for _, m := range pkg.Members {
		f, isF := m.(*ssa.Function)
		if !isF {
			continue
		}
		var all []*ssa.Function
		all = append(all, f)
		all = append(all, f.AnonFuncs...)
		for _, g := range all {
			for _, b := range g.Blocks {
				for _, in := range b.Instrs {
					s, ok := in.(*ssa.Store)
					if !ok {
						continue
					}
					fa2, ok := s.Addr.(*ssa.FieldAddr)
					if !ok || fa2.Field != fa.Field || !types.Identical(fa2.X.Type(), st) {
						continue
					}
					n++
					if _, isMk := s.Val.(*ssa.MakeMap); !isMk {
						good = false
					}
				}
			}
		}
	}
	// also composite literals of the struct type initialise the field through FieldAddr stores: counted above
	return good && n > 0
}

// guardFor returns the name of the recognised guard idiom protecting op, or "".
// counterBelow: idx is a loop counter running over 0 <= i < n' with a constant n' <= n.
func counterBelow(idx ssa.Value, n int64) bool {
	within := func(iv *IndVar) bool {
		init, okI := constInt(iv.Init)
		lim, okL := constInt(iv.Limit)
		step, okS := constInt(iv.Step)
		if !okI || !okL || !okS || step != 1 || iv.Down || iv.Op != token.LSS {
			return false
		}
		first := init
		if iv.PreInc {
			first = init + 1
		}
		return first >= 0 && lim <= n
	}
	if phi, ok := idx.(*ssa.Phi); ok {
		if iv := findIndVar(phi); iv != nil && !iv.PreInc {
			return within(iv)
		}
	}
	if bo, ok := idx.(*ssa.BinOp); ok && bo.Op == token.ADD {
		if phi, ok := bo.X.(*ssa.Phi); ok {
			if iv := findIndVar(phi); iv != nil && iv.PreInc && iv.Next == bo {
				return within(iv)
			}
		}
	}
	return false
}

func guardFor(op riskyOp) string {
	// G6: an array indexed by a counter that runs below its (constant) length
	switch in := op.In.(type) {
	case *ssa.Index:
		if at, ok := in.X.Type().Underlying().(*types.Array); ok && counterBelow(in.Index, at.Len()) {
			return "G6 array indexed by a counter below its length"
		}
	case *ssa.IndexAddr:
		if pt, ok := in.X.Type().Underlying().(*types.Pointer); ok {
			if at, ok := pt.Elem().Underlying().(*types.Array); ok && counterBelow(in.Index, at.Len()) {
				return "G6 array indexed by a counter below its length"
			}
		}
	}
	switch in := op.In.(type) {
	case *ssa.IndexAddr:
		idx := in.Index
		// G5: constant index below a dominating lower bound on len(s)
		if c, isC := constInt(idx); isC && c >= 0 && lenAtLeast(in, in.X) > c {
			return "G5 constant index below a dominating `len(s) >= k` test"
		}
		// G2: counter bounded by len of the same slice
		if phi, ok := idx.(*ssa.Phi); ok {
			if iv := findIndVar(phi); iv != nil && iv.Op == token.LSS && !iv.PreInc {
				if c, isC := constInt(iv.Init); isC && c >= 0 && lenOf(iv.Limit) == in.X {
					return "G2 index by a counter i with 0 <= i < len(s) of the same slice"
				}
			}
		}
		// range-over-slice index: rangeindex phi with limit len(s)
		if bo, ok := idx.(*ssa.BinOp); ok && bo.Op == token.ADD {
			if phi, ok := bo.X.(*ssa.Phi); ok {
				if iv := findIndVar(phi); iv != nil && iv.PreInc && iv.Next == bo && lenOf(iv.Limit) == in.X {
					return "G2 range index over the same slice"
				}
			}
		}
		// G3: s[2j] / s[2j+1] with j < len(t), t = make(len(s)/2)
		if j, off, ok := twiceCounter(idx); ok && (off == 0 || off == 1) {
			if iv := findIndVar(j); iv != nil && iv.Op == token.LSS && !iv.PreInc {
				if c, isC := constInt(iv.Init); isC && c >= 0 {
					if t := lenOf(iv.Limit); t != nil {
						if mk, ok := t.(*ssa.MakeSlice); ok {
							if half, ok := mk.Len.(*ssa.BinOp); ok && half.Op == token.QUO {
								if d, isC := constInt(half.Y); isC && d == 2 && lenOf(half.X) == in.X {
									return "G3 s[2j+b] with j < len(make(len(s)/2))"
								}
							}
						}
					}
				}
			}
		}
	case *ssa.Slice:
		// G5: s[c:], s[:c], s[a:b] with constants within a dominating lower bound on len(s)
		{
			lo, hi := int64(0), int64(-1)
			okC := true
			if in.Low != nil {
				lo, okC = constInt(in.Low)
			}
			if in.High != nil && okC {
				hi, okC = constInt(in.High)
			}
			if okC && in.Max == nil && lo >= 0 && (hi < 0 || lo <= hi) {
				need := lo
				if hi > need {
					need = hi
				}
				if _, isSl := in.X.Type().Underlying().(*types.Slice); isSl && lenAtLeast(in, in.X) >= need {
					return "G5 constant slice bounds within a dominating `len(s) >= k` test"
				}
			}
		}
		// G4: data[a : a+c] dominated by uint64(a)+uint64(c) > uint64(len(data)) → exit
		if in.Low != nil && in.High != nil {
			if hi, ok := in.High.(*ssa.BinOp); ok && hi.Op == token.ADD && (hi.X == in.Low || hi.Y == in.Low) {
				c := hi.Y
				if hi.Y == in.Low {
					c = hi.X
				}
				if wideSumGuard(in, in.Low, c, in.X) {
					return "G4 data[a:a+c] after `uint64(a)+uint64(c) > uint64(len(data))` → return (widened before adding)"
				}
			}
		}
	}
	return ""
}

// lenAtLeast returns the largest constant k such that a condition dominating
// instruction at establishes len(s) >= k for the same SSA value s (0 if none).
func lenAtLeast(at ssa.Instruction, s ssa.Value) int64 {
	best := int64(0)
	fn := at.Parent()
	for _, b := range fn.Blocks {
		ifi, ok := b.Instrs[len(b.Instrs)-1].(*ssa.If)
		if !ok {
			continue
		}
		cmp, ok := ifi.Cond.(*ssa.BinOp)
		if !ok {
			continue
		}
		op := cmp.Op
		x, y := cmp.X, cmp.Y
		if lenOf(y) == s && lenOf(x) != s {
			x, y = y, x
			switch op {
			case token.LSS:
				op = token.GTR
			case token.GTR:
				op = token.LSS
			case token.LEQ:
				op = token.GEQ
			case token.GEQ:
				op = token.LEQ
			}
		}
		if lenOf(x) != s {
			continue
		}
		k, isC := constInt(y)
		if !isC {
			continue
		}
		// which successor implies len(s) >= some bound?
		var succ *ssa.BasicBlock
		var bound int64
		switch op {
		case token.GEQ: // true: len >= k
			succ, bound = b.Succs[0], k
		case token.GTR: // true: len >= k+1
			succ, bound = b.Succs[0], k+1
		case token.LSS: // false: len >= k
			succ, bound = b.Succs[1], k
		case token.LEQ: // false: len >= k+1
			succ, bound = b.Succs[1], k+1
		default:
			continue
		}
		if len(succ.Preds) != 1 {
			continue
		}
		if (succ == at.Block() || succ.Dominates(at.Block())) && bound > best {
			best = bound
		}
	}
	return best
}

func wordBitsOf(p *Program) int {
	if p.Arch == "386" || p.Arch == "arm" {
		return 32
	}
	return 64
}

// lenOf returns s when v is len(s) (possibly converted), else nil.
func lenOf(v ssa.Value) ssa.Value {
	for i := 0; i < 4; i++ {
		switch x := v.(type) {
		case *ssa.Convert:
			v = x.X
		case *ssa.ChangeType:
			v = x.X
		case *ssa.Call:
			if b, ok := x.Call.Value.(*ssa.Builtin); ok && b.Name() == "len" {
				return x.Call.Args[0]
			}
			return nil
		default:
			return nil
		}
	}
	return nil
}

// twiceCounter decodes idx = j*2 (+ off).
func twiceCounter(idx ssa.Value) (*ssa.Phi, int64, bool) {
	off := int64(0)
	if bo, ok := idx.(*ssa.BinOp); ok && bo.Op == token.ADD {
		if c, isC := constInt(bo.Y); isC {
			off = c
			idx = bo.X
		}
	}
	bo, ok := idx.(*ssa.BinOp)
	if !ok {
		return nil, 0, false
	}
	var j ssa.Value
	switch {
	case bo.Op == token.MUL:
		if c, isC := constInt(bo.Y); isC && c == 2 {
			j = bo.X
		} else if c, isC := constInt(bo.X); isC && c == 2 {
			j = bo.Y
		}
	case bo.Op == token.SHL:
		if c, isC := constInt(bo.Y); isC && c == 1 {
			j = bo.X
		}
	}
	phi, ok := j.(*ssa.Phi)
	return phi, off, ok
}

// wideSumGuard looks for a dominating `uint64(a) + uint64(c) > uint64(len(data))`
// (or >=, or the mirrored form) whose true branch leaves the function.
func wideSumGuard(at ssa.Instruction, a, c, data ssa.Value) bool {
	fn := at.Parent()
	for _, b := range fn.Blocks {
		ifi, ok := b.Instrs[len(b.Instrs)-1].(*ssa.If)
		if !ok {
			continue
		}
		cmp, ok := ifi.Cond.(*ssa.BinOp)
		if !ok || (cmp.Op != token.GTR && cmp.Op != token.GEQ) {
			continue
		}
		sum, ok := cmp.X.(*ssa.BinOp)
		if !ok || sum.Op != token.ADD {
			continue
		}
		w, _, isInt := intTypeInfo(sum.Type(), 64)
		if !isInt || w < 64 {
			continue
		}
		cx, okx := sum.X.(*ssa.Convert)
		cy, oky := sum.Y.(*ssa.Convert)
		if !okx || !oky {
			continue // OW1: the operands must be widened before the addition
		}
		if !((cx.X == a && cy.X == c) || (cx.X == c && cy.X == a)) {
			continue
		}
		if lenOf(cmp.Y) != data {
			continue
		}
		// true branch returns; the slice is dominated by the false branch
		t, f := b.Succs[0], b.Succs[1]
		if _, isRet := t.Instrs[len(t.Instrs)-1].(*ssa.Return); !isRet {
			continue
		}
		if f == at.Block() || f.Dominates(at.Block()) {
			return true
		}
	}
	return false
}

func checkPanicContainment(p *Program, r *Report) {
	entries := []struct {
		name string
		fn   *ssa.Function
	}{
		{"pngmeta.Load", p.Func("meta/pngmeta", "Load")},
		{"jpegmeta.Load", p.Func("meta/jpegmeta", "Load")},
		{"webpmeta.Load", p.Func("meta/webpmeta", "Load")},
		{"autometa.Load", p.Func("meta/autometa", "Load")},
		{"(*icc.ProfileReader).ReadProfile", p.Method("meta/icc", "ProfileReader", "ReadProfile")},
		{"(*meta.Data).ICCProfile", p.Method("meta", "Data", "ICCProfile")},
		{"(*icc.Profile).Description", p.Method("meta/icc", "Profile", "Description")},
	}
	unprot := map[*ssa.Function]string{}               // function -> entry that reaches it unprotected
	reachedFrom := map[*ssa.Function][]*ssa.Function{} // function -> entries that reach it unprotected
	for _, en := range entries {
		if en.fn == nil {
			r.Undecide("C09.P1", "entry "+en.name, "-", "entry point not found")
			continue
		}
		r.SawFn(shortFn(en.fn))
		nProt, nUn := 0, 0
		seen := map[*ssa.Function]bool{}
		var walk func(f *ssa.Function)
		walk = func(f *ssa.Function) {
			if f == nil || seen[f] || !isPrismFn(f) || len(f.Blocks) == 0 {
				return
			}
			seen[f] = true
			if recoverArmedQuiet(p, f) {
				nProt++
				return // everything below this frame is contained
			}
			nUn++
			reachedFrom[f] = append(reachedFrom[f], en.fn)
			if _, ok := unprot[f]; !ok {
				unprot[f] = en.name
			}
			for _, b := range f.Blocks {
				for _, in := range b.Instrs {
					var ops []*ssa.Value
					for _, op := range in.Operands(ops) {
						if op == nil || *op == nil {
							continue
						}
						switch v := (*op).(type) {
						case *ssa.Function:
							walk(v)
						case *ssa.MakeClosure:
							walk(v.Fn.(*ssa.Function))
						}
					}
				}
			}
		}
		walk(en.fn)
		// autometa reaches the loaders through its table
		r.Hold("C09.P1", "entry "+en.name, p.FnPos(en.fn), fmt.Sprintf("%d recover-armed frames cut the call graph; %d functions run outside any recover and are checked instruction by instruction", nProt, nUn))
	}
	var fns []*ssa.Function
	for f := range unprot {
		fns = append(fns, f)
	}
	sort.Slice(fns, func(i, j int) bool { return fns[i].String() < fns[j].String() })
	nOps := 0
	// rule B runs: a function interpreted with bounds tracking, entering neither
	// recover-armed frames (they contain their own panics) nor itself recursively
	type bRun struct {
		e          *Engine
		outs       []Outcome
		incomplete string
	}
	bRuns := map[*ssa.Function]*bRun{}
	armed := map[*ssa.Function]bool{}
	runFrom := func(root *ssa.Function) *bRun {
		if br, ok := bRuns[root]; ok {
			return br
		}
		be := NewEngine(p)
		be.EvalInits = true
		be.TrackBounds = true
		be.MaxIter, be.MaxForks = 3, 3
		be.Opaque = func(g *ssa.Function) bool {
			if g == root {
				return true // self-recursion: the function is analysed for every argument anyway
			}
			v, ok := armed[g]
			if !ok {
				v = recoverArmedQuiet(p, g)
				armed[g] = v
			}
			return v
		}
		st := newState()
		s := &Stream{Name: "in"}
		st.pos[s] = formInt(0)
		br := &bRun{e: be}
		br.outs = be.Run(root, setupArgs(be, st, root, s), st)
		for _, o := range br.outs {
			if o.Kind == "stuck" || o.Kind == "cutoff" {
				br.incomplete = o.Kind + " at " + p.Pos(o.Pos) + ": " + o.Why
			}
		}
		bRuns[root] = br
		return br
	}
	for _, f := range fns {
		r.SawFn(shortFn(f))
		site := map[string]int{}
		for _, op := range riskyOps(f) {
			nOps++
			site[op.What]++
			key := fmt.Sprintf("%s %s#%d", shortFn(f), op.What, site[op.What])
			g := guardFor(op)
			ruleBWhy := ""
			if os.Getenv("PRISMCHECK_RULEB_ONLY") != "" {
				g = "" // developer aid: show what rule B proves on its own
			}
			if g == "" && (op.What == "slice expression" || op.What == "slice index") {
				// rule B: bounds implied by the path conditions
				var bounds []ssa.Value
				switch in := op.In.(type) {
				case *ssa.Slice:
					bounds = []ssa.Value{in.Low, in.High}
				case *ssa.IndexAddr:
					bounds = []ssa.Value{in.Index}
				}
				arith := true
				for _, b := range bounds {
					if b != nil && !boundArithOK(b, wordBitsOf(p), 0) {
						arith = false
					}
				}
				if arith {
					// (1) the function on its own, for arbitrary arguments
					br := runFrom(f)
					if br.incomplete == "" {
						n, ok, how, whyNot := boundsProof(br.e, br.outs, op.In)
						if ok && n > 0 {
							g = fmt.Sprintf("B the bounds are implied by the conditions on every path reaching it (%d path contexts; e.g. %s)", n, how)
						} else if n == 0 {
							ruleBWhy = "the abstract interpretation of " + shortFn(f) + " does not reach it"
						} else {
							ruleBWhy = whyNot
						}
					} else {
						ruleBWhy = "the abstract interpretation of " + shortFn(f) + " is incomplete (" + br.incomplete + ")"
					}
					// (2) otherwise in its calling contexts: from every entry point that reaches it
					if g == "" && len(reachedFrom[f]) > 0 && !(len(reachedFrom[f]) == 1 && reachedFrom[f][0] == f) {
						all, total, how1 := true, 0, ""
						for _, root := range reachedFrom[f] {
							cr := runFrom(root)
							if cr.incomplete != "" {
								all = false
								ruleBWhy += "; from " + shortFn(root) + ": interpretation incomplete (" + cr.incomplete + ")"
								break
							}
							n, ok, how, whyNot := boundsProof(cr.e, cr.outs, op.In)
							if !ok || n == 0 {
								all = false
								if n == 0 {
									whyNot = "not reached"
								}
								ruleBWhy += "; from " + shortFn(root) + ": " + whyNot
								break
							}
							total += n
							how1 = how
						}
						if all && total > 0 {
							g = fmt.Sprintf("B the bounds are implied by the conditions on every path reaching it from the entry points (%d path contexts; e.g. %s)", total, how1)
						}
					}
					if g != "" {
						r.Assume("slices handed to the ICC tag parsers are shorter than 2^32 bytes (cut from tag data sized by 32-bit fields)")
					}
				} else {
					ruleBWhy = "the bound is computed with arithmetic narrower than 32 bits or a narrowing conversion"
				}
			}
			if g != "" {
				r.Hold("C09.P1", key, p.InstrPos(op.In), "guarded: "+g)
			} else {
				r.Violate("C09.P1", key, p.InstrPos(op.In), fmt.Sprintf("%s in %s runs outside any recover() (reached from %s) and is not protected by a recognised sound bounds check: hostile lengths/offsets can make it panic in the caller's goroutine%s", op.What, shortFn(f), unprot[f], func() string {
					if ruleBWhy != "" {
						return " [" + ruleBWhy + "]"
					}
					return ""
				}()))
			}
		}
	}
	r.Hold("C09.P1", "unprotected functions scanned", "-", fmt.Sprintf("%d functions outside recover frames, %d potentially panicking instructions examined", len(fns), nOps))
}

// ---------------------------------------------------------------------------
// A1

type makeFact struct {
	Pos    token.Pos
	Len    *Form
	Conds  []*BoolVal
	Engine *Engine
}

// nonnegAtom: atoms that denote non-negative quantities.
func nonnegForm(e *Engine, f *Form, minConst int64) bool {
	if _, ok := f.D.constVal(); !ok {
		return false
	}
	for _, t := range f.N.t {
		if len(t.m.vars) == 0 {
			if t.c.Cmp(big.NewRat(minConst, 1)) < 0 {
				return false
			}
			continue
		}
		if t.c.Sign() < 0 {
			return false
		}
	}
	// a missing constant term is 0
	if minConst > 0 {
		if _, ok := f.N.t[""]; !ok {
			return false
		}
	}
	return true
}

// sourceBits sums the input bits a form is built from; -1 when an atom is not a byte / bit-vector / len.
func sourceBits(e *Engine, f *Form) (bits int, lenBound bool, ok bool) {
	if _, isC := f.D.constVal(); !isC {
		return 0, false, false
	}
	for a := range f.Atoms() {
		at := e.A.get(a)
		if at == nil {
			return 0, false, false
		}
		switch {
		case at.Kind == "byte":
			bits += 8
		case at.Kind == "bv":
			for _, rr := range at.BV.Runs() {
				if rr.Kind == 'a' {
					bits += rr.Width
				} else if rr.Kind == '?' {
					return 0, false, false
				}
			}
		case at.Fn == "index":
			bits += 8
		case at.Fn == "len":
			lenBound = true
		case at.Fn == "idiv" && len(at.Args) == 2:
			if inner, isF := at.Args[0].(*Form); isF {
				b, lb, ok2 := sourceBits(e, inner)
				if !ok2 {
					return 0, false, false
				}
				bits += b
				lenBound = lenBound || lb
			}
		default:
			return 0, false, false
		}
	}
	return bits, lenBound, true
}

// unIdiv replaces idiv(X, c) atoms by X (an upper bound) in a single-atom form.
func unIdiv(e *Engine, f *Form) *Form {
	if a, ok := f.SingleAtom(); ok {
		if at := e.A.get(a); at != nil && at.Fn == "idiv" && len(at.Args) == 2 {
			if inner, isF := at.Args[0].(*Form); isF {
				return inner
			}
		}
	}
	return f
}

// boundedByHeldData: a preceding condition `A <= B` / `A < B` (or the
// negation of > / >=) with B containing a len(...) of data held and A >= L.
func boundedByHeldData(e *Engine, L *Form, conds []*BoolVal) bool {
	L = unIdiv(e, L)
	for _, c := range conds {
		a, okA := c.A.(*Form)
		b, okB := c.B.(*Form)
		if !okA || !okB {
			continue
		}
		var lo, hi *Form
		switch c.Op {
		case "<=", "<":
			lo, hi = a, b
		case ">=", ">":
			lo, hi = b, a
		default:
			continue
		}
		hasLen := false
		for at := range hi.Atoms() {
			if x := e.A.get(at); x != nil && x.Fn == "len" {
				hasLen = true
			}
		}
		if !hasLen {
			continue
		}
		// lo − L must be a non-negative form (so L <= lo <= hi)
		if nonnegForm(e, lo.Sub(L), 0) {
			return true
		}
		// hi − L non-negative except for len terms: L <= hi + const
		d := hi.Sub(L)
		if nonnegForm(e, d, -64) {
			return true
		}
	}
	return false
}

// noWrap: a subtraction in L is preceded by a condition implying L >= 0.
func noWrap(e *Engine, L *Form, conds []*BoolVal) bool {
	neg := false
	for _, t := range L.N.t {
		if t.c.Sign() < 0 {
			neg = true
		}
	}
	if !neg {
		return true
	}
	for _, c := range conds {
		a, okA := c.A.(*Form)
		b, okB := c.B.(*Form)
		if !okA || !okB {
			continue
		}
		var d *Form
		min := int64(0)
		switch c.Op {
		case ">":
			d, min = a.Sub(b), -1 // a−b >= 1
		case "<":
			d, min = b.Sub(a), -1
		case ">=":
			d, min = a.Sub(b), 0
		case "<=":
			d, min = b.Sub(a), 0
		case "!=":
			// X != 0 with X non-negative: X >= 1
			if z, isC := b.Const(); isC && z.Sign() == 0 {
				d, min = a, -1
			} else if z, isC := a.Const(); isC && z.Sign() == 0 {
				d, min = b, -1
			} else {
				continue
			}
		default:
			continue
		}
		if nonnegForm(e, L.Sub(d), min) {
			return true
		}
	}
	return false
}

func checkAllocBounds(p *Program, r *Report) {
	// all make sites of meta/...
	type site struct {
		Fn  *ssa.Function
		In  *ssa.MakeSlice
		Key string
	}
	var sites []site
	for _, f := range p.SrcFuncs() {
		if !inMeta(f) {
			continue
		}
		n := 0
		for _, b := range f.Blocks {
			for _, in := range b.Instrs {
				if mk, ok := in.(*ssa.MakeSlice); ok {
					n++
					sites = append(sites, site{f, mk, fmt.Sprintf("%s make#%d", shortFn(f), n)})
				}
			}
		}
	}
	// abstract runs that cover them
	var facts []makeFact
	collect := func(e *Engine, outs []Outcome) {
		for _, o := range outs {
			if o.Kind == "stuck" {
				continue
			}
			for _, ev := range o.St.events {
				if ev.Kind != "make" {
					continue
				}
				n := ev.CondIdx
				if n > len(o.St.conds) {
					n = len(o.St.conds)
				}
				for _, a := range ev.Args {
					// length and capacity are both allocation sizes
					if L, _ := a.(*Form); L != nil {
						facts = append(facts, makeFact{ev.Pos, o.St.resolve(L), o.St.conds[:n], e})
					}
				}
			}
		}
	}
	if pr := pngRun(p); pr != nil {
		collect(pr.E, pr.Outs)
	}
	if pr := webpRun(p); pr != nil {
		collect(pr.E, pr.Outs)
	}
	if pr := jpegRun(p, true); pr != nil {
		collect(pr.E, pr.Outs)
	}
	for _, spec := range []struct{ pkg, typ, name string }{
		{"meta/jpegmeta", "", "readSegment"},
		{"meta/icc", "ProfileReader", "readTagTable"},
		{"meta/icc", "", "parseTextDescription"},
		{"meta/icc", "", "parseMultiLocalisedUnicode"},
		{"meta/icc", "", "decodeUTF16BE"},
	} {
		var fn *ssa.Function
		if spec.typ != "" {
			fn = p.Method(spec.pkg, spec.typ, spec.name)
		} else {
			fn = p.Func(spec.pkg, spec.name)
		}
		if fn == nil {
			continue
		}
		e := NewEngine(p)
		e.EvalInits = true
		e.MaxIter, e.MaxForks = 3, 3
		st := newState()
		s := &Stream{Name: "in"}
		st.pos[s] = formInt(0)
		collect(e, e.Run(fn, setupArgs(e, st, fn, s), st))
	}
	for _, s := range sites {
		r.SawFn(shortFn(s.Fn))
		var mine []makeFact
		for _, f := range facts {
			if f.Pos == s.In.Pos() {
				mine = append(mine, f)
			}
		}
		pos := p.InstrPos(s.In)
		_, lenConst := constInt(s.In.Len)
		capConst := s.In.Cap == nil
		if s.In.Cap != nil {
			_, capConst = constInt(s.In.Cap)
		}
		if lenConst && capConst {
			r.Hold("C09.A1", s.Key, pos, "constant length and capacity")
			continue
		}
		if len(mine) == 0 && heldLenExpr(s.In.Len, nil) && (s.In.Cap == nil || heldLenExpr(s.In.Cap, nil)) {
			r.Hold("C09.A1", s.Key, pos, "sized by constants and len()/cap() of values already held (no input-declared quantity, no accumulation)")
			continue
		}
		if len(mine) == 0 {
			r.Undecide("C09.A1", s.Key, pos, "this allocation site is not reached by the abstract interpretation of any parser entry: its size cannot be judged")
			continue
		}
		good, why, how := true, "", ""
		for _, f := range mine {
			e := f.Engine
			if _, isC := f.Len.Const(); isC {
				how = "constant on the path"
				continue
			}
			bits, lenBound, ok := sourceBits(e, f.Len)
			switch {
			case ok && bits <= 16 && !lenBound:
				how = fmt.Sprintf("built from %d input bits (<= 64 KiB)", bits)
			case boundedByHeldData(e, f.Len, f.Conds):
				how = "bounded by a preceding comparison with the length of data already held"
			case ok && lenBound && bits == 0:
				how = "a function of the length of data already held"
			default:
				good = false
				why = fmt.Sprintf("the size %s comes from %d input-declared bits and no earlier condition on the path bounds it by the data actually held: a few bytes of input can demand gigabytes", trunc(f.Len.String(), 120), bits)
				if strings.Contains(f.Len.String(), "undef:") {
					why = "the size is a running total accumulated across loop iterations; the checker cannot bound such a sum by the data actually held (the summands may alias the same bytes, as in defect D9), so the allocation is not shown to be proportional to the input"
				}
			}
			if good && !noWrap(e, f.Len, f.Conds) {
				good = false
				why = fmt.Sprintf("the size %s contains a subtraction that no earlier condition protects from wrapping around (e.g. count − 1 with count = 0 becomes 4 GiB)", trunc(f.Len.String(), 120))
			}
			if !good {
				break
			}
		}
		r.Check(good, "C09.A1", s.Key, pos, fmt.Sprintf("on %d explored paths: %s", len(mine), how), why)
	}
	// expected-zero scan: Grow / ReadAll / make(map, n) sized by input
	n, bad := 0, ""
	for _, f := range p.SrcFuncs() {
		if !inMeta(f) {
			continue
		}
		for _, b := range f.Blocks {
			for _, in := range b.Instrs {
				switch in := in.(type) {
				case *ssa.Call:
					cf := staticCallee(in)
					if cf != nil && cf.Name() == "Grow" && cf.Signature.Recv() != nil {
						n++
						if _, isC := constInt(in.Call.Args[len(in.Call.Args)-1]); !isC && !heldLenExpr(in.Call.Args[len(in.Call.Args)-1], nil) {
							bad = "Grow with a size that is neither constant nor the length of data already held at " + p.InstrPos(in)
						}
					}
				case *ssa.MakeMap:
					if in.Reserve != nil {
						n++
						if _, isC := constInt(in.Reserve); !isC {
							bad = "make(map, n) with a non-constant reserve at " + p.InstrPos(in)
						}
					}
				}
			}
		}
	}
	r.Check(bad == "", "C09.A1", "no pre-sizing by declared lengths", "-", fmt.Sprintf("%d Grow/reserve sites, none sized by input", n), bad)
}

// ---------------------------------------------------------------------------
// A2: allocations inside input-bounded loops

// loopsOf returns the natural loops of fn as header -> body blocks.
func loopsOf(fn *ssa.Function) map[*ssa.BasicBlock]map[*ssa.BasicBlock]bool {
	loops := map[*ssa.BasicBlock]map[*ssa.BasicBlock]bool{}
	for _, b := range fn.Blocks {
		for _, s := range b.Succs {
			if s.Dominates(b) { // back edge b -> s
				body := loops[s]
				if body == nil {
					body = map[*ssa.BasicBlock]bool{s: true}
					loops[s] = body
				}
				var stack []*ssa.BasicBlock
				if !body[b] {
					body[b] = true
					stack = append(stack, b)
				}
				for len(stack) > 0 {
					x := stack[len(stack)-1]
					stack = stack[:len(stack)-1]
					for _, pr := range x.Preds {
						if !body[pr] {
							body[pr] = true
							stack = append(stack, pr)
						}
					}
				}
			}
		}
	}
	return loops
}

// narrowValue: the value is a constant, at most 16 bits wide at its source,
// or a len()/cap() of held data (through conversions and arithmetic with constants).
// heldLenExpr: v is built only from constants, len()/cap() of values, sums of
// those and multiplication by a constant — no input byte, no loop-carried
// accumulation (a phi reached again through its own edges is refused).
func heldLenExpr(v ssa.Value, seen map[ssa.Value]bool) bool {
	if seen == nil {
		seen = map[ssa.Value]bool{}
	}
	if seen[v] {
		return false
	}
	seen[v] = true
	defer delete(seen, v)
	switch x := v.(type) {
	case *ssa.Const:
		return true
	case *ssa.Convert:
		return heldLenExpr(x.X, seen)
	case *ssa.ChangeType:
		return heldLenExpr(x.X, seen)
	case *ssa.Call:
		if b, ok := x.Call.Value.(*ssa.Builtin); ok && (b.Name() == "len" || b.Name() == "cap") {
			return true
		}
	case *ssa.BinOp:
		switch x.Op {
		case token.ADD:
			return heldLenExpr(x.X, seen) && heldLenExpr(x.Y, seen)
		case token.MUL:
			_, cx := x.X.(*ssa.Const)
			_, cy := x.Y.(*ssa.Const)
			return (cx || cy) && heldLenExpr(x.X, seen) && heldLenExpr(x.Y, seen)
		}
	case *ssa.Phi:
		for _, e := range x.Edges {
			if !heldLenExpr(e, seen) {
				return false
			}
		}
		return true
	}
	return false
}

func narrowValue(v ssa.Value, depth int) bool {
	if depth > 8 {
		return false
	}
	switch x := v.(type) {
	case *ssa.Const:
		return true
	case *ssa.Convert:
		if w, _, ok := intTypeInfo(x.X.Type(), 64); ok && w <= 16 {
			return true
		}
		return narrowValue(x.X, depth+1)
	case *ssa.ChangeType:
		return narrowValue(x.X, depth+1)
	case *ssa.BinOp:
		return narrowValue(x.X, depth+1) && narrowValue(x.Y, depth+1)
	case *ssa.Call:
		if b, ok := x.Call.Value.(*ssa.Builtin); ok && (b.Name() == "len" || b.Name() == "cap") {
			return true
		}
	case *ssa.Phi:
		for _, e := range x.Edges {
			if e != v && !narrowValue(e, depth+1) {
				return false
			}
		}
		return true
	case *ssa.Parameter:
		// an unexported function's parameter: narrow when every call site passes a narrow value
		fn := x.Parent()
		if fn == nil || fn.Pkg == nil || token.IsExported(fn.Name()) || narrowProg == nil {
			break
		}
		idx := -1
		for i, prm := range fn.Params {
			if prm == x {
				idx = i
			}
		}
		n := 0
		for _, g := range narrowProg.SrcFuncs() {
			for _, b := range g.Blocks {
				for _, in := range b.Instrs {
					c, ok := in.(ssa.CallInstruction)
					if !ok || staticCallee(c) != fn {
						continue
					}
					args := c.Common().Args
					if idx < 0 || idx >= len(args) || !narrowValue(args[idx], depth+1) {
						return false
					}
					n++
				}
			}
		}
		if n > 0 {
			return true
		}
	}
	if w, _, ok := intTypeInfo(v.Type(), 64); ok && w <= 16 {
		return true
	}
	return false
}

// narrowProg gives narrowValue access to the call sites of the module.
var narrowProg *Program

func checkLoopAllocs(p *Program, r *Report) {
	n := 0
	for _, f := range p.SrcFuncs() {
		if !inMeta(f) {
			continue
		}
		loops := loopsOf(f)
		site := 0
		for h, body := range loops {
			// is the trip count input-declared (not constant / len-bounded)?
			wide := true
			for _, in := range h.Instrs {
				phi, ok := in.(*ssa.Phi)
				if !ok {
					break
				}
				if iv := findIndVar(phi); iv != nil && narrowValue(iv.Limit, 0) {
					wide = false
				}
			}
			if !wide {
				continue
			}
			// copies: a spread append, a string/[]byte/[]rune conversion, or a call of a module
			// function that copies a slice or string argument — each one allocates as many bytes
			// as the data it is given, and inside this loop it is given input-declared ranges
			for b := range body {
				for _, in := range b.Instrs {
					what := ""
					switch x := in.(type) {
					case *ssa.Call:
						what = copyingCall(p, x, 0, func(v ssa.Value) bool { return perIterationBuffer(v, body) })
					case *ssa.Convert:
						what = copyingConvert(x)
					}
					if what == "" {
						continue
					}
					n++
					site++
					key := fmt.Sprintf("%s loop-copy#%d", shortFn(f), site)
					r.Violate("C09.A2", key, p.InstrPos(in), fmt.Sprintf("%s copies data (%s) inside a loop whose trip count is declared by the input; each copy is as large as the range it is given, which is bounded only by the whole input, not by the bytes this iteration consumes: k entries can each claim the same large range, so memory grows quadratically with the input", shortFn(f), what))
				}
			}
			for b := range body {
				for _, in := range b.Instrs {
					mk, ok := in.(*ssa.MakeSlice)
					if !ok {
						continue
					}
					n++
					site++
					key := fmt.Sprintf("%s loop-make#%d", shortFn(f), site)
					if isConstOrNarrowSource(mk.Len) {
						r.Hold("C09.A2", key, p.InstrPos(mk), "size is constant or built from <= 16 input bits: bounded per iteration")
						continue
					}
					r.Violate("C09.A2", key, p.InstrPos(mk), fmt.Sprintf("%s allocates make(%s) inside a loop whose trip count is declared by the input; the size is bounded only by the whole input, not by the bytes this iteration consumes, so k records can each claim the whole tag: memory and time grow quadratically with the input (not a fixed linear function of it)", shortFn(f), mk.Len.String()))
				}
			}
		}
	}
	if n == 0 {
		r.Hold("C09.A2", "scan", "-", "no allocation inside an input-bounded loop")
	}
}

// copyingConvert: string(b) / []byte(s) / []rune(s) of non-constant data.
func copyingConvert(x *ssa.Convert) string {
	if _, isC := x.X.(*ssa.Const); isC {
		return ""
	}
	from, to := x.X.Type().Underlying(), x.Type().Underlying()
	isStr := func(t types.Type) bool { b, ok := t.(*types.Basic); return ok && b.Info()&types.IsString != 0 }
	isSl := func(t types.Type) bool { _, ok := t.(*types.Slice); return ok }
	if (isStr(from) && isSl(to)) || (isSl(from) && isStr(to)) {
		return "conversion " + x.X.Type().String() + " → " + x.Type().String()
	}
	return ""
}

// copyingCall: append(dst, src...) spreading an existing slice of non-narrow
// length, or a call of a module function that (within three calls) copies one
// of its slice/string parameters that way.
func copyingCall(p *Program, c *ssa.Call, depth int, bounded func(ssa.Value) bool) string {
	if b, ok := c.Call.Value.(*ssa.Builtin); ok {
		if b.Name() == "append" && len(c.Call.Args) == 2 {
			src := c.Call.Args[1]
			if _, lit := sliceLitElems(src); lit {
				return ""
			}
			if isBoundedSlice(src) || (bounded != nil && bounded(src)) {
				return ""
			}
			return "append(…, " + src.Name() + "...)"
		}
		return ""
	}
	callee := staticCallee(c)
	if callee == nil || !isPrismFn(callee) || depth > 2 || len(callee.Blocks) == 0 {
		return ""
	}
	// which parameters receive a slice or string of unbounded length?
	for ai, a := range c.Call.Args {
		if ai >= len(callee.Params) {
			break
		}
		switch a.Type().Underlying().(type) {
		case *types.Slice:
		case *types.Basic:
			if bt := a.Type().Underlying().(*types.Basic); bt.Info()&types.IsString == 0 {
				continue
			}
		default:
			continue
		}
		if isBoundedSlice(a) || (bounded != nil && bounded(a)) {
			continue
		}
		S := derivedAddrs(callee, map[ssa.Value]bool{callee.Params[ai]: true})
		for _, b := range callee.Blocks {
			for _, in := range b.Instrs {
				switch x := in.(type) {
				case *ssa.Convert:
					if S[x.X] && copyingConvert(x) != "" {
						return shortFn(callee) + ": " + copyingConvert(x)
					}
				case *ssa.Call:
					if bi, ok := x.Call.Value.(*ssa.Builtin); ok && bi.Name() == "append" && len(x.Call.Args) == 2 && S[x.Call.Args[1]] {
						return shortFn(callee) + ": append(…, " + callee.Params[ai].Name() + "...)"
					}
					for _, arg := range x.Call.Args {
						if S[arg] {
							if w := copyingCall(p, x, depth+1, nil); w != "" {
								return w
							}
						}
					}
				case *ssa.MakeSlice:
					if ln, ok := x.Len.(*ssa.Call); ok {
						if bi, isB := ln.Call.Value.(*ssa.Builtin); isB && bi.Name() == "len" && S[ln.Call.Args[0]] {
							return shortFn(callee) + ": make(len(" + callee.Params[ai].Name() + "))"
						}
					}
				}
			}
		}
	}
	return ""
}

// perIterationBuffer: the contents of a strings.Builder / bytes.Buffer that is
// created inside the loop body — what one iteration wrote into it, i.e. bytes
// this iteration consumed (or copies that are judged where they are made).
func perIterationBuffer(v ssa.Value, body map[*ssa.BasicBlock]bool) bool {
	c, ok := v.(*ssa.Call)
	if !ok {
		return false
	}
	cf := staticCallee(c)
	if cf == nil || cf.Signature.Recv() == nil || len(c.Call.Args) == 0 {
		return false
	}
	rt := cf.Signature.Recv().Type()
	if !(namedIs(rt, "strings", "Builder") && cf.Name() == "String") && !(namedIs(rt, "bytes", "Buffer") && (cf.Name() == "Bytes" || cf.Name() == "String")) {
		return false
	}
	al, ok := c.Call.Args[0].(*ssa.Alloc)
	return ok && body[al.Block()]
}

// isBoundedSlice: a slice whose length is a constant or at most 16 input bits
// (s[a:b] with constant/narrow b−a is not attempted: a[lo:lo+k] with constant k).
func isBoundedSlice(v ssa.Value) bool {
	switch x := v.(type) {
	case *ssa.Const:
		return true
	case *ssa.Slice:
		if at, ok := x.X.Type().Underlying().(*types.Pointer); ok {
			if _, isArr := at.Elem().Underlying().(*types.Array); isArr {
				return true // a slice of a fixed-size array
			}
		}
		if x.High != nil && x.Low != nil {
			if hb, ok := x.High.(*ssa.BinOp); ok && hb.Op == token.ADD {
				if (hb.X == x.Low && isConstOrNarrowSource(hb.Y)) || (hb.Y == x.Low && isConstOrNarrowSource(hb.X)) {
					return true
				}
			}
		}
		if x.High != nil && x.Low == nil && isConstOrNarrowSource(x.High) {
			return true
		}
	}
	return false
}

func isConstOrNarrowSource(v ssa.Value) bool {
	switch x := v.(type) {
	case *ssa.Const:
		return true
	case *ssa.Convert:
		if w, _, ok := intTypeInfo(x.X.Type(), 64); ok && w <= 16 {
			return true
		}
		return isConstOrNarrowSource(x.X)
	case *ssa.BinOp:
		return isConstOrNarrowSource(x.X) && isConstOrNarrowSource(x.Y)
	}
	if w, _, ok := intTypeInfo(v.Type(), 64); ok && w <= 16 {
		return true
	}
	return false
}

// ---------------------------------------------------------------------------
// L1 / L2

// readingFns computes the prism functions every successful return of which
// has passed a stream read (so that a loop calling them makes progress or fails).
func readingFns(p *Program) map[*ssa.Function]bool {
	isPrim := func(c ssa.CallInstruction) bool {
		cc := c.Common()
		if cc.IsInvoke() {
			n := cc.Method.Name()
			return n == "ReadByte" || n == "Read"
		}
		f := staticCallee(c)
		if f == nil {
			return false
		}
		switch {
		case fnIs(f, "io", "ReadFull"), fnIs(f, "io", "CopyN"), fnIs(f, "io", "ReadAtLeast"):
			return true
		case f.Signature.Recv() != nil && (f.Name() == "ReadByte" || f.Name() == "Read") && (namedIs(f.Signature.Recv().Type(), "bytes", "Reader") || namedIs(f.Signature.Recv().Type(), "bufio", "Reader") || namedIs(f.Signature.Recv().Type(), "bytes", "Buffer")):
			return true
		}
		return false
	}
	R := map[*ssa.Function]bool{}
	changed := true
	for changed {
		changed = false
		for _, f := range p.SrcFuncs() {
			if R[f] || !inMeta(f) || len(f.Blocks) == 0 {
				continue
			}
			// can a nil-error return be reached without passing a block that calls a reader?
			readBlock := map[*ssa.BasicBlock]bool{}
			for _, b := range f.Blocks {
				for _, in := range b.Instrs {
					if c, ok := in.(ssa.CallInstruction); ok {
						if isPrim(c) || R[staticCallee(c)] {
							readBlock[b] = true
						}
					}
				}
			}
			seen := map[*ssa.BasicBlock]bool{}
			escapes := false
			var walk func(b *ssa.BasicBlock)
			walk = func(b *ssa.BasicBlock) {
				if seen[b] || readBlock[b] {
					return
				}
				seen[b] = true
				if ret, ok := b.Instrs[len(b.Instrs)-1].(*ssa.Return); ok {
					// a return that may carry a nil error
					nilErr := len(ret.Results) == 0
					for _, rv := range ret.Results {
						if isErrorType(rv.Type()) {
							if isNilConst(rv) {
								nilErr = true
							}
						}
					}
					if nilErr || !returnsError(f) {
						escapes = true
					}
				}
				for _, s := range b.Succs {
					walk(s)
				}
			}
			walk(f.Blocks[0])
			if !escapes {
				R[f] = true
				changed = true
			}
		}
	}
	return R
}

func returnsError(f *ssa.Function) bool {
	res := f.Signature.Results()
	for i := 0; i < res.Len(); i++ {
		if isErrorType(res.At(i).Type()) {
			return true
		}
	}
	return false
}

func checkLoopProgress(p *Program, r *Report) {
	R := readingFns(p)
	isRead := func(in ssa.Instruction) bool {
		c, ok := in.(ssa.CallInstruction)
		if !ok {
			return false
		}
		cc := c.Common()
		if cc.IsInvoke() {
			return cc.Method.Name() == "ReadByte" || cc.Method.Name() == "Read" || cc.Method.Name() == "Discard"
		}
		f := staticCallee(c)
		if f == nil {
			return false
		}
		if R[f] || fnIs(f, "io", "ReadFull") || fnIs(f, "io", "CopyN") {
			return true
		}
		return f.Signature.Recv() != nil && (f.Name() == "ReadByte" || f.Name() == "Read" || f.Name() == "Discard")
	}
	nLoops := 0
	for _, f := range p.SrcFuncs() {
		if !inMeta(f) {
			continue
		}
		loops := loopsOf(f)
		var heads []*ssa.BasicBlock
		for h := range loops {
			heads = append(heads, h)
		}
		sort.Slice(heads, func(i, j int) bool { return heads[i].Index < heads[j].Index })
		for li, h := range heads {
			body := loops[h]
			nLoops++
			key := fmt.Sprintf("%s loop#%d", shortFn(f), li+1)
			pos := p.InstrPos(h.Instrs[0])
			// (a) counted loop with a constant / len / narrow bound, or a range loop
			bounded := ""
			for _, in := range h.Instrs {
				phi, ok := in.(*ssa.Phi)
				if !ok {
					break
				}
				if iv := findIndVar(phi); iv != nil && (iv.Op == token.LSS || iv.Op == token.LEQ) {
					if s, isC := constInt(iv.Step); isC && s > 0 && !iv.Down && narrowValue(iv.Limit, 0) {
						bounded = "trip count bounded by a constant, a len() of held data or a <= 16-bit field"
					}
				}
				// counting down from a narrow start to a constant
				if iv := findIndVar(phi); iv != nil && iv.Down && (iv.Op == token.GTR || iv.Op == token.GEQ) {
					if s, isC := constInt(iv.Step); isC && s > 0 && narrowValue(iv.Init, 0) {
						if _, limC := constInt(iv.Limit); limC {
							bounded = "counts down from a constant, a len() of held data or a <= 16-bit field"
						}
					}
				}
			}
			for b := range body {
				for _, in := range b.Instrs {
					if _, ok := in.(*ssa.Next); ok {
						bounded = "range over a map/slice (bounded by its size)"
					}
				}
			}
			// (a') a slice consumed from the front: s = [s0, s[c:]] with c > 0,
			// the loop continuing only while len(s) >= c' > 0: each iteration
			// shortens held data, so the trip count is bounded by its length
			if ifi, ok := h.Instrs[len(h.Instrs)-1].(*ssa.If); ok && bounded == "" {
				for _, in := range h.Instrs {
					phi, ok := in.(*ssa.Phi)
					if !ok {
						break
					}
					if _, isSl := phi.Type().Underlying().(*types.Slice); !isSl || len(phi.Edges) != 2 {
						continue
					}
					shrinks := false
					for _, ed := range phi.Edges {
						if sl, ok := ed.(*ssa.Slice); ok && sl.X == ssa.Value(phi) && sl.High == nil && sl.Low != nil {
							if c, isC := constInt(sl.Low); isC && c > 0 {
								shrinks = true
							}
						}
					}
					if !shrinks {
						continue
					}
					if cmp, ok := ifi.Cond.(*ssa.BinOp); ok && lenOf(cmp.X) == ssa.Value(phi) && body[h.Succs[0]] {
						if k, isC := constInt(cmp.Y); isC && ((cmp.Op == token.GEQ && k > 0) || (cmp.Op == token.GTR && k >= 0)) {
							bounded = "a slice of held data consumed from the front (s = s[c:], c > 0, while len(s) >= k > 0)"
						}
					}
				}
			}
			if bounded != "" {
				r.Hold("C09.L1", key, pos, bounded)
				continue
			}
			// (b) every cycle passes a checked stream read
			readBlock := map[*ssa.BasicBlock]bool{}
			for b := range body {
				for _, in := range b.Instrs {
					if isRead(in) {
						// the read only bounds the loop if its failure is looked at
						if c, ok := in.(*ssa.Call); ok {
							if ei := errIndex(c); ei >= 0 {
								if uses, _ := resultUses(c, ei); len(uses) == 0 {
									continue
								}
							}
						}
						readBlock[b] = true
					}
				}
			}
			cycleWithoutRead := false
			seen := map[*ssa.BasicBlock]bool{}
			var walk func(b *ssa.BasicBlock)
			walk = func(b *ssa.BasicBlock) {
				for _, s := range b.Succs {
					if !body[s] {
						continue
					}
					if s == h {
						cycleWithoutRead = true
						return
					}
					if seen[s] || readBlock[s] {
						continue
					}
					seen[s] = true
					walk(s)
				}
			}
			if !readBlock[h] {
				walk(h)
			}
			r.Check(!cycleWithoutRead, "C09.L1", key, pos, "every iteration performs a stream read whose failure (EOF included) leaves the loop: the number of iterations is bounded by the input length", "a cycle of this loop performs no stream read whose error is examined, and its bound is declared by the input: after EOF a few declared bytes make it spin for up to 2^32 iterations")
		}
	}
	// L2: no repositioning of readers anywhere in meta/...
	bad := ""
	n := 0
	for _, f := range p.SrcFuncs() {
		if !inMeta(f) {
			continue
		}
		for _, b := range f.Blocks {
			for _, in := range b.Instrs {
				c, ok := in.(ssa.CallInstruction)
				if !ok {
					continue
				}
				name := ""
				if c.Common().IsInvoke() {
					name = c.Common().Method.Name()
				} else if cf := staticCallee(c); cf != nil && cf.Signature.Recv() != nil {
					name = cf.Name()
				}
				n++
				if name == "Seek" && len(c.Common().Args) >= 2 {
					// accepted idiom: Seek(off, io.SeekCurrent) with an offset converted from an
					// unsigned value moves forward only (reads past the end return EOF)
					args := c.Common().Args
					off, whence := args[len(args)-2], args[len(args)-1]
					if w, isC := constInt(whence); isC && w == 1 {
						if cv, ok := off.(*ssa.Convert); ok && nonnegSource(cv.X, 0) {
							if sw, _, sInt := intTypeInfo(cv.X.Type(), 64); sInt && sw < 64 {
								continue
							}
						}
					}
				}
				// emptying or shortening a write buffer (bytes.Buffer / strings.Builder Reset, Truncate) drops
				// bytes, it does not bring consumed input back; Discard skips forward only
				if name == "Reset" || name == "Truncate" {
					var rt types.Type
					if cf := staticCallee(c); cf != nil && cf.Signature.Recv() != nil {
						rt = cf.Signature.Recv().Type()
					}
					if rt != nil && (namedIs(rt, "bytes", "Buffer") || namedIs(rt, "strings", "Builder")) {
						continue
					}
				}
				switch name {
				case "Seek", "UnreadByte", "UnreadRune", "Reset", "Peek", "Truncate":
					bad = fmt.Sprintf("%s calls %s at %s: repositioning a reader lets input-declared values move it backwards so that the same bytes are parsed again without ever reaching EOF", shortFn(f), name, p.InstrPos(in))
				}
			}
		}
	}
	r.Check(bad == "", "C09.L2", "no reader repositioning", "-", fmt.Sprintf("%d calls scanned: no Seek/Unread*/Reset/Peek on any reader in meta/...; stream positions only move forward", n), bad)
	_ = nLoops
}

var _ = strings.Contains

// ---------------------------------------------------------------------------
// L3: no recursion among the functions of the parsing packages. The call
// graph is the one the code spells out: static callees, the closures a
// function creates (they run on its behalf), deferred and go calls. Interface
// calls in these packages go to the stream (io.Reader/ByteReader), never back
// into the module. A cycle means a stack depth that follows the input (one
// frame per fill byte, per nested tag, …); exhausting the goroutine stack is
// a fatal error that no recover() stops.
func checkNoRecursion(p *Program, r *Report) {
	rule := "C09.L3"
	callees := map[*ssa.Function][]*ssa.Function{}
	var fns []*ssa.Function
	for _, f := range p.SrcFuncs() {
		if !inMeta(f) || len(f.Blocks) == 0 {
			continue
		}
		fns = append(fns, f)
		seen := map[*ssa.Function]bool{}
		add := func(g *ssa.Function) {
			if g != nil && !seen[g] && isPrismFn(g) {
				seen[g] = true
				callees[f] = append(callees[f], g)
			}
		}
		for _, b := range f.Blocks {
			for _, in := range b.Instrs {
				if c, ok := in.(ssa.CallInstruction); ok {
					add(staticCallee(c))
				}
				if mc, ok := in.(*ssa.MakeClosure); ok {
					if g, ok := mc.Fn.(*ssa.Function); ok {
						add(g)
					}
				}
				// a function value passed along or stored may be called later on this stack
				for _, op := range in.Operands(nil) {
					if op == nil || *op == nil {
						continue
					}
					if g, ok := (*op).(*ssa.Function); ok {
						add(g)
					}
				}
			}
		}
	}
	sort.Slice(fns, func(i, j int) bool { return shortFn(fns[i]) < shortFn(fns[j]) })
	// which functions reach themselves?
	n := 0
	for _, f := range fns {
		n++
		r.SawFn(shortFn(f))
		var path []string
		seen := map[*ssa.Function]bool{}
		var dfs func(g *ssa.Function, trail []string) bool
		dfs = func(g *ssa.Function, trail []string) bool {
			for _, h := range callees[g] {
				if h == f {
					path = append(trail, shortFn(h))
					return true
				}
				if seen[h] {
					continue
				}
				seen[h] = true
				if dfs(h, append(trail, shortFn(h))) {
					return true
				}
			}
			return false
		}
		if dfs(f, []string{shortFn(f)}) {
			if len(path) == 2 {
				if n, ok := descendsFixedList(p, f); ok {
					r.Hold(rule, shortFn(f), p.FnPos(f), fmt.Sprintf("calls itself only on the tail of a list that every outside caller takes from an array of %d elements: depth <= %d, a constant of the code", n, n+1))
					continue
				}
			}
			r.Violate(rule, shortFn(f), p.FnPos(f), "the function can call itself ("+strings.Join(path, " → ")+"): the stack grows with a quantity the input controls, and a stack overflow is fatal even under recover()")
		}
	}
	r.Check(n > 0, rule, "parsing packages are recursion-free", "-", fmt.Sprintf("%d functions of meta/... examined, none on a call cycle", n), "no function examined")
}

// descendsFixedList: f calls itself (directly, nowhere else on a cycle) only with
// parameter i replaced by param_i[k:] (constant k >= 1), and every call of f from
// outside passes, in that position, the whole of an array whose length is part of
// its type (a package-level table or a composite literal). The recursion depth is
// then bounded by that length.
func descendsFixedList(p *Program, f *ssa.Function) (int64, bool) {
	pos := -1
	for _, b := range f.Blocks {
		for _, in := range b.Instrs {
			c, ok := in.(ssa.CallInstruction)
			if !ok || staticCallee(c) != f {
				continue
			}
			if _, isCall := in.(*ssa.Call); !isCall {
				return 0, false // go/defer of itself
			}
			found := -1
			for i, a := range c.Common().Args {
				sl, ok := a.(*ssa.Slice)
				if !ok || i >= len(f.Params) || sl.X != ssa.Value(f.Params[i]) || sl.High != nil || sl.Max != nil {
					continue
				}
				if k, ok := constInt(sl.Low); ok && k >= 1 {
					found = i
				}
			}
			if found < 0 || (pos >= 0 && pos != found) {
				return 0, false
			}
			pos = found
		}
	}
	if pos < 0 {
		return 0, false
	}
	var bound int64 = -1
	callers := 0
	for _, g := range p.SrcFuncs() {
		if g == f {
			continue
		}
		for _, b := range g.Blocks {
			for _, in := range b.Instrs {
				// f used as a value anywhere else: unknown callers
				for _, op := range in.Operands(nil) {
					if op != nil && *op == ssa.Value(f) {
						if c, ok := in.(ssa.CallInstruction); !ok || c.Common().Value != ssa.Value(f) {
							return 0, false
						}
					}
				}
				c, ok := in.(ssa.CallInstruction)
				if !ok || staticCallee(c) != f {
					continue
				}
				callers++
				args := c.Common().Args
				if pos >= len(args) {
					return 0, false
				}
				sl, ok := args[pos].(*ssa.Slice)
				if !ok || sl.Low != nil || sl.High != nil {
					return 0, false
				}
				pt, ok := sl.X.Type().Underlying().(*types.Pointer)
				if !ok {
					return 0, false
				}
				at, ok := pt.Elem().Underlying().(*types.Array)
				if !ok {
					return 0, false
				}
				if at.Len() > bound {
					bound = at.Len()
				}
			}
		}
	}
	if callers == 0 || bound < 0 || bound > 64 {
		return 0, false
	}
	return bound, true
}

// ---------------------------------------------------------------------------
// L4: a counting loop must be able to leave. `for i := byte(1); i <= n; i++` with
// n a byte never ends when n is 255: i wraps to 0 before it can exceed n (seed
// C09-P: the largest legal chunk count hangs the loader and grows a buffer
// without bound). Likewise an unsigned counter tested with `i >= 0`. Judged on
// every loop of the parsing packages whose header compares an integer phi that
// steps by one with <= (resp. >=): the bound must be a constant below the
// largest value of the counter's type (resp. above the smallest), or the counter
// must be wider than the bound's source.
func checkCounterWrap(p *Program, r *Report) {
	rule := "C09.L4"
	n := 0
	for _, f := range p.SrcFuncs() {
		if !inMeta(f) {
			continue
		}
		for _, b := range f.Blocks {
			if !isLoopHeader(b) || len(b.Instrs) == 0 {
				continue
			}
			ifi, ok := b.Instrs[len(b.Instrs)-1].(*ssa.If)
			if !ok {
				continue
			}
			bo, ok := ifi.Cond.(*ssa.BinOp)
			if !ok {
				continue
			}
			op, ctr, bound := bo.Op, bo.X, bo.Y
			if _, isPhi := stripConv(ctr).(*ssa.Phi); !isPhi {
				// n >= i  ≡  i <= n
				ctr, bound = bo.Y, bo.X
				switch op {
				case token.LEQ:
					op = token.GEQ
				case token.GEQ:
					op = token.LEQ
				default:
				}
			}
			ph, isPhi := stripConv(ctr).(*ssa.Phi)
			if !isPhi || ph.Block() != b || (op != token.LEQ && op != token.GEQ) {
				continue
			}
			iv := affinePhi(ph)
			if iv == nil {
				continue
			}
			w, signed, isInt := intTypeInfo(ph.Type(), 64)
			if !isInt {
				continue
			}
			n++
			key := fmt.Sprintf("%s loop at %s", shortFn(f), p.InstrPos(ifi))
			up := !iv.Down
			good, why := true, ""
			switch {
			case op == token.LEQ && up:
				// leaves only when i > bound: impossible if bound can be the type's maximum
				max := new(big.Int).Sub(new(big.Int).Lsh(big.NewInt(1), uint(w)), big.NewInt(1))
				if signed {
					max = new(big.Int).Sub(new(big.Int).Lsh(big.NewInt(1), uint(w-1)), big.NewInt(1))
				}
				if c, isC := constInt(bound); isC {
					good = big.NewInt(c).Cmp(max) < 0
				} else {
					bw, _, bInt := intTypeInfo(stripConv(bound).Type(), 64)
					// a narrower source cannot reach the counter's maximum; neither can a length
					// of data actually held (len(s) − 1, 2·len(s), …) in a signed 64-bit counter
					good = (bInt && bw < w) || (signed && w == 64 && heldLenExpr(minusConst(bound), nil))
				}
				if !good {
					why = fmt.Sprintf("the %d-bit counter is compared with <= against a bound that can be the largest value of its type: incrementing wraps to 0 and the loop never ends", w)
				}
			case op == token.GEQ && !up:
				if c, isC := constInt(bound); isC {
					good = signed || c > 0
				} else {
					good = signed
				}
				if !good {
					why = "an unsigned counter counting down is compared with >= against a bound that can be 0: decrementing wraps to the maximum and the loop never ends"
				}
			}
			r.Check(good, rule, key, p.InstrPos(ifi), "the counter can pass its bound without wrapping", why)
		}
	}
	r.Check(true, rule, "counting loops can terminate", "-", fmt.Sprintf("%d loops with an inclusive bound examined", n), "")
}

func stripConv(v ssa.Value) ssa.Value {
	for {
		switch x := v.(type) {
		case *ssa.Convert:
			v = x.X
		case *ssa.ChangeType:
			v = x.X
		default:
			return v
		}
	}
}

// minusConst strips `x − c` (c a constant) down to x.
func minusConst(v ssa.Value) ssa.Value {
	for {
		bo, ok := stripConv(v).(*ssa.BinOp)
		if !ok || bo.Op != token.SUB {
			return v
		}
		if _, isC := constInt(bo.Y); !isC {
			return v
		}
		v = bo.X
	}
}
