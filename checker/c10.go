package main

import (
	"fmt"
	"go/types"
	"math/big"
	"strings"

	"golang.org/x/tools/go/ssa"
)

// C10 — image linearise/encode is the per-pixel function, everywhere and only there.
// C15 — image type conversion helpers equal draw.Draw(..., draw.Src).
//
// Both are decided on the facts produced by interpreting ONE GENERIC
// ITERATION of every worker closure handed to parallel.RunWorkers (see
// workers.go): loop bounds and strides, the pixel read, the call of the
// per-colour function, and every store with the bit provenance of its value.

func init() {
	register(&PropertyCheck{ID: "C10", Level: "other", Run: runC10})
	register(&PropertyCheck{ID: "C15", Level: "other", Run: runC15})
}

type loopSum struct {
	First, Limit, Step *Form
	K                  string
}

type closureFacts struct {
	Loops  []loopSum
	Calls  []Event // loop-call / loop-invoke (Args[3:] are the real arguments)
	Stores []Event // loop-store: Args = k, first, limit, index, value
}

func factsOf(ws workerSite) closureFacts {
	var cf closureFacts
	for _, ev := range ws.Events {
		switch ev.Kind {
		case "loop-summary":
			f, _ := ev.Args[0].(*Form)
			l, _ := ev.Args[1].(*Form)
			s, _ := ev.Args[2].(*Form)
			k, _ := ev.Args[3].(*Form)
			kn := ""
			if k != nil {
				kn, _ = k.SingleAtom()
			}
			cf.Loops = append(cf.Loops, loopSum{f, l, s, kn})
		case "loop-call", "loop-invoke":
			cf.Calls = append(cf.Calls, ev)
		case "loop-store":
			cf.Stores = append(cf.Stores, ev)
		}
	}
	return cf
}

// realArgs strips the (k, first, limit) prefix added by the loop summary.
func realArgs(ev Event) []Val {
	if len(ev.Args) >= 3 {
		return ev.Args[3:]
	}
	return nil
}

// checkStripes is rule S1: the rows visited by the workers partition
// [rect.Min.Y, rect.Max.Y) (residue classes or contiguous bands, see
// partition.go) and every row is traversed over columns Min.X .. < Max.X step 1.
// sites are all cases of the RunWorkers call ws belongs to; the verdict is
// reported once per call (with the first case) and shared by the others.
var stripeVerdicts = map[string]bool{}

func checkStripes(r *Report, rule, key, pos string, ws workerSite, sites []workerSite, rect *Agg, rectName string, shift ...*Form) (rowK, colK string, ok bool) {
	// shift = (dx, dy): the pixel visited in iteration (col, row) is (col+dx, row+dy) — loops that
	// count relative to the rectangle's origin
	shiftX, shiftY := formInt(0), formInt(0)
	if len(shift) == 2 && shift[0] != nil && shift[1] != nil {
		shiftX, shiftY = shift[0], shift[1]
	}
	cf := factsOf(ws)
	if len(cf.Loops) != 2 {
		r.Violate(rule, key, pos, fmt.Sprintf("worker has %d counting loops; required an outer row loop and an inner column loop", len(cf.Loops)))
		return "", "", false
	}
	vk := fmt.Sprintf("%s|%s|%s|%d", r.Property, rule, key, ws.Group)
	if ws.CaseIdx > 0 {
		return cf.Loops[0].K, cf.Loops[1].K, stripeVerdicts[vk]
	}
	minX, _ := formAt(rect, 0, 0)
	minY, _ := formAt(rect, 0, 1)
	maxX, _ := formAt(rect, 1, 0)
	maxY, _ := formAt(rect, 1, 1)
	if minX == nil || minY == nil || maxX == nil || maxY == nil {
		r.Undecide(rule, key, pos, "bounds rectangle not extractable")
		return "", "", false
	}
	var cases []rowCase
	okCol, colWhy := true, ""
	for _, sb := range sites {
		if sb.Group != ws.Group || sb.Err != "" {
			continue
		}
		c := factsOf(sb)
		if len(c.Loops) != 2 {
			okCol, colWhy = false, "a case of the worker body has no row/column loop pair"
			continue
		}
		o, in := c.Loops[0], c.Loops[1]
		cases = append(cases, rowCase{F: o.First.Add(shiftY), E: o.Limit.Add(shiftY), Step: o.Step, Conds: sb.CaseConds})
		if !(in.First.Add(shiftX).Equal(minX) && in.Limit.Add(shiftX).Equal(maxX) && in.Step.Equal(formInt(1))) {
			okCol = false
			colWhy = fmt.Sprintf("columns start at %s, step %s, end before %s — required %s.Min.X step 1 < %s.Max.X", trunc(in.First.String(), 80), trunc(in.Step.String(), 40), trunc(in.Limit.String(), 80), rectName, rectName)
		}
	}
	okRow, how, rowWhy := ws.E.rowsPartition(cases, minY, maxY)
	detail := fmt.Sprintf("rows of %s: %s; columns %s.Min.X .. < %s.Max.X step 1", rectName, how, rectName, rectName)
	bad := rowWhy
	if bad == "" {
		bad = colWhy
	}
	bad += " (otherwise pixels are skipped or visited by several workers)"
	r.Check(okRow && okCol, rule, key, pos, detail, bad)
	stripeVerdicts[vk] = okRow && okCol
	return cf.Loops[0].K, cf.Loops[1].K, okRow && okCol
}

// byteOf decodes a stored byte value: which 8-bit run of which atom.
func byteOf(e *Engine, v Val) (atom string, lo int, ok bool) {
	f, isF := v.(*Form)
	if !isF {
		return "", 0, false
	}
	an, isA := f.SingleAtom()
	if !isA {
		return "", 0, false
	}
	at := e.A.get(an)
	if at == nil {
		return "", 0, false
	}
	if at.Kind == "bv" {
		runs := at.BV.Runs()
		// low 8 bits one atom run, everything above zero
		if len(runs) >= 1 && runs[0].Kind == 'a' && runs[0].Width >= 8 && runs[0].At == 0 {
			if runs[0].Width == 8 || len(at.BV.Bits) == 8 {
				for _, rr := range runs[1:] {
					if rr.Kind != '0' {
						return "", 0, false
					}
				}
				return runs[0].A, runs[0].Lo, true
			}
		}
		return "", 0, false
	}
	// a plain 8-bit atom
	return an, 0, true
}

// appOf returns the application atom behind a single-atom form.
func appOf(e *Engine, v Val) *Atom {
	f, ok := v.(*Form)
	if !ok {
		return nil
	}
	an, ok := f.SingleAtom()
	if !ok {
		return nil
	}
	return e.A.get(an)
}

// splitOffset decodes index = m + offAtom.
func splitOffset(e *Engine, idx *Form) (m int64, off *Atom, ok bool) {
	if _, isC := idx.D.constVal(); !isC {
		return 0, nil, false
	}
	for _, t := range idx.N.t {
		switch {
		case len(t.m.vars) == 0:
			if !t.c.IsInt() {
				return 0, nil, false
			}
			m = t.c.Num().Int64()
		case len(t.m.vars) == 1 && t.m.vars[0].p == 1 && t.c.Cmp(big.NewRat(1, 1)) == 0 && off == nil:
			off = e.A.get(t.m.vars[0].a)
		default:
			return 0, nil, false
		}
	}
	return m, off, off != nil
}

// workerCountOK: the worker count handed to RunWorkers is the caller's
// parallelism, or — for a capped/adjusted count — at least 1 on this path
// whenever parallelism >= 1 (rule S1 proves the row partition for a symbolic
// worker count, so any positive count converts every pixel exactly once).
func workerCountOK(e *Engine, ws workerSite) bool {
	if valKey(ws.ParArg) == "1*parallelism" {
		return true
	}
	n, ok := ws.ParArg.(*Form)
	if !ok {
		return false
	}
	premise := &BoolVal{Op: ">=", A: formAtom("parallelism"), B: formInt(1)}
	facts := []*BoolVal{premise}
	var plain []*BoolVal
	for _, c := range ws.Conds {
		cc := *c
		cc.Src, cc.Exact = nil, nil
		facts = append(facts, &cc)
		plain = append(plain, &cc)
	}
	// a path taken only for parallelism < 1 (a "0 means automatic" default) is outside the premise
	if e.refutes(plain, premise) {
		return true
	}
	// runtime.GOMAXPROCS(0) and runtime.NumCPU() are at least 1
	if an, isA := n.SingleAtom(); isA && (strings.HasPrefix(an, "call:runtime.GOMAXPROCS(") || strings.HasPrefix(an, "call:runtime.NumCPU(")) {
		return true
	}
	good, _ := e.proveGE0(n.Sub(formInt(1)), e.factsOf(facts))
	return good
}

// emptyRectPath reports whether the path conditions say that <img>.Bounds()
// is empty: Bounds().Empty() held, or an exact comparison implies
// Max.X <= Min.X or Max.Y <= Min.Y.
func emptyRectPath(e *Engine, conds []*BoolVal, img string) bool {
	rect := appAgg(e, "invoke:Bounds", img)
	if rect == nil {
		return false
	}
	want := "call:(image.Rectangle).Empty(" + valKey(rect) + ")"
	var plain []*BoolVal
	for _, c := range conds {
		if c == nil {
			continue
		}
		if c.Key() == want {
			return true
		}
		cc := *c
		cc.Src, cc.Exact = nil, nil // image coordinates: comparisons are read exactly (as in S1)
		plain = append(plain, &cc)
	}
	facts := e.factsOf(plain)
	for k := 0; k < 2; k++ {
		mn, _ := formAt(rect, 0, k)
		mx, _ := formAt(rect, 1, k)
		if mn == nil || mx == nil {
			continue
		}
		if ok, _ := e.proveGE0(mn.Sub(mx), facts); ok {
			return true
		}
	}
	return false
}

func runC10(p *Program, r *Report) {
	r.Explanation = "One generic iteration of each of the four worker closures of linear.TransformImageColor is abstractly interpreted (loop counters symbolic), which yields for EVERY pixel and EVERY parallelism: (S1) rows src.Bounds().Min.Y+workerNum step workerCount, columns Min.X step 1 — a partition of the source rectangle into residue classes; (S2) the only stores are to dst.Pix[PixOffset(j+dx, i+dy)+k], k = 0..bpp−1 each exactly once, or one dst.Set(j+dx, i+dy, ·), with (dx,dy) = dst.Bounds().Min − src.Bounds().Min, and nothing else is written (captured variables, src, other elements); (S3) the value is transformColor(src.At(j,i)) [RGBA64At in the RGBA64→RGBA64 arm] evaluated once from the current (j,i), laid out as the image package documents (RGBA64: hi,lo bytes per channel; RGBA: high bytes) which is the destination model's conversion of a color.RGBA64; (S4) the type switch has a generic default arm; (S5) the eight Linearise/EncodeImage wrappers pass (dst, src, parallelism) positionally with their own package's per-colour function and no type-specific shortcut. Derived: in-place use reads each pixel before overwriting it and never reads a pixel another iteration writes. Not decided: behaviour when dst is smaller than src (excluded), library facts about PixOffset/Set."
	r.RuleText = "one instance per closure clause (stripes, write targets, value, read) and per wrapper; facts come from one generic loop iteration, i.e. they hold for every pixel index"
	r.Trusted = []string{"go/packages+go/types+go/ssa (x/tools v0.29.0)", "the abstract interpreter incl. generic-iteration loop summaries", "go-parallel RunWorkers(n, w) calls w(k, n) for k = 0..n-1 and joins them", "image.(*RGBA/RGBA64).PixOffset is injective on in-bounds pixels; documented Pix layouts"}

	fn := p.Func("linear", "TransformImageColor")
	if fn == nil {
		r.Undecide("C10.S1", "linear.TransformImageColor", "-", "anchor not found")
		return
	}
	r.SawFn(shortFn(fn))
	sites, outs, err := analyseWorkers(p, fn)
	if err != nil {
		r.Undecide("C10.S1", "linear.TransformImageColor", p.FnPos(fn), err.Error())
		return
	}
	// every path of the dispatcher must hand the work to exactly one worker closure;
	// a path taken only when the source rectangle is empty has no pixel to convert
	nret, nEmpty := 0, 0
	for _, o := range outs {
		if o.Kind != "return" {
			continue
		}
		calls := 0
		for _, ev := range o.St.events {
			if ev.Kind == "call" && strings.HasSuffix(ev.Fn, "parallel.RunWorkers") {
				calls++
			}
		}
		if calls == 0 && len(sites) > 0 && emptyRectPath(sites[0].E, o.St.conds, "src") {
			nEmpty++
			continue
		}
		nret++
	}
	groups := map[int]bool{}
	for _, ws := range sites {
		groups[ws.Group] = true
	}
	r.Check(nret == len(groups) && len(groups) >= 2, "C10.S4", "TransformImageColor dispatch", p.FnPos(fn), fmt.Sprintf("%d type-switch paths, each running exactly one worker closure (%d further paths taken only for an empty source rectangle)", nret, nEmpty), fmt.Sprintf("%d paths but %d RunWorkers calls: some path converts no pixels or converts them twice", nret, len(groups)))
	hasDefault := false
	for _, ws := range sites {
		key := shortFn(ws.Closure)
		if ws.Closure != nil {
			r.SawFn(key)
		}
		if ws.CaseIdx > 0 {
			key = fmt.Sprintf("%s case %d", key, ws.CaseIdx+1)
		}
		if ws.Err != "" {
			r.Violate("C10.S1", key, ws.Pos, ws.Err)
			continue
		}
		e := ws.E
		cf := factsOf(ws)
		// parallelism forwarded
		r.Check(workerCountOK(e, ws), "C10.S4", key+" parallelism", ws.Pos, "RunWorkers receives the caller's parallelism, or a count the path shows to be at least 1 whenever parallelism is (the partition holds for every worker count)", "RunWorkers receives "+valKey(ws.ParArg)+", which is neither the caller's parallelism nor provably >= 1 for parallelism >= 1: with no worker no pixel is converted")
		// the source rectangle = src.Bounds()
		srcB := appAgg(e, "invoke:Bounds", "src")
		dstB := appAgg(e, "invoke:Bounds", "dst")
		// the pixel an iteration works on is where it reads the source: (col, row) itself, or
		// (col, row) + a loop-invariant origin when the loops count relative to the rectangle
		var shX, shY *Form
		if len(cf.Loops) == 2 {
			rk, ck := formAtom(cf.Loops[0].K), formAtom(cf.Loops[1].K)
			for k := range cf.Calls {
				ev := &cf.Calls[k]
				if !(ev.Kind == "loop-invoke" && ev.Fn == "At") && !strings.HasSuffix(ev.Fn, ".RGBA64At") {
					continue
				}
				ra := realArgs(*ev)
				var xv, yv Val
				if ev.Kind == "loop-invoke" && len(ra) == 2 {
					xv, yv = ra[0], ra[1]
				} else if len(ra) == 3 {
					xv, yv = ra[1], ra[2]
				}
				xf, okx := xv.(*Form)
				yf, oky := yv.(*Form)
				if okx && oky {
					dx0, dy0 := xf.Sub(ck), yf.Sub(rk)
					inv := func(f *Form) bool { a := f.Atoms(); return !a[cf.Loops[0].K] && !a[cf.Loops[1].K] }
					if inv(dx0) && inv(dy0) {
						shX, shY = dx0, dy0
					}
				}
			}
		}
		rowK, colK, ok := checkStripes(r, "C10.S1", key+" stripes", ws.Pos, ws, sites, srcB, "src.Bounds()", shX, shY)
		if !ok {
			continue
		}
		i, j := formAtom(rowK), formAtom(colK)
		if shX != nil && shY != nil {
			i, j = i.Add(shY), j.Add(shX)
		}
		dx := mustForm(dstB, 0, 0).Sub(mustForm(srcB, 0, 0))
		dy := mustForm(dstB, 0, 1).Sub(mustForm(srcB, 0, 1))

		// S3 read + transform
		var read, xform, pixoff, set, conv, tset *Event
		extra := ""
		for k := range cf.Calls {
			ev := &cf.Calls[k]
			switch {
			case ev.Kind == "loop-invoke" && ev.Fn == "Convert" && strings.HasPrefix(valKey(ev.Recv), "color.") && strings.HasSuffix(valKey(ev.Recv), "Model"):
				if conv != nil {
					extra = "more than one colour-model conversion per pixel"
				}
				conv = ev
			case strings.HasPrefix(ev.Fn, "(*image.") && strings.Contains(ev.Fn, ").Set"):
				if tset != nil {
					extra = "more than one typed Set per pixel"
				}
				tset = ev
			case ev.Kind == "loop-invoke" && ev.Fn == "At", strings.HasSuffix(ev.Fn, ".RGBA64At"):
				if read != nil {
					extra = "more than one pixel read per iteration"
				}
				read = ev
			case ev.Fn == "transformColor":
				if xform != nil {
					extra = "transformColor called more than once per pixel"
				}
				xform = ev
			case strings.HasSuffix(ev.Fn, ".PixOffset"):
				pixoff = ev
			case ev.Kind == "loop-invoke" && ev.Fn == "Set":
				if set != nil {
					extra = "more than one Set per pixel"
				}
				set = ev
			default:
				extra = "unexpected call " + ev.Fn + " in the worker"
			}
		}
		readOK := read != nil && extra == ""
		why := extra
		if read != nil {
			ra := realArgs(*read)
			var img, x, y Val
			if read.Kind == "loop-invoke" {
				img = read.Recv
				if len(ra) == 2 {
					x, y = ra[0], ra[1]
				}
			} else if len(ra) == 3 {
				img, x, y = ra[0], ra[1], ra[2]
			}
			if valKey(img) != "src" || valKey(x) != j.Key() || valKey(y) != i.Key() {
				readOK = false
				why = fmt.Sprintf("the pixel is read from %s at (%s, %s); required src at (column, row) of the current iteration", valKey(img), trunc(valKey(x), 60), trunc(valKey(y), 60))
			}
		} else if why == "" {
			why = "no source pixel read (src.At / RGBA64At) in the iteration"
		}
		r.Check(readOK, "C10.S3", key+" read", ws.Pos, "reads exactly src.At(j, i) (RGBA64At on the RGBA64 fast path) of the current (j, i)", why)
		xOK := xform != nil && read != nil && len(realArgs(*xform)) == 1 && valKey(realArgs(*xform)[0]) == valKey(read.Res)
		r.Check(xOK, "C10.S3", key+" transform", ws.Pos, "the per-colour function is applied once to that pixel", "transformColor is not applied exactly once to the pixel just read")
		if !xOK {
			continue
		}
		resKey := valKey(xform.Res)
		chField := func(ch string) string { return "." + ch + "(" + opaqueKeyOfAgg(xform.Res) + ")" }
		_ = resKey

		if tset != nil {
			// a typed arm: dst.SetT(x, y, color.TModel.Convert(c).(color.T)) is what (*image.T).Set(x, y, c)
			// is defined to do (image package): the arm equals the generic dst.Set for that type
			tname := ""
			for _, c := range ws.Conds {
				k := c.Key()
				if strings.HasPrefix(k, "istype(dst,*image.") && strings.HasSuffix(k, ")") {
					tname = strings.TrimSuffix(strings.TrimPrefix(k, "istype(dst,*image."), ")")
				}
			}
			ra := realArgs(*tset)
			good := tname != "" && tset.Fn == "(*image."+tname+").Set"+tname && conv != nil && valKey(conv.Recv) == "color."+tname+"Model" &&
				len(ra) == 4 && valKey(ra[0]) == "dst" && len(cf.Stores) == 0 && pixoff == nil && set == nil
			if good {
				x, _ := ra[1].(*Form)
				y, _ := ra[2].(*Form)
				ca := realArgs(*conv)
				good = x != nil && y != nil && x.Equal(j.Add(dx)) && y.Equal(i.Add(dy)) && len(ca) == 1 && valKey(ca[0]) == valKey(xform.Res) && valKey(ra[3]) == valKey(conv.Res)
			}
			r.Check(good, "C10.S2", key+" Set", ws.Pos, "the only write is dst.Set"+tname+"(j+dx, i+dy, color."+tname+"Model.Convert(transformColor(src.At(j,i)))) — the definition of dst.Set for this destination type", "typed arm does not write exactly dst.SetT(j+dx, i+dy, TModel.Convert(colour)) of its own destination type: "+trunc(valKey(Tuple(ra)), 200))
			continue
		}
		if conv != nil {
			r.Violate("C10.S3", key+" read", ws.Pos, "unexpected colour-model conversion in the worker")
			continue
		}
		if set != nil {
			hasDefault = true
			ra := realArgs(*set)
			good := valKey(set.Recv) == "dst" && len(ra) == 3 && len(cf.Stores) == 0 && pixoff == nil
			if good {
				x, _ := ra[0].(*Form)
				y, _ := ra[1].(*Form)
				good = x != nil && y != nil && x.Equal(j.Add(dx)) && y.Equal(i.Add(dy)) && valKey(ra[2]) == valKey(xform.Res)
			}
			r.Check(good, "C10.S2", key+" Set", ws.Pos, "the only write is dst.Set(j+dx, i+dy, transformColor(src.At(j,i))) with (dx,dy) = dst.Bounds().Min − src.Bounds().Min", "generic arm does not write exactly dst.Set(j+dx, i+dy, colour): "+trunc(valKey(Tuple(ra)), 200))
			continue
		}
		// fast paths: Pix stores. The destination type of this arm comes from the type switch.
		dstType := ""
		for _, c := range ws.Conds {
			k := c.Key()
			if strings.HasPrefix(k, "istype(dst,") {
				dstType = strings.TrimSuffix(strings.TrimPrefix(k, "istype(dst,"), ")")
			}
		}
		bpp := 0
		layout := map[int64][2]interface{}{}
		switch dstType {
		case "*image.RGBA64":
			bpp = 8
			for c, ch := range []string{"R", "G", "B", "A"} {
				layout[int64(2*c)] = [2]interface{}{ch, 8}
				layout[int64(2*c+1)] = [2]interface{}{ch, 0}
			}
		case "*image.RGBA":
			bpp = 4
			for c, ch := range []string{"R", "G", "B", "A"} {
				layout[int64(c)] = [2]interface{}{ch, 8}
			}
		default:
			r.Undecide("C10.S2", key+" stores", ws.Pos, "fast path for destination type "+dstType+", which is not in the layout table (RGBA64, RGBA)")
			continue
		}
		imgT := imagePtrType(p, strings.TrimPrefix(dstType, "*image."))
		want, okW := e.pixOffsetForm(ws.ParentSt, &Opaque{Key: "dst"}, imgT, int64(bpp), j.Add(dx), i.Add(dy))
		if !okW {
			r.Undecide("C10.S2", key+" offset", ws.Pos, "destination image layout not extractable")
			continue
		}
		seen := map[int64]bool{}
		stOK, stWhy := len(cf.Stores) == bpp, ""
		if !stOK {
			stWhy = fmt.Sprintf("%d byte stores per pixel, the destination format has %d bytes per pixel", len(cf.Stores), bpp)
		}
		offOK, offWhy := true, ""
		valOK, valWhy := true, ""
		for _, sv := range cf.Stores {
			ptr := sv.Recv.(*Ptr)
			idx, _ := sv.Args[3].(*Form)
			if ptr.Base == nil || ptr.Base.Key != "dst.Pix" {
				stOK, stWhy = false, "store to "+trunc(ptr.Key(), 160)+" is not a store into dst.Pix"
				continue
			}
			m, isC := idx.Sub(want).ConstInt()
			if !isC {
				offOK, offWhy = false, "a pixel byte is stored at index "+trunc(idx.String(), 200)+"; required dst.PixOffset(j + dst.Min.X − src.Min.X, i + dst.Min.Y − src.Min.Y) + k = "+trunc(want.String(), 200)+" + k"
				continue
			}
			if seen[m] || m < 0 || m >= int64(bpp) {
				stOK, stWhy = false, fmt.Sprintf("byte %d of the pixel is written twice or lies outside the pixel", m)
				continue
			}
			seen[m] = true
			wantB := layout[m]
			atom, lo, ok := byteOf(e, sv.Args[4])
			if !ok || atom != chField(wantB[0].(string)) || lo != wantB[1].(int) {
				valOK = false
				valWhy = fmt.Sprintf("byte %d of the pixel receives %s; the %d-byte layout requires bits %d..%d of channel %s of the transformed colour", m, trunc(valKey(sv.Args[4]), 120), bpp, wantB[1].(int)+7, wantB[1].(int), wantB[0].(string))
			}
		}
		r.Check(offOK, "C10.S2", key+" offset", ws.Pos, "every byte goes to dst.Pix[(i+dy−Rect.Min.Y)·Stride + (j+dx−Rect.Min.X)·bpp + k] with (dx,dy) = dst.Bounds().Min − src.Bounds().Min (= PixOffset(j+dx, i+dy) + k, however the offset is computed)", offWhy)
		r.Check(stOK, "C10.S2", key+" stores", ws.Pos, fmt.Sprintf("exactly the %d bytes dst.Pix[offset+0..%d] of the pixel are written, nothing else", bpp, bpp-1), stWhy)
		r.Check(valOK, "C10.S3", key+" layout", ws.Pos, "byte layout equals the destination colour model's conversion of the color.RGBA64 (high/low bytes per channel)", valWhy)
	}
	r.Check(hasDefault, "C10.S4", "TransformImageColor default arm", p.FnPos(fn), "a generic arm using dst.Set exists for every other destination type", "no generic dst.Set arm: destination types without a fast path are not handled")

	checkImageWrappers(p, r, "C10.S5")
	r.Floor("C10.S1", 4)
	r.Floor("C10.S2", 7)
	r.Floor("C10.S3", 11)
	r.Floor("C10.S4", 6)
	r.Floor("C10.S5", 8)
}

func mustForm(v Val, idx ...int) *Form {
	f, ok := formAt(v, idx...)
	if !ok {
		return formAtom("?")
	}
	return f
}

// appAgg rebuilds the aggregate the interpreter produces for an opaque call
// such as src.Bounds().
func appAgg(e *Engine, fn, recv string) *Agg {
	key := fn + "(" + recv + ")"
	mk := func(path ...string) *Form {
		k := key
		for _, p := range path {
			k = "." + p + "(" + k + ")"
		}
		return formAtom(k)
	}
	return &Agg{Elems: []Val{
		&Agg{Elems: []Val{mk("Min", "X"), mk("Min", "Y")}},
		&Agg{Elems: []Val{mk("Max", "X"), mk("Max", "Y")}},
	}}
}

// opaqueKeyOfAgg returns the key of the opaque application an aggregate of
// field atoms was derived from (".R(KEY)" → KEY).
func opaqueKeyOfAgg(v Val) string {
	a, ok := v.(*Agg)
	if !ok || len(a.Elems) == 0 {
		return valKey(v)
	}
	f, ok := a.Elems[0].(*Form)
	if !ok {
		return valKey(v)
	}
	an, ok := f.SingleAtom()
	if !ok {
		return valKey(v)
	}
	i := strings.Index(an, "(")
	if i < 0 || !strings.HasSuffix(an, ")") {
		return an
	}
	return an[i+1 : len(an)-1]
}

// checkImageWrappers is rule S5.
func checkImageWrappers(p *Program, r *Report, rule string) {
	tic := p.Func("linear", "TransformImageColor")
	for _, sp := range allSpaces {
		for _, d := range []struct{ fn, colour string }{{"LineariseImage", "LineariseColor"}, {"EncodeImage", "EncodeColor"}} {
			fn := p.Func(sp, d.fn)
			want := p.Func(sp, d.colour)
			key := sp + "." + d.fn
			if fn == nil || want == nil || tic == nil {
				r.Undecide(rule, key, "-", "function not found")
				continue
			}
			r.SawFn(shortFn(fn))
			e := NewEngine(p)
			e.Opaque = func(f *ssa.Function) bool { return true }
			outs, err := extract(p, e, fn, nil)
			if err != nil || len(outs) != 1 {
				r.Violate(rule, key, p.FnPos(fn), fmt.Sprintf("wrapper has %d paths (a type-specific shortcut bypasses the per-colour function?) %v", len(outs), err))
				continue
			}
			var evs []Event
			for _, ev := range outs[0].St.events {
				if ev.Kind == "call" || ev.Kind == "invoke" {
					evs = append(evs, ev)
				}
			}
			good := len(evs) == 1 && evs[0].Fn == "linear.TransformImageColor" && len(evs[0].Args) == 4
			why := ""
			if good {
				a := evs[0].Args
				fv, _ := a[3].(*FuncVal)
				good = valKey(a[0]) == "dst" && valKey(a[1]) == "src" && valKey(a[2]) == "1*parallelism" && fv != nil && fv.Fn == want
				if !good {
					why = "arguments are " + trunc(valKey(Tuple(a)), 200)
				}
			} else {
				why = fmt.Sprintf("%d calls in the wrapper", len(evs))
			}
			r.Check(good, rule, key, p.FnPos(fn), fmt.Sprintf("= linear.TransformImageColor(dst, src, parallelism, %s.%s) and nothing else", sp, d.colour), "wrapper is not exactly TransformImageColor(dst, src, parallelism, "+sp+"."+d.colour+"): "+why)
		}
	}
}

// ---------------------------------------------------------------------------
// C15

func runC15(p *Program, r *Report) {
	r.Explanation = "The three ConvertImageTo* helpers of prism.go are abstractly interpreted (type-switch paths forked, one generic iteration per worker closure). Decided for every pixel index and parallelism: (identity) the arm for the target type returns the input value itself and no arm stores through the input image; (bounds) the output is allocated with the input's Rect/Bounds and the fallback is exactly draw.Draw(out, out.Rect, img, out.Rect.Min, draw.Src); (partition) rule S1 over the output rectangle; (shuffle) both offsets are PixOffset(j,i) of the respective image with the same (j,i), RGBA64→RGBA copies in[2k] to out[k], RGBA→RGBA64 duplicates in[k] into out[2k], out[2k+1] (×0x101), NRGBA→RGBA64 / YCbCr→RGBA64 write SetRGBA64(j,i,{RGBA() channels positionally, A}) and YCbCr→NRGBA writes SetNRGBA(j,i,{YCbCrToRGB(Y,Cb,Cr), 255}) — the image/color conversion definitions. Not decided: pixel equality with draw.Draw's own implementation for every stdlib type (a statement about image/draw), e.g. whether YCbCrToRGB and YCbCr.RGBA()>>8 agree on all 2^24 triples."
	r.RuleText = "one instance per helper arm clause; facts from one generic loop iteration hold for every pixel"
	r.Trusted = []string{"go/packages+go/types+go/ssa (x/tools v0.29.0)", "the abstract interpreter incl. loop summaries", "image.NewRGBA/NewNRGBA/NewRGBA64(r) return a fresh image with Rect = r", "image/color conversion definitions (RGBA64→RGBA keeps the high byte; RGBA→RGBA64 multiplies by 0x101; NRGBA.RGBA premultiplies; YCbCr.RGBA)", "go-parallel RunWorkers contract"}
	for _, h := range []struct{ name, target string }{{"ConvertImageToNRGBA", "*image.NRGBA"}, {"ConvertImageToRGBA", "*image.RGBA"}, {"ConvertImageToRGBA64", "*image.RGBA64"}} {
		checkConvertHelper(p, r, h.name, h.target)
	}
	r.Floor("C15.identity", 3)
	r.Floor("C15.bounds", 8)
	r.Floor("C15.partition", 5)
	r.Floor("C15.shuffle", 5)
}

func checkConvertHelper(p *Program, r *Report, name, target string) {
	fn := p.Func("", name)
	if fn == nil {
		r.Undecide("C15.identity", name, "-", "helper not found")
		return
	}
	r.SawFn(shortFn(fn))
	sites, outs, err := analyseWorkers(p, fn)
	if err != nil {
		r.Undecide("C15.identity", name, p.FnPos(fn), err.Error())
		return
	}
	siteOf := map[string][]*workerSite{}
	for k := range sites {
		ck := condsOfKey(sites[k].Conds)
		siteOf[ck] = append(siteOf[ck], &sites[k])
	}
	// the generic path: NewT(img.Bounds()); draw.Draw(out, out.Rect, img, out.Rect.Min, draw.Src)
	fallbackForm := func(o Outcome) (bool, string) {
		var newEv, drawEv, boundsEv *Event
		extra := 0
		for k := range o.St.events {
			ev := &o.St.events[k]
			switch {
			case ev.Kind == "call" && strings.HasPrefix(ev.Fn, "image.New"):
				newEv = ev
			case ev.Kind == "call" && ev.Fn == "image/draw.Draw":
				drawEv = ev
			case ev.Kind == "invoke" && ev.Fn == "Bounds":
				boundsEv = ev
			case ev.Kind == "store":
				extra++
			case ev.Kind == "call" && ev.Callee != nil && pureObserver(ev.Callee, 0):
				// a module function that only looks at its arguments (a validator) changes nothing
			case ev.Kind == "call" || ev.Kind == "invoke":
				// what is done with the images counts; reading the environment (GOMAXPROCS …) does not
				for _, v := range append([]Val{ev.Recv}, ev.Args...) {
					if v != nil && (strings.Contains(valKey(v), "img") || strings.Contains(valKey(v), "newimg#")) {
						extra++
						break
					}
				}
			}
		}
		good := newEv != nil && drawEv != nil && boundsEv != nil && extra == 0 && valKey(boundsEv.Recv) == "img" && valKey(newEv.Args[0]) == valKey(boundsEv.Res)
		why := "fallback is not NewT(img.Bounds()) + draw.Draw"
		if good {
			a := drawEv.Args
			rect := valKey(newEv.Args[0])
			minPt, _ := elem(newEv.Args[0], 0)
			good = len(a) == 5 && valKey(a[0]) == valKey(newEv.Res) && valKey(a[1]) == rect && valKey(a[2]) == "img" && valKey(a[3]) == valKey(minPt) && strings.Contains(valKey(a[4]), "1") && isDrawSrc(a[4])
			if !good {
				why = "draw.Draw arguments are " + trunc(valKey(Tuple(a)), 300) + "; required (out, out.Rect, img, out.Rect.Min, draw.Src) with out.Rect = img.Bounds()"
			}
			if good && valKey(o.Ret) != valKey(newEv.Res) {
				good, why = false, "the fallback does not return the image it drew into"
			}
		}
		return good, why
	}
	sawIdentity, sawFallback := false, false
	for _, o := range outs {
		if o.Kind != "return" {
			r.Violate("C15.identity", name+" path", p.Pos(o.Pos), "a path ends in "+o.Kind)
			continue
		}
		ck := condsOfKey(o.St.conds)
		arm := lastPositiveType(o.St.conds)
		switch {
		case arm == target:
			// identity arm: returns the input itself, no calls, no stores
			n := 0
			for _, ev := range o.St.events {
				if ev.Kind == "store" {
					n++
				}
				if ev.Kind == "call" || ev.Kind == "invoke" {
					// what is done with (or to) the image counts; reading the environment does not
					for _, v := range append([]Val{ev.Recv}, ev.Args...) {
						if v != nil && strings.Contains(valKey(v), "img") {
							n++
							break
						}
					}
				}
			}
			op, _ := o.Ret.(*Opaque)
			r.Check(op != nil && op.Key == "img" && n == 0, "C15.identity", name+" identity arm", p.Pos(o.Pos), "an input already of type "+target+" is returned as the same instance, untouched", "the "+target+" arm returns "+trunc(valKey(o.Ret), 80)+fmt.Sprintf(" after %d calls/stores; required the input itself", n))
			sawIdentity = true
		case arm == "":
			good, why := fallbackForm(o)
			r.Check(good, "C15.bounds", name+" fallback", p.Pos(o.Pos), "out = New(img.Bounds()); draw.Draw(out, out.Rect, img, out.Rect.Min, draw.Src); return out", why)
			sawFallback = true
		default:
			wss := siteOf[ck]
			key := name + " " + arm
			if len(wss) == 0 {
				if good, _ := fallbackForm(o); good {
					r.Hold("C15.bounds", key+" generic path", p.Pos(o.Pos), "this path of the arm leaves the image to the generic path: out = New(img.Bounds()); draw.Draw(out, out.Rect, img, out.Rect.Min, draw.Src) — the conversion the property is stated against")
					continue
				}
				r.Violate("C15.partition", key, p.Pos(o.Pos), "arm converts without a worker closure and is not the draw.Draw fallback")
				continue
			}
			r.SawFn(shortFn(wss[0].Closure))
			for _, ws := range wss {
				ckey := key
				if ws.NCases > 1 {
					ckey = fmt.Sprintf("%s case %d", key, ws.CaseIdx+1)
				}
				if ws.CaseIdx == 0 {
					ckey = key
				}
				checkConvertArm(p, r, ckey, arm, target, *ws, sites, o)
			}
		}
	}
	if !sawIdentity {
		r.Violate("C15.identity", name+" identity arm", p.FnPos(fn), "no arm returns an input of type "+target+" unchanged")
	}
	if !sawFallback {
		r.Violate("C15.bounds", name+" fallback", p.FnPos(fn), "no generic draw.Draw fallback arm")
	}
}

func isDrawSrc(v Val) bool {
	f, ok := v.(*Form)
	if !ok {
		return false
	}
	c, ok := f.ConstInt()
	return ok && c == 1 // draw.Src == 1 (draw.Over == 0)
}

func condsOfKey(cs []*BoolVal) string {
	ks := make([]string, len(cs))
	for i, c := range cs {
		ks[i] = c.Key()
	}
	return strings.Join(ks, "&&")
}

// lastPositiveType returns T when the path's last condition is istype(img, T).
func lastPositiveType(cs []*BoolVal) string {
	if len(cs) == 0 {
		return ""
	}
	// the last decision about the image's dynamic type (later conditions may be about numbers,
	// e.g. a capped worker count)
	for i := len(cs) - 1; i >= 0; i-- {
		k := cs[i].Key()
		if strings.HasPrefix(k, "istype(img,") && strings.HasSuffix(k, ")") {
			return strings.TrimSuffix(strings.TrimPrefix(k, "istype(img,"), ")")
		}
		if strings.HasPrefix(k, "!(istype(img,") {
			return ""
		}
	}
	return ""
}

func checkConvertArm(p *Program, r *Report, key, arm, target string, ws workerSite, allSites []workerSite, o Outcome) {
	if ws.Err != "" {
		r.Violate("C15.partition", key, ws.Pos, ws.Err)
		return
	}
	e := ws.E
	cf := factsOf(ws)
	// output allocation: NewT(inputImg.Rect)
	var newEv *Event
	for k := range o.St.events {
		ev := &o.St.events[k]
		if ev.Kind == "call" && strings.HasPrefix(ev.Fn, "image.New") {
			newEv = ev
		}
	}
	inRect := &Agg{Elems: []Val{
		&Agg{Elems: []Val{formAtom("img.Rect.Min.X"), formAtom("img.Rect.Min.Y")}},
		&Agg{Elems: []Val{formAtom("img.Rect.Max.X"), formAtom("img.Rect.Max.Y")}}}}
	// for the concrete image types of the arms (image.RGBA, RGBA64, NRGBA, YCbCr) Bounds() returns the Rect
	// field, so an output allocated with img.Bounds() before the type is known has the same rectangle
	if bRect := appAgg(e, "invoke:Bounds", "img"); newEv != nil && valKey(newEv.Args[0]) == valKey(bRect) && strings.HasPrefix(arm, "*image.") {
		inRect = bRect
	}
	allocOK := newEv != nil && valKey(newEv.Args[0]) == valKey(inRect) && valKey(o.Ret) == valKey(newEv.Res)
	if allocOK {
		allocOK = strings.HasSuffix(target, strings.TrimPrefix(newEv.Fn, "image.New"))
	}
	r.Check(allocOK, "C15.bounds", key+" allocation", ws.Pos, "output = image.New"+strings.TrimPrefix(target, "*image.")+"(input.Rect) and is what the helper returns", "the output image is not allocated with the input's Rect / not returned")
	if newEv == nil {
		return
	}
	out := valKey(newEv.Res)
	// loops that count relative to the rectangle's origin (row < Dy, col < Dx) work on pixel
	// (col + Min.X, row + Min.Y); every later clause uses the same pixel coordinates
	shX, shY := formInt(0), formInt(0)
	if len(cf.Loops) == 2 {
		minX, _ := formAt(inRect, 0, 0)
		minY, _ := formAt(inRect, 0, 1)
		maxX, _ := formAt(inRect, 1, 0)
		maxY, _ := formAt(inRect, 1, 1)
		if cf.Loops[0].Limit != nil && cf.Loops[0].Limit.Equal(maxY.Sub(minY)) {
			shY = minY
		}
		if cf.Loops[1].Limit != nil && cf.Loops[1].Limit.Equal(maxX.Sub(minX)) {
			shX = minX
		}
	}
	if ws.CaseIdx == 0 {
		r.Check(workerCountOK(e, ws), "C15.partition", key+" worker count", ws.Pos, "RunWorkers receives the caller's parallelism, or a count the path shows to be at least 1 whenever parallelism is", "RunWorkers receives "+valKey(ws.ParArg)+", which is neither the caller's parallelism nor provably >= 1 for parallelism >= 1: with no worker no pixel is converted")
	}
	rowK, colK, ok := checkStripes(r, "C15.partition", key+" stripes", ws.Pos, ws, allSites, inRect, "output.Rect (= input.Rect)", shX, shY)
	if !ok {
		return
	}
	i, j := formAtom(rowK).Add(shY), formAtom(colK).Add(shX)
	isJI := func(a []Val, from int) bool {
		if len(a) < from+2 {
			return false
		}
		x, _ := a[from].(*Form)
		y, _ := a[from+1].(*Form)
		return x != nil && y != nil && x.Equal(j) && y.Equal(i)
	}
	find := func(suffix string) *Event {
		for k := range cf.Calls {
			if strings.HasSuffix(cf.Calls[k].Fn, suffix) {
				return &cf.Calls[k]
			}
		}
		return nil
	}
	rule := "C15.shuffle"
	// no store may target the input image
	for _, sv := range cf.Stores {
		if ptr := sv.Recv.(*Ptr); ptr.Base != nil && strings.HasPrefix(ptr.Base.Key, "img.") {
			r.Violate("C15.identity", key+" input untouched", ws.Pos, "the worker stores into the input image: "+trunc(ptr.Key(), 100))
			return
		}
	}
	switch arm + "→" + target {
	case "*image.RGBA64→*image.RGBA", "*image.RGBA→*image.RGBA64":
		nOut, inBpp := 4, int64(8)
		srcOf := func(m int64) int64 { return 2 * m } // RGBA64→RGBA: out[k] = in[2k]
		if target == "*image.RGBA64" {
			nOut, inBpp = 8, 4
			srcOf = func(m int64) int64 { return m / 2 } // RGBA→RGBA64: out[2k] = out[2k+1] = in[k]
		}
		good, why := true, ""
		wantOut, ok1 := e.pixOffsetForm(ws.ParentSt, newEv.Res, imagePtrType(p, strings.TrimPrefix(target, "*image.")), int64(nOut), j, i)
		wantIn, ok2 := e.pixOffsetForm(ws.ParentSt, &Opaque{Key: "img"}, imagePtrType(p, strings.TrimPrefix(arm, "*image.")), inBpp, j, i)
		if !ok1 || !ok2 {
			good, why = false, "image layouts not extractable"
		}
		for _, ev := range cf.Calls {
			if !strings.HasSuffix(ev.Fn, ".PixOffset") {
				good, why = false, "unexpected call "+ev.Fn+" in the byte-copy worker"
			}
		}
		if good {
			seen := map[int64]bool{}
			if len(cf.Stores) != nOut {
				good, why = false, fmt.Sprintf("%d byte stores per pixel, expected %d", len(cf.Stores), nOut)
			}
			outPix := ""
			if op, ok := newEv.Res.(*Ptr); ok && op.Cell != nil {
				outPix = fmt.Sprintf("newimg#%d.Pix", op.Cell.ID)
			}
			for _, sv := range cf.Stores {
				ptr := sv.Recv.(*Ptr)
				idx, _ := sv.Args[3].(*Form)
				m, isC := idx.Sub(wantOut).ConstInt()
				if ptr.Base == nil || ptr.Base.Key != outPix || !isC || seen[m] || m < 0 || m >= int64(nOut) {
					good, why = false, "store to "+trunc(ptr.Key(), 160)+" is not output.Pix[PixOffset(j,i) + k] with each k once"
					break
				}
				seen[m] = true
				va := appOf(e, sv.Args[4])
				if va == nil || va.Fn != "index" || valKey(va.Args[0]) != "img.Pix" {
					good, why = false, fmt.Sprintf("output byte %d receives %s, not a byte of the input pixel", m, trunc(valKey(sv.Args[4]), 100))
					break
				}
				sm, isC2 := va.Args[1].(*Form).Sub(wantIn).ConstInt()
				if !isC2 || sm != srcOf(m) {
					good, why = false, fmt.Sprintf("output byte %d is copied from input index %s; the colour-model conversion requires input.Pix[PixOffset(j,i) + %d]", m, trunc(valKey(va.Args[1]), 120), srcOf(m))
					break
				}
			}
		}
		want := "out[k] = in[2k] (high byte of each 16-bit channel)"
		if target == "*image.RGBA64" {
			want = "out[2k] = out[2k+1] = in[k] (v·0x101)"
		}
		r.Check(good, rule, key, ws.Pos, want+", both at PixOffset(j,i) of the respective image (however the offsets are computed)", why)
	case "*image.NRGBA→*image.RGBA64", "*image.YCbCr→*image.RGBA64":
		at := find("At")
		rgba := find(").RGBA")
		set := find(").SetRGBA64")
		good := at != nil && rgba != nil && set != nil && len(cf.Calls) == 3 && len(cf.Stores) == 0
		why := "expected per pixel: typed At(j,i), .RGBA(), SetRGBA64(j,i,·) and nothing else"
		if at64 := find(").RGBA64At"); at64 != nil && set != nil && len(cf.Calls) == 2 && len(cf.Stores) == 0 {
			// the typed RGBA64At(j,i) is documented (image.RGBA64Image) as At(j,i).RGBA() converted to color.RGBA64
			aa, sa := realArgs(*at64), realArgs(*set)
			ok64 := len(aa) == 3 && len(sa) == 4 && valKey(aa[0]) == "img" && isJI(aa, 1) && valKey(sa[0]) == out && isJI(sa, 1) && valKey(sa[3]) == valKey(at64.Res) &&
				strings.HasPrefix(at64.Fn, "("+arm+")")
			r.Check(ok64, rule, key, ws.Pos, "SetRGBA64(j, i, input.RGBA64At(j, i)) — the RGBA64Image contract of the input type", "pixel must be read with RGBA64At(j,i) from the input and that value written at (j,i) of the output; got "+trunc(valKey(Tuple(sa)), 200))
			break
		}
		if good {
			aa, sa := realArgs(*at), realArgs(*set)
			good = valKey(aa[0]) == "img" && isJI(aa, 1) && valKey(realArgs(*rgba)[0]) == valKey(at.Res) && valKey(sa[0]) == out && isJI(sa, 1)
			why = "pixel must be read at (j,i) from the input and written at (j,i) of the output"
			if good {
				col, _ := sa[3].(*Agg)
				tp, _ := rgba.Res.(Tuple)
				good = col != nil && len(col.Elems) == 4 && len(tp) == 4
				for c := 0; c < 3 && good; c++ {
					good = low16Of(e, col.Elems[c], tp[c])
				}
				if good {
					if arm == "*image.NRGBA" {
						good = low16Of(e, col.Elems[3], tp[3])
					} else {
						good = valKey(col.Elems[3]) == "65535"
					}
				}
				why = "RGBA64{R,G,B,A} must be the uint16 of .RGBA() results positionally" + map[bool]string{true: "", false: " with A = 65535"}[arm == "*image.NRGBA"] + "; got " + trunc(valKey(sa[3]), 200)
			}
		}
		r.Check(good, rule, key, ws.Pos, "SetRGBA64(j, i, RGBA64 of the input pixel's RGBA())", why)
	case "*image.YCbCr→*image.NRGBA", "*image.YCbCr→*image.RGBA":
		at := find(").YCbCrAt")
		conv := find("color.YCbCrToRGB")
		tnm := strings.TrimPrefix(target, "*image.")
		set := find(").Set" + tnm)
		yo, co := find("(*image.YCbCr).YOffset"), find("(*image.YCbCr).COffset")
		planes := at == nil && yo != nil && co != nil
		good := (at != nil || planes) && conv != nil
		why := "expected per pixel: YCbCrAt(j,i) (or the planes at YOffset/COffset(j,i)), color.YCbCrToRGB and one write of {r, g, b, 255} at (j,i)"
		for _, ev := range cf.Calls {
			if !(strings.HasSuffix(ev.Fn, ").YCbCrAt") || strings.HasSuffix(ev.Fn, "color.YCbCrToRGB") || strings.HasSuffix(ev.Fn, ").Set"+tnm) || strings.HasSuffix(ev.Fn, ".PixOffset") ||
				planes && (strings.HasSuffix(ev.Fn, "(*image.YCbCr).YOffset") || strings.HasSuffix(ev.Fn, "(*image.YCbCr).COffset"))) {
				good, why = false, "unexpected call "+ev.Fn
			}
		}
		if good && planes {
			// YCbCrAt(x,y) of an in-bounds point is {Y[YOffset(x,y)], Cb[COffset(x,y)], Cr[COffset(x,y)]} (image.YCbCr)
			ya, ca2, ca := realArgs(*yo), realArgs(*co), realArgs(*conv)
			good = len(ya) == 3 && len(ca2) == 3 && valKey(ya[0]) == "img" && isJI(ya, 1) && valKey(ca2[0]) == "img" && isJI(ca2, 1) && len(ca) == 3
			why = "the plane offsets must be YOffset(j,i) and COffset(j,i) of the input"
			if good {
				for k, w := range []struct {
					plane string
					off   Val
				}{{"img.Y", yo.Res}, {"img.Cb", co.Res}, {"img.Cr", co.Res}} {
					va := appOf(e, ca[k])
					if va == nil || va.Fn != "index" || len(va.Args) != 2 || valKey(va.Args[0]) != w.plane || valKey(va.Args[1]) != valKey(w.off) {
						good = false
						why = fmt.Sprintf("YCbCrToRGB argument %d is %s; required %s[%s(j,i)]", k+1, trunc(valKey(ca[k]), 120), w.plane, map[bool]string{true: "YOffset", false: "COffset"}[k == 0])
						break
					}
				}
			}
		} else if good {
			aa, ca := realArgs(*at), realArgs(*conv)
			px, _ := at.Res.(*Agg)
			good = valKey(aa[0]) == "img" && isJI(aa, 1) && px != nil && len(ca) == 3 && valKey(ca[0]) == valKey(px.Elems[0]) && valKey(ca[1]) == valKey(px.Elems[1]) && valKey(ca[2]) == valKey(px.Elems[2])
			why = "pixel must be read at (j,i) and converted with YCbCrToRGB(Y, Cb, Cr)"
		}
		if good {
			tp, _ := conv.Res.(Tuple)
			switch {
			case set != nil && len(cf.Stores) == 0:
				sa := realArgs(*set)
				col, _ := sa[3].(*Agg)
				good = valKey(sa[0]) == out && isJI(sa, 1) && col != nil && len(col.Elems) == 4 && len(tp) == 3 && valKey(col.Elems[0]) == valKey(tp[0]) && valKey(col.Elems[1]) == valKey(tp[1]) && valKey(col.Elems[2]) == valKey(tp[2]) && valKey(col.Elems[3]) == "255"
				why = "NRGBA must be {r, g, b, 255} of YCbCrToRGB positionally, set at (j,i); got " + trunc(valKey(sa[3]), 160)
			case set == nil && len(cf.Stores) == 4 && len(tp) == 3:
				// direct stores out.Pix[PixOffset(j,i)+k] = r, g, b, 255 (what SetNRGBA does)
				wantOut, okW := e.pixOffsetForm(ws.ParentSt, newEv.Res, imagePtrType(p, tnm), 4, j, i)
				outPix := ""
				if op, ok := newEv.Res.(*Ptr); ok && op.Cell != nil {
					outPix = fmt.Sprintf("newimg#%d.Pix", op.Cell.ID)
				}
				wantV := []string{valKey(tp[0]), valKey(tp[1]), valKey(tp[2]), "255"}
				seen := map[int64]bool{}
				good = okW
				for _, sv := range cf.Stores {
					ptr := sv.Recv.(*Ptr)
					idx, _ := sv.Args[3].(*Form)
					m, isC := idx.Sub(wantOut).ConstInt()
					if ptr.Base == nil || ptr.Base.Key != outPix || !isC || m < 0 || m > 3 || seen[m] || valKey(sv.Args[4]) != wantV[m] {
						good, why = false, "the four bytes written are not {r, g, b, 255} at output.Pix[PixOffset(j,i)+0..3]"
						break
					}
					seen[m] = true
				}
			default:
				good, why = false, "the pixel is not written exactly once as {r, g, b, 255}"
			}
		}
		r.Check(good, rule, key, ws.Pos, "output pixel (j,i) = {YCbCrToRGB(Y,Cb,Cr), 255} (Set"+tnm+" or the four Pix bytes; opaque, so premultiplied and straight alpha coincide)", why)
	case "*image.Gray→*image.NRGBA", "*image.Gray→*image.RGBA":
		// draw.Src of a grey pixel into (N)RGBA is {Y, Y, Y, 255} (color.Gray.RGBA is opaque with r=g=b)
		tname := strings.TrimPrefix(target, "*image.")
		var yv Val
		good, why := true, ""
		for _, ev := range cf.Calls {
			switch {
			case strings.HasSuffix(ev.Fn, "(*image.Gray).GrayAt"):
				aa := realArgs(ev)
				if len(aa) == 3 && valKey(aa[0]) == "img" && isJI(aa, 1) {
					if px, ok := ev.Res.(*Agg); ok && len(px.Elems) == 1 {
						yv = px.Elems[0]
					}
				} else {
					good, why = false, "GrayAt is not called at (j,i) of the input"
				}
			case strings.HasSuffix(ev.Fn, ".PixOffset"), strings.HasSuffix(ev.Fn, ").Set"+tname):
			default:
				good, why = false, "unexpected call "+ev.Fn
			}
		}
		if yv == nil && good {
			// the level read directly: input.Pix[PixOffset(j,i)] (one byte per pixel)
			if wantIn, okI := e.pixOffsetForm(ws.ParentSt, &Opaque{Key: "img"}, imagePtrType(p, "Gray"), 1, j, i); okI {
				yv = e.A.App("index", types.Typ[types.Uint8], &Opaque{Key: "img.Pix"}, wantIn)
			}
		}
		if good && yv == nil {
			good, why = false, "the grey level of pixel (j,i) is not read (GrayAt(j,i).Y or Pix[PixOffset(j,i)])"
		}
		if good {
			wantV := []string{valKey(yv), valKey(yv), valKey(yv), "255"}
			set := find(").Set" + tname)
			switch {
			case set != nil && len(cf.Stores) == 0:
				sa := realArgs(*set)
				col, _ := sa[3].(*Agg)
				good = valKey(sa[0]) == out && isJI(sa, 1) && col != nil && len(col.Elems) == 4
				for k := 0; good && k < 4; k++ {
					good = valKey(col.Elems[k]) == wantV[k]
				}
				why = "the colour set at (j,i) must be {Y, Y, Y, 255}; got " + trunc(valKey(sa[3]), 160)
			case set == nil && len(cf.Stores) == 4:
				wantOut, okW := e.pixOffsetForm(ws.ParentSt, newEv.Res, imagePtrType(p, tname), 4, j, i)
				outPix := ""
				if op, ok := newEv.Res.(*Ptr); ok && op.Cell != nil {
					outPix = fmt.Sprintf("newimg#%d.Pix", op.Cell.ID)
				}
				seen := map[int64]bool{}
				good = okW
				for _, sv := range cf.Stores {
					ptr := sv.Recv.(*Ptr)
					idx, _ := sv.Args[3].(*Form)
					m, isC := idx.Sub(wantOut).ConstInt()
					if ptr.Base == nil || ptr.Base.Key != outPix || !isC || m < 0 || m > 3 || seen[m] || valKey(sv.Args[4]) != wantV[m] {
						good, why = false, "the four bytes written are not {Y, Y, Y, 255} at output.Pix[PixOffset(j,i)+0..3]: "+trunc(valKey(sv.Args[4]), 100)
						break
					}
					seen[m] = true
				}
			default:
				good, why = false, "the pixel is not written exactly once as {Y, Y, Y, 255}"
			}
		}
		r.Check(good, rule, key, ws.Pos, "output pixel (j,i) = {Y, Y, Y, 255} of the input's grey level at (j,i)", why)
	default:
		r.Undecide(rule, key, ws.Pos, "conversion arm "+arm+"→"+target+" is not in the checker's table of colour-model conversions")
	}
}

// low16Of reports whether v is uint16(src) (the low 16 bits of src, or src itself).
func low16Of(e *Engine, v, src Val) bool {
	vf, ok1 := v.(*Form)
	sf, ok2 := src.(*Form)
	if !ok1 || !ok2 {
		return false
	}
	sa, ok := sf.SingleAtom()
	if !ok {
		return false
	}
	if vf.Equal(sf) {
		return true
	}
	va, ok := vf.SingleAtom()
	if !ok {
		return false
	}
	at := e.A.get(va)
	if at == nil || at.Kind != "bv" {
		return false
	}
	runs := at.BV.Runs()
	if len(runs) == 0 || runs[0].Kind != 'a' || runs[0].A != sa || runs[0].Lo != 0 || runs[0].Width != 16 || runs[0].At != 0 {
		return false
	}
	for _, rr := range runs[1:] {
		if rr.Kind != '0' {
			return false
		}
	}
	return true
}

// imagePtrType returns the type *image.<name>.
func imagePtrType(p *Program, name string) types.Type {
	pk := p.ByPath["image"]
	if pk == nil {
		return nil
	}
	obj := pk.Types.Scope().Lookup(name)
	if obj == nil {
		return nil
	}
	return types.NewPointer(obj.Type())
}

// pureObserver: a module function that writes nothing but its own locals and calls
// only functions of the same kind, read-only geometry methods of the image package
// and error constructors: calling it on an image changes nothing.
func pureObserver(f *ssa.Function, depth int) bool {
	if f == nil || depth > 4 {
		return false
	}
	if !isPrismFn(f) || len(f.Blocks) == 0 {
		if f.Pkg == nil {
			return false
		}
		switch f.Pkg.Pkg.Path() {
		case "image":
			switch f.Name() {
			case "YOffset", "COffset", "PixOffset", "Empty", "Dx", "Dy", "Bounds", "In", "Size", "Eq", "Overlaps", "Intersect", "Canon":
				return true
			}
		case "fmt":
			return f.Name() == "Errorf" || f.Name() == "Sprintf"
		case "errors":
			return f.Name() == "New"
		}
		return false
	}
	for _, b := range f.Blocks {
		for _, in := range b.Instrs {
			switch x := in.(type) {
			case *ssa.Store:
				base := x.Addr
				for {
					switch y := base.(type) {
					case *ssa.FieldAddr:
						base = y.X
						continue
					case *ssa.IndexAddr:
						base = y.X
						continue
					}
					break
				}
				if _, ok := base.(*ssa.Alloc); !ok {
					return false
				}
			case *ssa.MapUpdate, *ssa.Go, *ssa.Defer, *ssa.Send:
				return false
			case *ssa.Call:
				if _, isB := x.Call.Value.(*ssa.Builtin); isB {
					continue
				}
				if x.Call.IsInvoke() || !pureObserver(staticCallee(x), depth+1) {
					return false
				}
			}
		}
	}
	return true
}
