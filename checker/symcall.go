package main

import (
	"fmt"
	"go/types"
	"strings"

	"golang.org/x/tools/go/ssa"
)

// ---------------------------------------------------------------------------
// calls, library models, package initialisers

func valueOutcome(st *State, v Val) Outcome { return Outcome{Kind: "value", St: st, Ret: v} }

func (e *Engine) doCall(st *State, fr *frame, in *ssa.Call, depth int) []Outcome {
	cc := in.Common()
	args := make([]Val, len(cc.Args))
	for i, a := range cc.Args {
		args[i] = e.val(st, fr, a)
	}
	rt := in.Type()

	if cc.IsInvoke() {
		recv := e.val(st, fr, cc.Value)
		name := cc.Method.Name()
		if rd, ok := recv.(*ReaderVal); ok {
			if outs, ok := e.readerMethod(st, rd, name, args, rt, in); ok {
				return outs
			}
		}
		// method on a value with a known concrete pointer type defined in prism
		if p, ok := recv.(*Ptr); ok && p.Cell != nil {
			if fn := e.lookupMethod(types.NewPointer(p.Cell.Type), cc.Method); fn != nil && isPrismFn(fn) && len(fn.Blocks) > 0 {
				return e.inline(st, fn, append([]Val{recv}, args...), nil, depth)
			}
		}
		iname := "invoke:" + name
		if e.SeqCalls != nil && e.SeqCalls(name) {
			n := 0
			for _, ev := range st.events {
				if ev.Fn == name {
					n++
				}
			}
			iname = fmt.Sprintf("invoke:%s@%d", name, n)
		}
		res := e.appOfType(iname, rt, append([]Val{recv}, args...)...)
		st.addEvent(Event{Kind: "invoke", Fn: name, Recv: recv, Args: args, Res: res, Pos: in.Pos()})
		return []Outcome{valueOutcome(st, res)}
	}

	switch callee := cc.Value.(type) {
	case *ssa.Builtin:
		v, why := e.builtin(st, callee.Name(), args, rt, in)
		if why != "" {
			return e.stuck(st, why, in.Pos())
		}
		return []Outcome{valueOutcome(st, v)}
	case *ssa.Function:
		return e.staticCall(st, callee, args, nil, rt, in, depth)
	}
	// dynamic: function value
	fv := e.val(st, fr, cc.Value)
	switch f := fv.(type) {
	case *FuncVal:
		return e.staticCall(st, f.Fn, args, f.Bindings, rt, in, depth)
	case *Opaque:
		res := e.appOfType("call:"+f.Key, rt, args...)
		st.addEvent(Event{Kind: "call", Fn: f.Key, Args: args, Res: res, Pos: in.Pos()})
		return []Outcome{valueOutcome(st, res)}
	}
	return e.stuck(st, "call of "+valKey(fv), in.Pos())
}

func (e *Engine) lookupMethod(t types.Type, m *types.Func) *ssa.Function {
	sel := e.P.SSA.MethodSets.MethodSet(t).Lookup(m.Pkg(), m.Name())
	if sel == nil {
		return nil
	}
	return e.P.SSA.MethodValue(sel)
}

func (e *Engine) inline(st *State, fn *ssa.Function, args, bindings []Val, depth int) []Outcome {
	outs := e.call(st, fn, args, bindings, depth+1)
	for i := range outs {
		if outs[i].Kind == "return" {
			outs[i].Kind = "value"
		}
	}
	return outs
}

func fnFullName(fn *ssa.Function) string { return fn.String() }

func (e *Engine) staticCall(st *State, fn *ssa.Function, args, bindings []Val, rt types.Type, in *ssa.Call, depth int) []Outcome {
	name := fnFullName(fn)
	if outs, ok := e.model(st, name, fn, args, rt, in); ok {
		return outs
	}
	if isPrismFn(fn) && len(fn.Blocks) > 0 && (e.Opaque == nil || !e.Opaque(fn)) {
		if e.TraceCalls != nil && e.TraceCalls(fn) {
			st.addEvent(Event{Kind: "trace", Fn: shortFn(fn), Args: args, Pos: in.Pos()})
		}
		return e.inline(st, fn, args, bindings, depth)
	}
	short := shortFn(fn)
	cname := "call:" + short
	if e.SeqCalls != nil && e.SeqCalls(short) {
		n := 0
		for _, ev := range st.events {
			if ev.Fn == short {
				n++
			}
		}
		cname = fmt.Sprintf("call:%s@%d", short, n)
	}
	res := e.appOfType(cname, rt, args...)
	st.addEvent(Event{Kind: "call", Fn: short, Args: args, Res: res, Pos: in.Pos()})
	return []Outcome{valueOutcome(st, res)}
}

func (e *Engine) builtin(st *State, name string, args []Val, rt types.Type, in *ssa.Call) (Val, string) {
	switch name {
	case "len", "cap":
		switch a := args[0].(type) {
		case *SliceVal:
			return a.Len, ""
		case *StrVal:
			return formInt(int64(len(a.S))), ""
		case *Agg:
			return formInt(int64(len(a.Elems))), ""
		case *MapVal:
			return e.A.App("len", rt, a), ""
		}
		return e.A.App(name, rt, args[0]), ""
	case "recover":
		return &Opaque{Key: "nil", Type: rt}, ""
	case "append", "copy", "min", "max":
		return e.appOfType(name, rt, args...), ""
	case "print", "println", "delete", "close":
		return nil, ""
	}
	return nil, "unsupported builtin " + name
}

// sliceElems returns the elements of a slice literal value (variadic args).
func (e *Engine) sliceElems(st *State, v Val) ([]Val, bool) {
	s, ok := v.(*SliceVal)
	if !ok {
		return nil, false
	}
	if s.Nil {
		return nil, true
	}
	if s.Arr == nil {
		return nil, false
	}
	arr, ok := selectPath(e.cellVal(st, s.Arr.Cell), s.Arr.Path)
	if !ok {
		return nil, false
	}
	a, ok := arr.(*Agg)
	if !ok {
		return nil, false
	}
	lo, ok1 := s.Lo.ConstInt()
	n, ok2 := s.Len.ConstInt()
	if !ok1 || !ok2 || lo < 0 || int(lo+n) > len(a.Elems) {
		return nil, false
	}
	return a.Elems[lo : lo+n], true
}

// model implements the library contracts the analysis trusts.
func (e *Engine) model(st *State, name string, fn *ssa.Function, args []Val, rt types.Type, in *ssa.Call) ([]Outcome, bool) {
	one := func(v Val) ([]Outcome, bool) { return []Outcome{valueOutcome(st, v)}, true }
	switch name {
	case "math.Pow":
		return one(e.A.App("pow", rt, args[0], args[1]))
	case "math.Sqrt", "math.Cbrt", "math.Abs", "math.Floor", "math.Ceil", "math.Round", "math.Exp", "math.Log", "math.Max", "math.Min", "math.Trunc":
		return one(e.A.App(strings.ToLower(strings.TrimPrefix(name, "math.")), rt, args...))
	case "fmt.Errorf", "errors.New":
		d := "?"
		if s, ok := args[0].(*StrVal); ok {
			d = s.S
		}
		return one(&ErrVal{IsNil: false, Desc: d})
	case "fmt.Sprintf":
		el, _ := e.sliceElems(st, args[1])
		return one(&Opaque{Key: "sprintf(" + valKey(args[0]) + "," + valKey(Tuple(el)) + ")", Type: rt, Fn: "sprintf", Args: append([]Val{args[0]}, el...)})
	case "(*sync.Once).Do":
		return one(nil)
	case "(*strings.Builder).WriteByte":
		st.addEvent(Event{Kind: "call", Fn: "(*strings.Builder).WriteByte", Args: args, Pos: in.Pos()})
		return one(&ErrVal{IsNil: true})
	case "(*strings.Builder).Len":
		n := int64(0)
		for _, ev := range st.events {
			if ev.Fn == "(*strings.Builder).WriteByte" && len(ev.Args) > 0 && valKey(ev.Args[0]) == valKey(args[0]) {
				n++
			}
		}
		return one(formInt(n))
	case "image.NewRGBA", "image.NewNRGBA", "image.NewRGBA64", "image.NewNRGBA64":
		// a fresh image whose Rect is the argument; pixel storage is a fresh
		// opaque slice (contract of the image package constructors)
		pt, ok := rt.(*types.Pointer)
		if !ok {
			return nil, false
		}
		stt, ok := pt.Elem().Underlying().(*types.Struct)
		if !ok {
			return nil, false
		}
		c := e.newCell("newimg", pt.Elem())
		a := &Agg{Type: pt.Elem(), Elems: make([]Val, stt.NumFields())}
		for i := 0; i < stt.NumFields(); i++ {
			f := stt.Field(i)
			switch f.Name() {
			case "Rect":
				a.Elems[i] = args[0]
			case "Pix":
				base := &Opaque{Key: fmt.Sprintf("newimg#%d.Pix", c.ID), Type: f.Type(), Fn: "newpix"}
				a.Elems[i] = &SliceVal{Base: base, Lo: formInt(0), Len: e.A.App("len", types.Typ[types.Int], base), Elem: types.Typ[types.Uint8]}
			default:
				a.Elems[i] = e.SymVal(fmt.Sprintf("newimg#%d.%s", c.ID, f.Name()), f.Type())
			}
		}
		st.mem[c] = a
		st.addEvent(Event{Kind: "call", Fn: name, Args: args, Res: &Ptr{Cell: c}, Pos: in.Pos()})
		return one(&Ptr{Cell: c})
	case "bytes.NewReader":
		sl, ok := args[0].(*SliceVal)
		if !ok {
			return nil, false
		}
		e.streams++
		s := &Stream{Name: fmt.Sprintf("mem%d", e.streams), Data: sl}
		st.pos[s] = formInt(0)
		return one(&ReaderVal{S: s})
	case "bufio.NewReader", "bufio.NewReaderSize":
		if rd, ok := args[0].(*ReaderVal); ok {
			return one(rd)
		}
		return nil, false
	case "(*bytes.Reader).ReadByte", "(*bytes.Reader).Read", "(*bytes.Reader).Len", "(*bufio.Reader).ReadByte", "(*bufio.Reader).Read":
		if rd, ok := args[0].(*ReaderVal); ok {
			m := name[strings.LastIndex(name, ".")+1:]
			return e.readerMethod(st, rd, m, args[1:], rt, in)
		}
		return nil, false
	case "io.ReadFull":
		if rd, ok := args[0].(*ReaderVal); ok {
			return e.readInto(st, rd, args[1], rt, "io.ReadFull", in)
		}
		return nil, false
	case "io.CopyN":
		if rd, ok := args[1].(*ReaderVal); ok {
			n, _ := args[2].(*Form)
			if n == nil {
				return nil, false
			}
			pos := e.streamPos(st, rd.S)
			content := &Opaque{Key: fmt.Sprintf("%s[%s:+%s]", rd.S.Name, pos.Key(), n.Key()), Fn: "bytes", Args: []Val{&StrVal{S: rd.S.Name}, pos, n}}
			var outs []Outcome
			ok := st
			if e.FailReads {
				bad := st.clone()
				bad.addEvent(Event{Kind: "readfail", Fn: "io.CopyN", Args: []Val{pos, n}, Pos: in.Pos()})
				outs = append(outs, valueOutcome(bad, Tuple{e.A.App("short", types.Typ[types.Int64], pos), &ErrVal{IsNil: false, Desc: "io.CopyN failed"}}))
			}
			ok.pos[rd.S] = pos.Add(n)
			ok.addEvent(Event{Kind: "copyn", Fn: "io.CopyN", Recv: args[0], Args: []Val{content, pos, n}, Pos: in.Pos()})
			outs = append([]Outcome{valueOutcome(ok, Tuple{n, &ErrVal{IsNil: true}})}, outs...)
			return outs, true
		}
		return nil, false
	}
	return nil, false
}

func (e *Engine) streamPos(st *State, s *Stream) *Form {
	if p, ok := st.pos[s]; ok {
		if r := st.resolve(p); r != p {
			st.pos[s] = r
			return r
		}
		return p
	}
	st.pos[s] = formInt(0)
	return st.pos[s]
}

// streamByte is the abstract value of byte number off of a stream.
func (e *Engine) streamByte(st *State, s *Stream, off *Form) Val {
	if s.Data != nil {
		d := s.Data
		idx := d.Lo.Add(off)
		if d.Arr != nil {
			if c, ok := idx.ConstInt(); ok {
				if arr, ok := selectPath(e.cellVal(st, d.Arr.Cell), d.Arr.Path); ok {
					if a, ok := arr.(*Agg); ok && c >= 0 && int(c) < len(a.Elems) {
						return a.Elems[c]
					}
				}
			}
		}
		if d.Base != nil {
			return e.elemOf(d.Base, idx, types.Typ[types.Uint8])
		}
	}
	return e.A.Byte(s.Name, off)
}

// streamLen is the abstract length of an in-memory stream (nil otherwise).
func (e *Engine) streamLen(s *Stream) *Form {
	if s.Data != nil {
		return s.Data.Len
	}
	return nil
}

func (e *Engine) readerMethod(st *State, rd *ReaderVal, name string, args []Val, rt types.Type, in *ssa.Call) ([]Outcome, bool) {
	switch name {
	case "ReadByte":
		pos := e.streamPos(st, rd.S)
		var outs []Outcome
		okSt := st
		if e.FailReads {
			bad := st.clone()
			if l := e.streamLen(rd.S); l != nil {
				bad.conds = append(bad.conds, &BoolVal{Op: ">=", A: pos, B: l})
			}
			bad.addEvent(Event{Kind: "readfail", Fn: "ReadByte", Args: []Val{pos}, Pos: in.Pos()})
			outs = append(outs, valueOutcome(bad, Tuple{formInt(0), &ErrVal{IsNil: false, Desc: "ReadByte failed"}}))
		}
		if l := e.streamLen(rd.S); l != nil {
			okSt.conds = append(okSt.conds, &BoolVal{Op: "<", A: pos, B: l})
		}
		b := e.streamByte(okSt, rd.S, pos)
		okSt.pos[rd.S] = pos.Add(formInt(1))
		outs = append([]Outcome{valueOutcome(okSt, Tuple{b, &ErrVal{IsNil: true}})}, outs...)
		return outs, true
	case "Read":
		return e.readInto(st, rd, args[0], rt, "Read", in)
	case "Len":
		if l := e.streamLen(rd.S); l != nil {
			return []Outcome{valueOutcome(st, l.Sub(e.streamPos(st, rd.S)))}, true
		}
	}
	return nil, false
}

// readInto models io.ReadFull(r, buf) / r.Read(buf) on its success path
// (buf completely filled with the next len(buf) stream bytes) and, with
// FailReads, the failure path.
func (e *Engine) readInto(st *State, rd *ReaderVal, bufv Val, rt types.Type, what string, in *ssa.Call) ([]Outcome, bool) {
	buf, ok := bufv.(*SliceVal)
	if !ok {
		return nil, false
	}
	pos := e.streamPos(st, rd.S)
	var outs []Outcome
	if e.FailReads {
		bad := st.clone()
		bad.addEvent(Event{Kind: "readfail", Fn: what, Args: []Val{pos, buf.Len}, Pos: in.Pos()})
		outs = append(outs, valueOutcome(bad, Tuple{e.A.App("short", types.Typ[types.Int], pos), &ErrVal{IsNil: false, Desc: what + " failed"}}))
	}
	n := buf.Len
	if l := e.streamLen(rd.S); l != nil {
		st.conds = append(st.conds, &BoolVal{Op: "<=", A: pos.Add(n), B: l})
	}
	if c, isConst := n.ConstInt(); isConst && buf.Arr != nil && c <= 4096 {
		lo, okLo := buf.Lo.ConstInt()
		if !okLo {
			return nil, false
		}
		for k := int64(0); k < c; k++ {
			p := &Ptr{Cell: buf.Arr.Cell, Path: append(append([]int(nil), buf.Arr.Path...), int(lo+k))}
			if why := e.store(st, p, e.streamByte(st, rd.S, pos.Add(formInt(k)))); why != "" {
				return nil, false
			}
		}
	} else {
		content := &Opaque{Key: fmt.Sprintf("%s[%s:+%s]", rd.S.Name, pos.Key(), n.Key()), Fn: "bytes", Args: []Val{&StrVal{S: rd.S.Name}, pos, n}}
		st.addEvent(Event{Kind: "readinto", Fn: what, Recv: bufv, Args: []Val{content, pos, n}, Pos: in.Pos()})
	}
	st.pos[rd.S] = pos.Add(n)
	outs = append([]Outcome{valueOutcome(st, Tuple{n, &ErrVal{IsNil: true}})}, outs...)
	return outs, true
}

// ---------------------------------------------------------------------------
// package initialisers

// globalInitVal returns the value a package-level variable holds after its
// package's initialiser, computed by abstractly interpreting the initialiser.
func (e *Engine) globalInitVal(g *ssa.Global) (Val, bool) {
	if !e.EvalInits || g.Pkg == nil || !isPrismPkg(g.Pkg.Pkg) {
		return nil, false
	}
	if !e.initDone[g.Pkg] {
		e.initDone[g.Pkg] = true
		initFn := g.Pkg.Func("init")
		if initFn != nil && len(initFn.Blocks) > 0 {
			sub := *e
			sub.Opaque = func(fn *ssa.Function) bool {
				// other packages' initialisers and declared init functions are not followed
				return fn.Name() == "init" || strings.HasPrefix(fn.Name(), "init#")
			}
			sub.FailReads = false
			sub.inInit = true
			savedSteps := e.steps
			outs := sub.call(newState(), initFn, nil, nil, 0)
			e.steps = savedSteps
			e.nextCell = sub.nextCell
			for _, o := range outs {
				if o.Kind != "return" {
					continue
				}
				for gg, c := range e.globals {
					if gg.Pkg == g.Pkg {
						if v, ok := o.St.mem[c]; ok {
							e.initVals[gg] = v
						}
					}
				}
				break
			}
		}
	}
	v, ok := e.initVals[g]
	return v, ok
}

// ---------------------------------------------------------------------------
// loop summaries

// summariseLoop handles a loop whose trip count is symbolic but whose body
// only consumes a constant number of stream bytes per iteration:
//
//	for i := init; i < N; i++ { _, err := r.ReadByte(); if err != nil { return err } }
//
// The loop is replaced by  pos += c*(N - init)  and execution continues at the
// loop exit. Anything else is reported as not summarised.
func (e *Engine) summariseLoop(st *State, fr *frame, b *ssa.BasicBlock, ifi *ssa.If, c *BoolVal, depth int) ([]Outcome, bool) {
	fail := func(why string) ([]Outcome, bool) { e.loopWhy = why; return nil, false }
	e.loopWhy = ""
	// recognise the counter
	var iv *IndVar
	nphi := 0
	for _, in := range b.Instrs {
		phi, ok := in.(*ssa.Phi)
		if !ok {
			break
		}
		nphi++
		if cand := findIndVar(phi); cand != nil && ssa.Value(cand.Cond) == ifi.Cond {
			iv = cand
		}
	}
	if iv == nil || nphi != 1 || iv.Op.String() != "<" {
		return fail(fmt.Sprintf("the loop carries %d variables besides a simple `i < N` counter (a running offset or accumulator makes iterations depend on each other)", nphi-1))
	}
	stepV, okS := e.val(st, fr, iv.Step).(*Form)
	if !okS {
		return fail("non-numeric step")
	}
	unitStep := stepV.Equal(formInt(1))
	initV, ok1 := fr.env[iv.Phi].(*Form) // value on first arrival = init
	limit, ok2 := e.val(st, fr, iv.Limit).(*Form)
	if !ok1 || !ok2 {
		return fail("non-numeric loop bounds")
	}
	first := initV // first counter value seen by the body
	if iv.PreInc {
		first = initV.Add(stepV)
	}
	// interpret one generic iteration; when the body consumes stream bytes the
	// interpretation is repeated with the stream positioned at
	// start + (k − first)·consumption so that byte provenance is that of
	// iteration k, not of the first iteration
	e.nextCell++
	k := e.A.Var(fmt.Sprintf("iter#%d", e.nextCell), iv.Phi.Type())
	before := map[*Stream]*Form{}
	for s, p := range st.pos {
		before[s] = p
	}
	memBefore := map[*Cell]string{}
	for c, v := range st.mem {
		memBefore[c] = valKey(v)
	}
	nEv := len(st.events)
	var back *Outcome
	var exits []Outcome
	runBody := func(startPos map[*Stream]*Form) ([]Outcome, bool) {
		stB := st.clone()
		for s, p := range startPos {
			stB.pos[s] = p
		}
		frB := fr.clone()
		if iv.PreInc {
			frB.env[iv.Phi] = k.Sub(stepV)
			frB.env[iv.Next] = k
		} else {
			frB.env[iv.Phi] = k
		}
		frB.stopAt = b
		frB.forks[b] = 0
		outs := e.exec(stB, frB, b.Succs[0], b, 0, depth)
		back, exits = nil, nil
		for i := range outs {
			switch outs[i].Kind {
			case "loopback":
				if back != nil {
					return fail("the loop body reaches the back edge on more than one path")
				}
				back = &outs[i]
			case "return", "panic":
				exits = append(exits, outs[i])
			default:
				return fail("the loop body is not extractable: " + outs[i].Why)
			}
		}
		if back == nil {
			return fail("the loop body never reaches the back edge")
		}
		return nil, true
	}
	if _, ok := runBody(nil); !ok {
		return nil, false
	}
	// per-iteration consumption
	shifted := map[*Stream]*Form{}
	for s, p := range back.St.pos {
		b0, ok := before[s]
		if !ok {
			b0 = formInt(0)
		}
		d := p.Sub(b0)
		if c, isC := d.ConstInt(); isC && c == 0 {
			continue
		}
		if !unitStep {
			return fail("the loop consumes stream bytes but does not count in steps of 1")
		}
		for a := range d.Atoms() {
			if a == func() string { n, _ := k.SingleAtom(); return n }() {
				return fail("the number of bytes consumed per iteration depends on the iteration")
			}
		}
		shifted[s] = b0.Add(k.Sub(first).Mul(d))
	}
	if len(shifted) > 0 {
		if _, ok := runBody(shifted); !ok {
			return nil, false
		}
		// the shifted run must consume the same amount
		for s, start := range shifted {
			d1 := back.St.pos[s].Sub(start)
			d0 := start.Sub(before[s]) // = (k-first)*d
			_ = d0
			b0 := before[s]
			if b0 == nil {
				b0 = formInt(0)
			}
			// consumption per iteration d = (shifted start − b0)/(k − first); compare via cross-multiplication
			if !d1.Mul(k.Sub(first)).Equal(start.Sub(b0)) {
				return fail("the number of bytes consumed per iteration depends on the position")
			}
			// normalise back.St.pos to "b0 + d" so that the generic code below sees the per-iteration delta
			back.St.pos[s] = b0.Add(d1)
		}
	}
	// the iteration may only advance stream positions by constants
	for c, kBefore := range memBefore {
		if v, ok := back.St.mem[c]; !ok || valKey(v) != kBefore {
			return fail("the loop body modifies variable " + c.Name + " that outlives the iteration (shared between iterations / workers)")
		}
	}
	var loopStores []Event
	for _, ev := range back.St.events[nEv:] {
		switch ev.Kind {
		case "readfail":
		case "store":
			// element store table[f(k)] = g(k): kept as a loop-store fact
			ptr, _ := ev.Recv.(*Ptr)
			if ptr == nil || ptr.SymIdx == nil {
				return fail("the loop body stores through " + valKey(ev.Recv) + ", which is not an element indexed by the iteration")
			}
			loopStores = append(loopStores, Event{Kind: "loop-store", Fn: "loop-store", Recv: ptr, Args: []Val{k, first, limit, ptr.SymIdx, ev.Args[0]}, Pos: ev.Pos})
		case "loop-store", "loop-call", "loop-invoke", "loop-summary":
			// facts of an inner loop pass through unchanged
			loopStores = append(loopStores, ev)
		case "call", "invoke":
			// calls inside the generic iteration are recorded with the iteration variable
			loopStores = append(loopStores, Event{Kind: "loop-" + ev.Kind, Fn: ev.Fn, Recv: ev.Recv, Args: append([]Val{k, first, limit}, ev.Args...), Res: ev.Res, Pos: ev.Pos})
		default:
			return fail("the loop body has an effect of kind " + ev.Kind)
		}
	}
	trips := limit.Sub(first)
	for s, p := range back.St.pos {
		b0, ok := before[s]
		if !ok {
			b0 = formInt(0)
		}
		d := p.Sub(b0)
		if c, isC := d.ConstInt(); isC && c == 0 {
			continue
		}
		if c, isC := d.ConstInt(); isC && c < 0 {
			return fail("the loop body moves the stream backwards")
		}
		if !unitStep {
			return fail("the loop consumes stream bytes but does not count in steps of 1")
		}
		st.pos[s] = b0.Add(trips.Mul(d))
	}
	st.addEvent(Event{Kind: "loop-summary", Fn: "loop", Args: []Val{first, limit, stepV, k}, Pos: e.condPos(ifi)})
	st.events = append(st.events, loopStores...)
	for _, ls := range loopStores {
		if ls.Kind == "loop-store" {
			ptr := ls.Recv.(*Ptr)
			if ptr.Cell != nil {
				if nv, ok := updatePath(e.cellVal(st, ptr.Cell), ptr.Path, &Opaque{Key: fmt.Sprintf("filled-by-loop#%d", ptr.Cell.ID)}); ok {
					st.mem[ptr.Cell] = nv
				}
			}
		}
	}
	if iv.PreInc {
		fr.env[iv.Phi] = limit.Sub(formInt(1))
		fr.env[iv.Next] = limit
	} else {
		fr.env[iv.Phi] = limit
	}
	res := e.exec(st, fr, b.Succs[1], b, 0, depth)
	res = append(res, exits...)
	return res, true
}
