package main

import (
	"fmt"
	"go/token"
	"go/types"
	"strings"

	"golang.org/x/tools/go/ssa"
)

// ---------------------------------------------------------------------------
// calls, library models, package initialisers

func valueOutcome(st *State, v Val) Outcome { return Outcome{Kind: "value", St: st, Ret: v} }

func (e *Engine) doCall(st *State, fr *frame, in ssa.CallInstruction, depth int) []Outcome {
	cc := in.Common()
	args := make([]Val, len(cc.Args))
	for i, a := range cc.Args {
		args[i] = e.val(st, fr, a)
	}
	var rt types.Type
	if v := in.Value(); v != nil {
		rt = v.Type()
	} else {
		// defer / go: the results are discarded
		res := cc.Signature().Results()
		switch res.Len() {
		case 0:
			rt = types.NewTuple()
		case 1:
			rt = res.At(0).Type()
		default:
			rt = res
		}
	}

	if cc.IsInvoke() {
		return e.invoke(st, e.val(st, fr, cc.Value), cc.Method, args, rt, in, depth)
	}

	switch callee := cc.Value.(type) {
	case *ssa.Builtin:
		v, why := e.builtin(st, callee.Name(), args, rt, in)
		if why != "" {
			return e.stuck(st, why, in.Pos())
		}
		return []Outcome{valueOutcome(st, v)}
	case *ssa.Function:
		return e.staticCall(st, callee, args, nil, rt, in, depth)
	}
	// dynamic: function value
	fv := e.val(st, fr, cc.Value)
	switch f := fv.(type) {
	case *FuncVal:
		return e.staticCall(st, f.Fn, args, f.Bindings, rt, in, depth)
	case *Opaque:
		res := e.appOfType("call:"+f.Key, rt, args...)
		st.addEvent(Event{Kind: "call", Fn: f.Key, Args: args, Res: res, Pos: in.Pos()})
		return []Outcome{valueOutcome(st, res)}
	}
	return e.stuck(st, "call of "+valKey(fv), in.Pos())
}

// invoke is a method call on an interface value.
func (e *Engine) invoke(st *State, recv Val, method *types.Func, args []Val, rt types.Type, in ssa.CallInstruction, depth int) []Outcome {
	{
		name := method.Name()
		if rd, ok := recv.(*ReaderVal); ok {
			if outs, ok := e.readerMethod(st, rd, name, args, rt, in); ok {
				return outs
			}
		}
		// method on a value whose concrete pointer type is known: dispatch statically
		// (prism methods are inlined, library methods go through their models)
		if p, ok := recv.(*Ptr); ok && p.Cell != nil && len(p.Path) == 0 {
			if fn := e.lookupMethod(types.NewPointer(p.Cell.Type), method); fn != nil {
				return e.staticCall(st, fn, append([]Val{recv}, args...), nil, rt, in, depth)
			}
		}
		if o, ok := recv.(*Opaque); ok && o.Fn == "context.Background" {
			// the background context is never cancelled, has no deadline and no values
			switch name {
			case "Err":
				return []Outcome{valueOutcome(st, &ErrVal{IsNil: true})}
			case "Done":
				return []Outcome{valueOutcome(st, &Opaque{Key: "nil", Type: rt})}
			case "Value":
				return []Outcome{valueOutcome(st, &Opaque{Key: "nil", Type: rt})}
			}
		}
		if o, ok := recv.(*Opaque); ok && o.Dyn != nil {
			if fn := e.lookupMethod(o.Dyn, method); fn != nil {
				return e.staticCall(st, fn, append([]Val{recv}, args...), nil, rt, in, depth)
			}
		}
		iname := "invoke:" + name
		if e.SeqCalls != nil && e.SeqCalls(name) {
			n := 0
			for _, ev := range st.events {
				if ev.Fn == name {
					n++
				}
			}
			iname = fmt.Sprintf("invoke:%s@%d", name, n)
		}
		res := e.appOfType(iname, rt, append([]Val{recv}, args...)...)
		st.addEvent(Event{Kind: "invoke", Fn: name, Recv: recv, Args: args, Res: res, Pos: in.Pos()})
		return []Outcome{valueOutcome(st, res)}
	}
}

func (e *Engine) lookupMethod(t types.Type, m *types.Func) *ssa.Function {
	sel := e.P.SSA.MethodSets.MethodSet(t).Lookup(m.Pkg(), m.Name())
	if sel == nil {
		return nil
	}
	return e.P.SSA.MethodValue(sel)
}

func (e *Engine) inline(st *State, fn *ssa.Function, args, bindings []Val, depth int) []Outcome {
	outs := e.call(st, fn, args, bindings, depth+1)
	for i := range outs {
		if outs[i].Kind == "return" {
			outs[i].Kind = "value"
		}
	}
	return outs
}

func fnFullName(fn *ssa.Function) string { return fn.String() }

func (e *Engine) staticCall(st *State, fn *ssa.Function, args, bindings []Val, rt types.Type, in ssa.CallInstruction, depth int) []Outcome {
	// a method value of an interface (x.M bound to x) is the invoke x.M(args)
	if strings.HasPrefix(fn.Synthetic, "bound method wrapper") && len(bindings) == 1 {
		if m, ok := fn.Object().(*types.Func); ok && m != nil {
			if sig, ok := m.Type().(*types.Signature); ok && sig.Recv() != nil && types.IsInterface(sig.Recv().Type()) {
				return e.invoke(st, bindings[0], m, args, rt, in, depth)
			}
		}
	}
	name := fnFullName(fn)
	if outs, ok := e.model(st, name, fn, args, rt, in); ok {
		return outs
	}
	if isPrismFn(fn) && len(fn.Blocks) > 0 && (e.Opaque == nil || !e.Opaque(fn)) && (e.InlineIf == nil || e.InlineIf(st, fn, args, bindings)) {
		if e.TraceCalls != nil && e.TraceCalls(fn) {
			st.addEvent(Event{Kind: "trace", Fn: shortFn(fn), Args: args, Pos: in.Pos()})
		}
		return e.inline(st, fn, args, bindings, depth)
	}
	short := shortFn(fn)
	cname := "call:" + short
	if e.SeqCalls != nil && e.SeqCalls(short) {
		n := 0
		for _, ev := range st.events {
			if ev.Fn == short {
				n++
			}
		}
		cname = fmt.Sprintf("call:%s@%d", short, n)
	}
	res := e.appOfType(cname, rt, args...)
	st.addEvent(Event{Kind: "call", Fn: short, Args: args, Res: res, Pos: in.Pos(), Callee: fn})
	return []Outcome{valueOutcome(st, res)}
}

func (e *Engine) builtin(st *State, name string, args []Val, rt types.Type, in ssa.CallInstruction) (Val, string) {
	switch name {
	case "len", "cap":
		switch a := args[0].(type) {
		case *SliceVal:
			return a.Len, ""
		case *StrVal:
			return formInt(int64(len(a.S))), ""
		case *Agg:
			return formInt(int64(len(a.Elems))), ""
		case *MapVal:
			return e.A.App("len", rt, a), ""
		case *Opaque:
			if a.Fn == "builder.String" && len(a.Args) == 1 {
				return a.Args[0], ""
			}
		}
		return e.A.App(name, rt, args[0]), ""
	case "recover":
		return &Opaque{Key: "nil", Type: rt}, ""
	case "append":
		res := e.appOfType(name, rt, args...)
		st.addEvent(Event{Kind: "append", Fn: "append", Args: args, Res: res, Pos: in.Pos()})
		return res, ""
	case "copy":
		// copy between slices of known arrays with constant bounds: element-wise
		if dst, ok := args[0].(*SliceVal); ok && dst.Arr != nil && dst.Arr.Cell != nil {
			if src, ok := e.sliceElems(st, args[1]); ok {
				lo, ok1 := dst.Lo.ConstInt()
				dn, ok2 := dst.Len.ConstInt()
				if ok1 && ok2 {
					n := int64(len(src))
					if dn < n {
						n = dn
					}
					cur := e.cellVal(st, dst.Arr.Cell)
					okAll := true
					for i := int64(0); i < n; i++ {
						nv, ok := updatePath(cur, append(append([]int(nil), dst.Arr.Path...), int(lo+i)), src[i])
						if !ok {
							okAll = false
							break
						}
						cur = nv
					}
					if okAll {
						st.mem[dst.Arr.Cell] = cur
						return formInt(n), ""
					}
				}
			}
		}
		return e.appOfType(name, rt, args...), ""
	case "min", "max":
		return e.appOfType(name, rt, args...), ""
	case "print", "println", "delete", "close":
		return nil, ""
	}
	return nil, "unsupported builtin " + name
}

// sliceElems returns the elements of a slice literal value (variadic args).
func (e *Engine) sliceElems(st *State, v Val) ([]Val, bool) {
	s, ok := v.(*SliceVal)
	if !ok {
		return nil, false
	}
	if s.Nil {
		return nil, true
	}
	if s.Arr == nil {
		return nil, false
	}
	arr, ok := selectPath(e.cellVal(st, s.Arr.Cell), s.Arr.Path)
	if !ok {
		return nil, false
	}
	a, ok := arr.(*Agg)
	if !ok {
		return nil, false
	}
	lo, ok1 := s.Lo.ConstInt()
	n, ok2 := s.Len.ConstInt()
	if !ok1 || !ok2 || lo < 0 || int(lo+n) > len(a.Elems) {
		return nil, false
	}
	return a.Elems[lo : lo+n], true
}

// textOf decodes a byte slice that was assembled by appending decimal
// renderings (strconv.AppendInt/AppendUint, base 10) and constant bytes to an
// empty slice into its rendering parts (*StrVal / *DecVal).
func (e *Engine) textOf(st *State, v Val, depth int) ([]Val, bool) {
	sl, ok := v.(*SliceVal)
	if !ok || depth > 32 {
		return nil, false
	}
	if b, isB := sl.Elem.Underlying().(*types.Basic); sl.Elem == nil || !isB || b.Kind() != types.Uint8 {
		if !sl.Nil {
			return nil, false
		}
	}
	if sl.Nil {
		return nil, true
	}
	if n, isC := sl.Len.ConstInt(); isC && n == 0 {
		return nil, true
	}
	if els, ok := e.sliceElems(st, sl); ok {
		buf := make([]byte, len(els))
		for i, el := range els {
			f, _ := el.(*Form)
			if f == nil {
				return nil, false
			}
			c, isC := f.ConstInt()
			if !isC || c < 0 || c > 255 {
				return nil, false
			}
			buf[i] = byte(c)
		}
		return []Val{&StrVal{S: string(buf)}}, true
	}
	if sl.Base == nil || !sl.Lo.Equal(formInt(0)) || !sl.Len.Equal(e.A.App("len", types.Typ[types.Int], sl.Base)) {
		return nil, false
	}
	switch sl.Base.Fn {
	case "call:strconv.AppendInt", "call:strconv.AppendUint":
		if len(sl.Base.Args) != 3 {
			return nil, false
		}
		x, okX := sl.Base.Args[1].(*Form)
		base, okB := sl.Base.Args[2].(*Form)
		if !okX || !okB || !base.Equal(formInt(10)) {
			return nil, false
		}
		head, ok := e.textOf(st, sl.Base.Args[0], depth+1)
		if !ok {
			return nil, false
		}
		return append(append([]Val(nil), head...), &DecVal{X: x}), true
	case "append":
		if len(sl.Base.Args) != 2 {
			return nil, false
		}
		head, ok := e.textOf(st, sl.Base.Args[0], depth+1)
		if !ok {
			return nil, false
		}
		switch t := sl.Base.Args[1].(type) {
		case *StrVal:
			return append(append([]Val(nil), head...), t), true
		case *StrForm:
			return append(append([]Val(nil), head...), t.Parts...), true
		}
		tail, ok := e.textOf(st, sl.Base.Args[1], depth+1)
		if !ok {
			return nil, false
		}
		return append(append([]Val(nil), head...), tail...), true
	}
	return nil, false
}

// mergeText joins rendering parts into a string value, merging adjacent constants.
func mergeText(parts []Val) Val {
	var merged []Val
	for _, p := range parts {
		if s, ok := p.(*StrVal); ok {
			if s.S == "" {
				continue
			}
			if len(merged) > 0 {
				if last, ok := merged[len(merged)-1].(*StrVal); ok {
					merged[len(merged)-1] = &StrVal{S: last.S + s.S}
					continue
				}
			}
		}
		merged = append(merged, p)
	}
	if len(merged) == 0 {
		return &StrVal{S: ""}
	}
	if len(merged) == 1 {
		if s, ok := merged[0].(*StrVal); ok {
			return s
		}
	}
	return &StrForm{Parts: merged}
}

// model implements the library contracts the analysis trusts.
func (e *Engine) model(st *State, name string, fn *ssa.Function, args []Val, rt types.Type, in ssa.CallInstruction) ([]Outcome, bool) {
	one := func(v Val) ([]Outcome, bool) { return []Outcome{valueOutcome(st, v)}, true }
	switch name {
	case "math.Pow":
		return one(e.A.App("pow", rt, args[0], args[1]))
	case "math.IsNaN", "math.IsInf":
		// the value domain of the forms is the reals: NaN and ±Inf operands are outside the model
		// (as for math.Min/Max), so guards against them are not taken
		return one(boolConst(false))
	case "context.Background", "context.TODO":
		return one(&Opaque{Key: "context.Background", Type: rt, Fn: "context.Background"})
	case "(image.Rectangle).Intersect":
		// r.Intersect(r) is r (the zero rectangle when r is empty: no pixel either way)
		if len(args) == 2 && valKey(args[0]) == valKey(args[1]) {
			return one(args[0])
		}
		return nil, false
	case "math.Max", "math.Min":
		// max/min of two numbers as a case split (NaN operands are outside the model)
		x, okX := args[0].(*Form)
		y, okY := args[1].(*Form)
		if !okX || !okY {
			return one(e.A.App(strings.ToLower(strings.TrimPrefix(name, "math.")), rt, args...))
		}
		cx, isCX := x.Const()
		cy, isCY := y.Const()
		pickX := func(c int) bool {
			if name == "math.Max" {
				return c >= 0
			}
			return c <= 0
		}
		if isCX && isCY {
			if pickX(cx.Cmp(cy)) {
				return one(x)
			}
			return one(y)
		}
		if x.Equal(y) {
			return one(x)
		}
		opX, opY := ">=", "<"
		if name == "math.Min" {
			opX, opY = "<=", ">"
		}
		s1, s2 := st, st.clone()
		s1.conds = append(s1.conds, &BoolVal{Op: opX, A: x, B: y})
		s2.conds = append(s2.conds, &BoolVal{Op: opY, A: x, B: y})
		return []Outcome{valueOutcome(s1, x), valueOutcome(s2, y)}, true
	case "math.Sqrt", "math.Cbrt", "math.Abs", "math.Floor", "math.Ceil", "math.Round", "math.Exp", "math.Log", "math.Trunc":
		return one(e.A.App(strings.ToLower(strings.TrimPrefix(name, "math.")), rt, args...))
	case "fmt.Errorf", "errors.New":
		d := "?"
		if s, ok := args[0].(*StrVal); ok {
			d = s.S
		}
		return one(&ErrVal{IsNil: false, Desc: d})
	case "fmt.Sprintf":
		el, _ := e.sliceElems(st, args[1])
		if sf, ok := sprintfForm(args[0], el); ok {
			return one(sf)
		}
		return one(&Opaque{Key: "sprintf(" + valKey(args[0]) + "," + valKey(Tuple(el)) + ")", Type: rt, Fn: "sprintf", Args: append([]Val{args[0]}, el...)})
	case "(*sync.Once).Do":
		if e.RunOnce && len(args) == 2 {
			if fv, ok := args[1].(*FuncVal); ok && isPrismFn(fv.Fn) && len(fv.Fn.Blocks) > 0 {
				outs := e.inline(st, fv.Fn, nil, fv.Bindings, 1)
				return outs, true
			}
		}
		return one(nil)
	case "(encoding/binary.littleEndian).Uint16", "(encoding/binary.littleEndian).Uint32", "(encoding/binary.littleEndian).Uint64",
		"(encoding/binary.bigEndian).Uint16", "(encoding/binary.bigEndian).Uint32", "(encoding/binary.bigEndian).Uint64":
		// ByteOrder.UintN(b) = the first N/8 bytes of b in that order
		sl, ok := args[1].(*SliceVal)
		if !ok {
			return nil, false
		}
		n := map[string]int{"16": 2, "32": 4, "64": 8}[name[len(name)-2:]]
		little := strings.Contains(name, "littleEndian")
		bv := &BV{Bits: make([]Bit, 8*n)}
		for k := 0; k < n; k++ {
			el, okE := e.sliceElem(st, sl, formInt(int64(k))).(*Form)
			if !okE {
				return nil, false
			}
			eb := e.toBV(el, 8, false)
			pos := 8 * k
			if !little {
				pos = 8 * (n - 1 - k)
			}
			copy(bv.Bits[pos:pos+8], eb.Bits)
		}
		st.addEvent(Event{Kind: "bounds", Fn: "binary.Uint", Args: []Val{formInt(int64(n)), sl.Len}, Pos: in.Pos()})
		return one(e.fromBV(bv, rt))
	case "(encoding/binary.bigEndian).PutUint16", "(encoding/binary.bigEndian).PutUint32", "(encoding/binary.bigEndian).PutUint64",
		"(encoding/binary.littleEndian).PutUint16", "(encoding/binary.littleEndian).PutUint32", "(encoding/binary.littleEndian).PutUint64":
		// ByteOrder.PutUintN(b, v): b[k] = the k-th byte of v in that order
		sl, ok := args[1].(*SliceVal)
		v, okV := args[2].(*Form)
		if !ok || !okV {
			return nil, false
		}
		n := map[string]int{"16": 2, "32": 4, "64": 8}[name[len(name)-2:]]
		little := strings.Contains(name, "littleEndian")
		bv := e.toBV(v, 8*n, false)
		st.addEvent(Event{Kind: "bounds", Fn: "binary.PutUint", Args: []Val{formInt(int64(n)), sl.Len}, Pos: in.Pos()})
		for k := 0; k < n; k++ {
			pos := 8 * k
			if !little {
				pos = 8 * (n - 1 - k)
			}
			bb := &BV{Bits: append([]Bit(nil), bv.Bits[pos:pos+8]...)}
			off := sl.Lo.Add(formInt(int64(k)))
			var ptr *Ptr
			switch {
			case sl.Arr != nil:
				if c, isC := off.ConstInt(); isC {
					ptr = &Ptr{Cell: sl.Arr.Cell, Path: append(append([]int(nil), sl.Arr.Path...), int(c)), Elem: types.Typ[types.Uint8]}
				} else {
					ptr = &Ptr{Cell: sl.Arr.Cell, Path: sl.Arr.Path, SymIdx: off, Elem: types.Typ[types.Uint8]}
				}
			case sl.Base != nil:
				ptr = &Ptr{Base: sl.Base, SymIdx: off, Elem: types.Typ[types.Uint8]}
			default:
				return nil, false
			}
			if why := e.store(st, ptr, e.fromBV(bb, types.Typ[types.Uint8])); why != "" {
				return nil, false
			}
		}
		return one(nil)
	case "bytes.HasPrefix":
		sl, ok1 := args[0].(*SliceVal)
		pf, ok2 := args[1].(*SliceVal)
		if !ok1 || !ok2 {
			return nil, false
		}
		if n, isC := pf.Len.ConstInt(); isC && n <= 64 {
			// len(s) >= n && s[i] == prefix[i] for all i: represented as one condition atom carrying both slices
			return one(&BoolVal{Op: "prefix", A: sl, B: pf})
		}
		return nil, false
	case "io.LimitReader":
		if rd, ok := args[0].(*ReaderVal); ok {
			n, _ := args[1].(*Form)
			if n != nil {
				return one(&LimitedVal{R: rd, N: n})
			}
		}
		return nil, false
	case "(*bytes.Buffer).ReadFrom", "io.ReadAll", "io/ioutil.ReadAll":
		// reading a LimitReader(r, n) to its end consumes exactly n bytes when they are present
		var lv *LimitedVal
		var dst Val
		if name == "(*bytes.Buffer).ReadFrom" {
			lv, _ = args[1].(*LimitedVal)
			dst = args[0]
		} else {
			lv, _ = args[0].(*LimitedVal)
		}
		if lv == nil {
			return nil, false
		}
		pos := e.streamPos(st, lv.R.S)
		content := &Opaque{Key: fmt.Sprintf("%s[%s:+%s]", lv.R.S.Name, pos.Key(), lv.N.Key()), Fn: "bytes", Args: []Val{&StrVal{S: lv.R.S.Name}, pos, lv.N}}
		var outs []Outcome
		if e.FailReads {
			bad := st.clone()
			bad.addEvent(Event{Kind: "readfail", Fn: name, Args: []Val{pos, lv.N}, Pos: in.Pos()})
			short := e.A.App("short", types.Typ[types.Int64], pos)
			bad.conds = append(bad.conds, &BoolVal{Op: "<", A: short, B: lv.N})
			if name == "(*bytes.Buffer).ReadFrom" {
				outs = append(outs, valueOutcome(bad, Tuple{short, &ErrVal{IsNil: true}}))
			} else {
				outs = append(outs, valueOutcome(bad, Tuple{&SliceVal{Base: &Opaque{Key: "short-read"}, Lo: formInt(0), Len: short}, &ErrVal{IsNil: true}}))
			}
		}
		st.pos[lv.R.S] = pos.Add(lv.N)
		if name == "(*bytes.Buffer).ReadFrom" {
			st.addEvent(Event{Kind: "copyn", Fn: name, Recv: dst, Args: []Val{content, pos, lv.N}, Pos: in.Pos()})
			outs = append([]Outcome{valueOutcome(st, Tuple{lv.N, &ErrVal{IsNil: true}})}, outs...)
		} else {
			res := &SliceVal{Base: content, Lo: formInt(0), Len: lv.N, Elem: types.Typ[types.Uint8]}
			st.addEvent(Event{Kind: "readinto", Fn: name, Recv: res, Args: []Val{content, pos, lv.N}, Pos: in.Pos()})
			outs = append([]Outcome{valueOutcome(st, Tuple{res, &ErrVal{IsNil: true}})}, outs...)
		}
		return outs, true
	case "(image.Rectangle).Dx", "(image.Rectangle).Dy":
		// Dx = Max.X − Min.X, Dy = Max.Y − Min.Y (image package definition)
		if rc, ok := args[0].(*Agg); ok && len(rc.Elems) == 2 {
			mn, ok1 := rc.Elems[0].(*Agg)
			mx, ok2 := rc.Elems[1].(*Agg)
			if ok1 && ok2 && len(mn.Elems) == 2 && len(mx.Elems) == 2 {
				k := 0
				if strings.HasSuffix(name, "Dy") {
					k = 1
				}
				a, okA := mx.Elems[k].(*Form)
				b, okB := mn.Elems[k].(*Form)
				if okA && okB {
					return one(a.Sub(b))
				}
			}
		}
		return nil, false
	case "(*image.RGBA).Bounds", "(*image.NRGBA).Bounds", "(*image.RGBA64).Bounds", "(*image.NRGBA64).Bounds", "(*image.YCbCr).Bounds", "(*image.Gray).Bounds":
		// Bounds() returns the Rect field (image package definition)
		if v, ok := e.imageField(st, args[0], "Rect", fn.Signature.Recv().Type()); ok {
			return one(v)
		}
		return nil, false
	case "(*image.RGBA).PixOffset", "(*image.NRGBA).PixOffset", "(*image.RGBA64).PixOffset", "(*image.NRGBA64).PixOffset",
		"(*image.Gray).PixOffset", "(*image.Alpha).PixOffset", "(*image.Gray16).PixOffset", "(*image.Alpha16).PixOffset", "(*image.CMYK).PixOffset":
		// PixOffset(x, y) = (y − Rect.Min.Y)·Stride + (x − Rect.Min.X)·bytesPerPixel (image package definition)
		bpp := int64(4)
		switch {
		case strings.Contains(name, "64"):
			bpp = 8
		case strings.Contains(name, "Gray16"), strings.Contains(name, "Alpha16"):
			bpp = 2
		case strings.Contains(name, "Gray)"), strings.Contains(name, "Alpha)"):
			bpp = 1
		}
		x, ok3 := args[1].(*Form)
		y, ok4 := args[2].(*Form)
		if !ok3 || !ok4 {
			return nil, false
		}
		res, okR := e.pixOffsetForm(st, args[0], fn.Signature.Recv().Type(), bpp, x, y)
		if !okR {
			return nil, false
		}
		st.addEvent(Event{Kind: "call", Fn: shortFn(fn), Args: args, Res: res, Pos: in.Pos()})
		return one(res)
	case "strconv.Itoa", "strconv.FormatInt", "strconv.FormatUint":
		if f, ok := args[0].(*Form); ok {
			if name != "strconv.Itoa" {
				if b, ok := args[1].(*Form); !ok || !b.Equal(formInt(10)) {
					return nil, false
				}
			}
			return one(&StrForm{Parts: []Val{&DecVal{X: f}}})
		}
		return nil, false
	case "(*strings.Builder).WriteByte":
		st.addEvent(Event{Kind: "call", Fn: "(*strings.Builder).WriteByte", Args: args, Pos: in.Pos()})
		return one(&ErrVal{IsNil: true})
	case "(*strings.Builder).Len":
		n := int64(0)
		for _, ev := range st.events {
			if ev.Fn == "(*strings.Builder).WriteByte" && len(ev.Args) > 0 && valKey(ev.Args[0]) == valKey(args[0]) {
				n++
			}
		}
		return one(formInt(n))
	case "(*strings.Builder).String":
		// the string of the bytes written so far: only its length is tracked
		n := int64(0)
		for _, ev := range st.events {
			if ev.Fn == "(*strings.Builder).WriteByte" && len(ev.Args) > 0 && valKey(ev.Args[0]) == valKey(args[0]) {
				n++
			}
		}
		return one(&Opaque{Key: fmt.Sprintf("builder.String(%s,%d)", valKey(args[0]), n), Type: rt, Fn: "builder.String", Args: []Val{formInt(n)}})
	case "image.NewRGBA", "image.NewNRGBA", "image.NewRGBA64", "image.NewNRGBA64":
		// a fresh image whose Rect is the argument; pixel storage is a fresh
		// opaque slice (contract of the image package constructors)
		pt, ok := rt.(*types.Pointer)
		if !ok {
			return nil, false
		}
		stt, ok := pt.Elem().Underlying().(*types.Struct)
		if !ok {
			return nil, false
		}
		c := e.newCell("newimg", pt.Elem())
		a := &Agg{Type: pt.Elem(), Elems: make([]Val, stt.NumFields())}
		for i := 0; i < stt.NumFields(); i++ {
			f := stt.Field(i)
			switch f.Name() {
			case "Rect":
				a.Elems[i] = args[0]
			case "Pix":
				base := &Opaque{Key: fmt.Sprintf("newimg#%d.Pix", c.ID), Type: f.Type(), Fn: "newpix"}
				a.Elems[i] = &SliceVal{Base: base, Lo: formInt(0), Len: e.A.App("len", types.Typ[types.Int], base), Elem: types.Typ[types.Uint8]}
			default:
				a.Elems[i] = e.SymVal(fmt.Sprintf("newimg#%d.%s", c.ID, f.Name()), f.Type())
			}
		}
		st.mem[c] = a
		st.addEvent(Event{Kind: "call", Fn: name, Args: args, Res: &Ptr{Cell: c}, Pos: in.Pos()})
		return one(&Ptr{Cell: c})
	case "bytes.NewReader":
		sl, ok := args[0].(*SliceVal)
		if !ok {
			return nil, false
		}
		e.streams++
		s := &Stream{Name: fmt.Sprintf("mem%d", e.streams), Data: sl}
		st.pos[s] = formInt(0)
		return one(&ReaderVal{S: s})
	case "bufio.NewReader", "bufio.NewReaderSize":
		if rd, ok := args[0].(*ReaderVal); ok {
			return one(rd)
		}
		return nil, false
	case "(*bytes.Reader).ReadByte", "(*bytes.Reader).Read", "(*bytes.Reader).Len", "(*bytes.Reader).Seek", "(*bufio.Reader).ReadByte", "(*bufio.Reader).Read":
		if rd, ok := args[0].(*ReaderVal); ok {
			m := name[strings.LastIndex(name, ".")+1:]
			return e.readerMethod(st, rd, m, args[1:], rt, in)
		}
		return nil, false
	case "io.ReadFull":
		if rd, ok := args[0].(*ReaderVal); ok {
			return e.readInto(st, rd, args[1], rt, "io.ReadFull", in)
		}
		return nil, false
	case "io.CopyN":
		if rd, ok := args[1].(*ReaderVal); ok {
			n, _ := args[2].(*Form)
			if n == nil {
				return nil, false
			}
			pos := e.streamPos(st, rd.S)
			content := &Opaque{Key: fmt.Sprintf("%s[%s:+%s]", rd.S.Name, pos.Key(), n.Key()), Fn: "bytes", Args: []Val{&StrVal{S: rd.S.Name}, pos, n}}
			var outs []Outcome
			ok := st
			if e.FailReads {
				bad := st.clone()
				bad.addEvent(Event{Kind: "readfail", Fn: "io.CopyN", Args: []Val{pos, n}, Pos: in.Pos()})
				outs = append(outs, valueOutcome(bad, Tuple{e.A.App("short", types.Typ[types.Int64], pos), &ErrVal{IsNil: false, Desc: "io.CopyN failed"}}))
			}
			ok.pos[rd.S] = pos.Add(n)
			ok.addEvent(Event{Kind: "copyn", Fn: "io.CopyN", Recv: args[0], Args: []Val{content, pos, n}, Pos: in.Pos()})
			outs = append([]Outcome{valueOutcome(ok, Tuple{n, &ErrVal{IsNil: true}})}, outs...)
			return outs, true
		}
		return nil, false
	}
	return nil, false
}

func (e *Engine) streamPos(st *State, s *Stream) *Form {
	if p, ok := st.pos[s]; ok {
		if r := st.resolve(p); r != p {
			st.pos[s] = r
			return r
		}
		return p
	}
	st.pos[s] = formInt(0)
	return st.pos[s]
}

// streamByte is the abstract value of byte number off of a stream.
func (e *Engine) streamByte(st *State, s *Stream, off *Form) Val {
	if s.Data != nil {
		d := s.Data
		idx := d.Lo.Add(off)
		if d.Arr != nil {
			if c, ok := idx.ConstInt(); ok {
				if arr, ok := selectPath(e.cellVal(st, d.Arr.Cell), d.Arr.Path); ok {
					if a, ok := arr.(*Agg); ok && c >= 0 && int(c) < len(a.Elems) {
						return a.Elems[c]
					}
				}
			}
		}
		if d.Base != nil {
			return e.elemOf(d.Base, idx, types.Typ[types.Uint8])
		}
	}
	return e.A.Byte(s.Name, off)
}

// streamLen is the abstract length of an in-memory stream (nil otherwise).
func (e *Engine) streamLen(s *Stream) *Form {
	if s.Data != nil {
		return s.Data.Len
	}
	return nil
}

func (e *Engine) readerMethod(st *State, rd *ReaderVal, name string, args []Val, rt types.Type, in ssa.CallInstruction) ([]Outcome, bool) {
	switch name {
	case "ReadByte":
		pos := e.streamPos(st, rd.S)
		var outs []Outcome
		okSt := st
		if e.FailReads {
			bad := st.clone()
			if l := e.streamLen(rd.S); l != nil {
				bad.conds = append(bad.conds, &BoolVal{Op: ">=", A: pos, B: l})
			}
			bad.addEvent(Event{Kind: "readfail", Fn: "ReadByte", Args: []Val{pos}, Pos: in.Pos()})
			outs = append(outs, valueOutcome(bad, Tuple{formInt(0), &ErrVal{IsNil: false, Desc: "ReadByte failed"}}))
		}
		if l := e.streamLen(rd.S); l != nil {
			okSt.conds = append(okSt.conds, &BoolVal{Op: "<", A: pos, B: l})
		}
		b := e.streamByte(okSt, rd.S, pos)
		okSt.pos[rd.S] = pos.Add(formInt(1))
		outs = append([]Outcome{valueOutcome(okSt, Tuple{b, &ErrVal{IsNil: true}})}, outs...)
		return outs, true
	case "Read":
		return e.readInto(st, rd, args[0], rt, "Read", in)
	case "Discard":
		// (*bufio.Reader).Discard(n): skips the next n bytes, or fails when fewer remain
		if len(args) == 1 {
			if n, ok := args[0].(*Form); ok {
				pos := e.streamPos(st, rd.S)
				var outs []Outcome
				if e.FailReads {
					bad := st.clone()
					bad.addEvent(Event{Kind: "readfail", Fn: "Discard", Args: []Val{pos, n}, Pos: in.Pos()})
					outs = append(outs, valueOutcome(bad, Tuple{e.A.App("short", types.Typ[types.Int], pos), &ErrVal{IsNil: false, Desc: "Discard failed"}}))
				}
				st.pos[rd.S] = pos.Add(n)
				return append([]Outcome{valueOutcome(st, Tuple{n, &ErrVal{IsNil: true}})}, outs...), true
			}
		}
	case "Len":
		if l := e.streamLen(rd.S); l != nil {
			return []Outcome{valueOutcome(st, l.Sub(e.streamPos(st, rd.S)))}, true
		}
	case "Seek":
		// Seek(off, io.SeekCurrent): the position moves by off (bytes.Reader contract)
		if len(args) == 2 {
			off, ok1 := args[0].(*Form)
			wh, ok2 := args[1].(*Form)
			if ok1 && ok2 {
				if w, isC := wh.ConstInt(); isC && w == 1 {
					np := e.streamPos(st, rd.S).Add(off)
					st.pos[rd.S] = np
					st.addEvent(Event{Kind: "seek", Fn: "Seek", Args: []Val{off}, Pos: in.Pos()})
					return []Outcome{valueOutcome(st, Tuple{np, &ErrVal{IsNil: true}})}, true
				}
			}
		}
	}
	return nil, false
}

// readInto models io.ReadFull(r, buf) / r.Read(buf) on its success path
// (buf completely filled with the next len(buf) stream bytes) and, with
// FailReads, the failure path.
func (e *Engine) readInto(st *State, rd *ReaderVal, bufv Val, rt types.Type, what string, in ssa.CallInstruction) ([]Outcome, bool) {
	buf, ok := bufv.(*SliceVal)
	if !ok {
		return nil, false
	}
	pos := e.streamPos(st, rd.S)
	var outs []Outcome
	if e.FailReads {
		bad := st.clone()
		if l := e.streamLen(rd.S); l != nil {
			// a reader over memory fails exactly when fewer than len(buf) bytes remain
			bad.conds = append(bad.conds, &BoolVal{Op: ">", A: pos.Add(buf.Len), B: l})
		}
		bad.addEvent(Event{Kind: "readfail", Fn: what, Args: []Val{pos, buf.Len}, Pos: in.Pos()})
		outs = append(outs, valueOutcome(bad, Tuple{e.A.App("short", types.Typ[types.Int], pos), &ErrVal{IsNil: false, Desc: what + " failed"}}))
	}
	n := buf.Len
	if l := e.streamLen(rd.S); l != nil {
		st.conds = append(st.conds, &BoolVal{Op: "<=", A: pos.Add(n), B: l})
	}
	if c, isConst := n.ConstInt(); isConst && buf.Arr != nil && c <= 4096 {
		lo, okLo := buf.Lo.ConstInt()
		if !okLo {
			return nil, false
		}
		for k := int64(0); k < c; k++ {
			p := &Ptr{Cell: buf.Arr.Cell, Path: append(append([]int(nil), buf.Arr.Path...), int(lo+k))}
			if why := e.store(st, p, e.streamByte(st, rd.S, pos.Add(formInt(k)))); why != "" {
				return nil, false
			}
		}
	} else {
		content := &Opaque{Key: fmt.Sprintf("%s[%s:+%s]", rd.S.Name, pos.Key(), n.Key()), Fn: "bytes", Args: []Val{&StrVal{S: rd.S.Name}, pos, n}}
		ev := Event{Kind: "readinto", Fn: what, Recv: bufv, Args: []Val{content, pos, n}, Pos: in.Pos()}
		if rd.S.Data != nil {
			// a reader over memory: the slice it reads from
			ev.Args = append(ev.Args, rd.S.Data)
		}
		st.addEvent(ev)
	}
	st.pos[rd.S] = pos.Add(n)
	outs = append([]Outcome{valueOutcome(st, Tuple{n, &ErrVal{IsNil: true}})}, outs...)
	return outs, true
}

// ---------------------------------------------------------------------------
// package initialisers

// globalInitVal returns the value a package-level variable holds after its
// package's initialiser, computed by abstractly interpreting the initialiser.
func (e *Engine) globalInitVal(g *ssa.Global) (Val, bool) {
	if !e.EvalInits || g.Pkg == nil || !isPrismPkg(g.Pkg.Pkg) {
		return nil, false
	}
	if !e.initDone[g.Pkg] {
		e.initDone[g.Pkg] = true
		initFn := g.Pkg.Func("init")
		if initFn != nil && len(initFn.Blocks) > 0 {
			sub := *e
			userOpaque := e.Opaque
			pkg := g.Pkg
			sub.Opaque = func(fn *ssa.Function) bool {
				// other packages' initialisers are not followed; declared init functions only on request
				if fn.Name() == "init" {
					return true
				}
				if strings.HasPrefix(fn.Name(), "init#") {
					return !(e.RunInitFuncs && fn.Pkg == pkg)
				}
				// the caller's opaque set applies to initialisers only in the table-wiring mode
				return e.RunInitFuncs && userOpaque != nil && userOpaque(fn)
			}
			sub.FailReads = false
			sub.inInit = true
			savedSteps := e.steps
			outs := sub.call(newState(), initFn, nil, nil, 0)
			e.steps = savedSteps
			e.nextCell = sub.nextCell
			for _, o := range outs {
				if o.Kind != "return" {
					continue
				}
				isGlobalCell := map[*Cell]bool{}
				for gg, c := range e.globals {
					isGlobalCell[c] = true
					if gg.Pkg == g.Pkg {
						if v, ok := o.St.mem[c]; ok {
							e.initVals[gg] = v
						}
					}
				}
				for c, ents := range o.St.maps {
					e.constMaps[c] = ents
				}
				// storage allocated during initialisation that the globals point into
				for c, v := range o.St.mem {
					if !isGlobalCell[c] && c.Alloc {
						e.constCells[c] = v
					}
				}
				break
			}
		}
	}
	v, ok := e.initVals[g]
	if ok && e.P != nil {
		e.P.noteInitRead(g)
	}
	return v, ok
}

// ---------------------------------------------------------------------------
// loop summaries

// summariseLoop replaces a counting loop by ONE GENERIC ITERATION.
//
// Recognised shape: a header whose phis are
//   - one main counter  i = [init, i ± 1]  (any loop-invariant step when no
//     stream bytes are consumed) tested by  i <op> limit  (<, <=, >, >=, !=),
//   - any number of secondary affine counters  p = [p0, p ± c]  with a
//     loop-invariant c (running offsets), and
//   - accumulators  s = [s0, append(s, x...)]  (ordered concatenation).
//
// The body is interpreted once with the counter bound to a fresh symbol k
// (secondary counters to p0 + t·c with t the iteration number). It may
// consume stream bytes (a loop-invariant amount per iteration: the position
// becomes start + t·amount and, after the loop, start + trips·amount), call
// functions, store to elements indexed by the iteration, and exit through
// return/panic. It must not modify variables that outlive the iteration.
// The facts are recorded as loop-summary / loop-store / loop-call /
// loop-append events; anything else is reported as not summarisable.
func (e *Engine) summariseLoop(st *State, fr *frame, b *ssa.BasicBlock, ifi *ssa.If, c *BoolVal, depth int) ([]Outcome, bool) {
	fail := func(why string) ([]Outcome, bool) { e.loopWhy = why; return nil, false }
	e.loopWhy = ""
	var iv *IndVar
	var secondary []*IndVar
	type accPhi struct {
		phi *ssa.Phi
		app *ssa.Call
	}
	var accs []accPhi
	var carried *ssa.Phi
	for _, in := range b.Instrs {
		phi, ok := in.(*ssa.Phi)
		if !ok {
			break
		}
		if cand := findIndVar(phi); cand != nil && ssa.Value(cand.Cond) == ifi.Cond {
			if iv != nil {
				return fail("two counters are tested by the loop condition")
			}
			iv = cand
			continue
		}
		if aff := affinePhi(phi); aff != nil {
			secondary = append(secondary, aff)
			continue
		}
		// accumulator: s = [s0, append(s, ...)]
		isAcc := false
		if len(phi.Edges) == 2 {
			for _, ed := range phi.Edges {
				if call, ok := ed.(*ssa.Call); ok {
					if bi, ok := call.Call.Value.(*ssa.Builtin); ok && bi.Name() == "append" && len(call.Call.Args) > 0 && call.Call.Args[0] == ssa.Value(phi) {
						accs = append(accs, accPhi{phi, call})
						isAcc = true
					}
				}
			}
		}
		if !isAcc {
			carried = phi
		}
	}
	if carried != nil && iv != nil {
		return fail(fmt.Sprintf("the loop carries the variable %s from one iteration to the next in a way that is neither a counter, a running offset nor an append-accumulator", carried.Comment))
	}
	// a slice consumed from the front: s = [s0, s[c:]] tested by len(s) >= c
	// (or > c−1): iteration t sees s0[c·t:], there are len(s0)/c iterations
	var eat *ssa.Phi
	var eatC int64
	if iv == nil {
		if cmp, ok := ifi.Cond.(*ssa.BinOp); ok {
			if ph, ok := lenOf(cmp.X).(*ssa.Phi); ok && ph.Block() == b && len(ph.Edges) == 2 {
				if _, isSl := ph.Type().Underlying().(*types.Slice); isSl {
					for _, ed := range ph.Edges {
						if sl, ok := ed.(*ssa.Slice); ok && sl.X == ssa.Value(ph) && sl.High == nil && sl.Max == nil && sl.Low != nil {
							if c, isC := constInt(sl.Low); isC && c > 0 {
								if m, isM := constInt(cmp.Y); isM && ((cmp.Op == token.GEQ && m == c) || (cmp.Op == token.GTR && m == c-1)) {
									eat, eatC = ph, c
								}
							}
						}
					}
				}
			}
		}
		if eat != nil {
			// the accumulator scan above rejected the slice phi as "carried": redo the
			// classification without it
			secondary, accs = nil, nil
			for _, in := range b.Instrs {
				phi, ok := in.(*ssa.Phi)
				if !ok {
					break
				}
				if phi == eat {
					continue
				}
				if aff := affinePhi(phi); aff != nil {
					secondary = append(secondary, aff)
					continue
				}
				isAcc := false
				if len(phi.Edges) == 2 {
					for _, ed := range phi.Edges {
						if call, ok := ed.(*ssa.Call); ok {
							if bi, ok := call.Call.Value.(*ssa.Builtin); ok && bi.Name() == "append" && len(call.Call.Args) > 0 && call.Call.Args[0] == ssa.Value(phi) {
								accs = append(accs, accPhi{phi, call})
								isAcc = true
							}
						}
					}
				}
				if !isAcc {
					return fail(fmt.Sprintf("the loop carries the variable %s from one iteration to the next in a way that is neither a counter, a running offset nor an append-accumulator", phi.Comment))
				}
			}
		}
	}
	if iv == nil && eat == nil {
		return fail("the loop condition does not test a counter of the form i = i ± step")
	}
	var eat0 *SliceVal
	if eat != nil {
		eat0, _ = fr.env[eat].(*SliceVal)
		if eat0 == nil || eat0.Len == nil {
			return fail("the consumed slice is not a known slice value")
		}
		// a virtual counter t = 0, 1, … < len(s0)/c
		iv = &IndVar{Op: token.LSS}
	}
	var stepV *Form
	if eat != nil {
		stepV = formInt(1)
	} else {
		sv, okS := e.val(st, fr, iv.Step).(*Form)
		if !okS {
			return fail("non-numeric step")
		}
		stepV = sv
	}
	if iv.Down {
		stepV = stepV.Neg()
	}
	sc, stepConst := stepV.ConstInt()
	unitStep := stepConst && (sc == 1 || sc == -1)
	var initV, limit *Form
	if eat != nil {
		initV = formInt(0)
		limit = e.A.App("idiv", types.Typ[types.Int], eat0.Len, formInt(eatC))
	} else {
		iv0, ok1 := fr.env[iv.Phi].(*Form) // value on first arrival = init
		lim, ok2 := e.val(st, fr, iv.Limit).(*Form)
		if !ok1 || !ok2 {
			return fail("non-numeric loop bounds")
		}
		initV, limit = iv0, lim
	}
	first := initV // first counter value tested / seen by the body
	if iv.PreInc {
		first = initV.Add(stepV)
	}
	// trip count (for unit steps); direction must match the comparison
	var trips *Form
	up := stepConst && sc > 0
	switch {
	case !unitStep:
		trips = nil
	case up && iv.Op.String() == "<", up && iv.Op.String() == "!=":
		trips = limit.Sub(first)
	case up && iv.Op.String() == "<=":
		trips = limit.Sub(first).Add(formInt(1))
	case !up && iv.Op.String() == ">", !up && iv.Op.String() == "!=":
		trips = first.Sub(limit)
	case !up && iv.Op.String() == ">=":
		trips = first.Sub(limit).Add(formInt(1))
	default:
		return fail("the counter moves away from its bound")
	}
	if !unitStep && iv.Op.String() != "<" {
		return fail("non-unit step with a comparison other than <")
	}
	// zero trips: the summary below describes a loop that runs limit − first (≥ 0) times. A path
	// whose conditions say the counter starts at or beyond its bound (for i := 1; i < n; i++ after
	// `n > 0` was decided false) skips the loop, every loop variable at its start value. A path
	// that cannot tell is followed for the entered case only, and says so in its conditions.
	var zeroOuts []Outcome
	if trips != nil && eat == nil && !e.GenericLoops {
		tc, isC := trips.ConstInt()
		if isC && tc < 0 {
			return e.exec(st, fr, b.Succs[1], b, 0, depth), true
		}
		if !isC {
			var plain []*BoolVal
			for _, pc := range st.conds {
				cc := *pc
				cc.Src, cc.Exact = nil, nil
				plain = append(plain, &cc)
			}
			facts := e.factsOf(plain)
			if neg, _ := e.proveGE0(trips.Neg().Sub(formInt(1)), facts); neg {
				return e.exec(st, fr, b.Succs[1], b, 0, depth), true
			}
			if nonneg, _ := e.proveGE0(trips, facts); !nonneg {
				st.conds = append(st.conds, &BoolVal{Op: ">=", A: trips, B: formInt(0)})
			}
		}
	}
	// the recorded facts carry the exclusive end of the counter's range
	limitIn := limit
	switch iv.Op.String() {
	case "<=":
		limit = limit.Add(formInt(1))
	case ">=":
		limit = limit.Sub(formInt(1))
	}

	e.nextCell++
	var kType types.Type = types.Typ[types.Int]
	if iv.Phi != nil {
		kType = iv.Phi.Type()
	}
	k := e.A.Var(fmt.Sprintf("iter#%d", e.nextCell), kType)
	kName, _ := k.SingleAtom()
	// iteration number t = (k − first)/step (unit steps: (k − first)·step)
	var tIter *Form
	if unitStep {
		tIter = k.Sub(first).Mul(formInt(sc))
	}
	// secondary counters at iteration t
	secVals := map[*ssa.Phi]*Form{}
	secSteps := map[*ssa.Phi]*Form{}
	for _, s2 := range secondary {
		i0, okI := fr.env[s2.Phi].(*Form)
		st2, okT := e.val(st, fr, s2.Step).(*Form)
		if !okI || !okT || tIter == nil {
			return fail(fmt.Sprintf("the running variable %s cannot be expressed as start + iteration·step", s2.Phi.Comment))
		}
		if s2.Down {
			st2 = st2.Neg()
		}
		secVals[s2.Phi] = i0.Add(tIter.Mul(st2))
		secSteps[s2.Phi] = st2
	}
	accInit := map[*ssa.Phi]Val{}
	for _, a := range accs {
		accInit[a.phi] = fr.env[a.phi]
	}

	before := map[*Stream]*Form{}
	for s, p := range st.pos {
		before[s] = p
	}
	memBefore := map[*Cell]string{}
	for c, v := range st.mem {
		memBefore[c] = valKey(v)
	}
	nEv := len(st.events)
	var back *Outcome
	var backFr *frame
	var backs []Outcome // all paths of the generic iteration that reach the back edge
	var exits []Outcome
	runBody := func(startPos map[*Stream]*Form) ([]Outcome, bool) {
		stB := st.clone()
		for s, p := range startPos {
			stB.pos[s] = p
		}
		// facts about the generic iteration: first <= k < limit (or mirrored)
		if unitStep {
			if up {
				stB.conds = append(stB.conds, &BoolVal{Op: ">=", A: k, B: first}, &BoolVal{Op: iv.Op.String(), A: k, B: limitIn})
			} else {
				stB.conds = append(stB.conds, &BoolVal{Op: "<=", A: k, B: first}, &BoolVal{Op: iv.Op.String(), A: k, B: limitIn})
			}
		}
		frB := fr.clone()
		switch {
		case eat != nil:
			adv := k.Mul(formInt(eatC))
			frB.env[eat] = &SliceVal{Arr: eat0.Arr, Base: eat0.Base, Lo: eat0.Lo.Add(adv), Len: eat0.Len.Sub(adv), Elem: eat0.Elem}
			stB.conds = append(stB.conds, &BoolVal{Op: ">=", A: eat0.Len.Sub(adv), B: formInt(eatC)})
		case iv.PreInc:
			frB.env[iv.Phi] = k.Sub(stepV)
			frB.env[iv.Next] = k
		default:
			frB.env[iv.Phi] = k
		}
		for ph, v := range secVals {
			frB.env[ph] = v
		}
		for _, a := range accs {
			frB.env[a.phi] = &SliceVal{Base: &Opaque{Key: fmt.Sprintf("acc(%s)@%s", a.phi.Comment, kName)}, Lo: formInt(0), Len: e.A.Var("acclen@"+kName, types.Typ[types.Int])}
		}
		frB.stopAt = b
		frB.forks[b] = 0
		outs := e.exec(stB, frB, b.Succs[0], b, 0, depth)
		back, exits, backs = nil, nil, nil
		for i := range outs {
			switch outs[i].Kind {
			case "loopback":
				backs = append(backs, outs[i])
				if back != nil {
					continue
				}
				back = &outs[i]
				backFr = outs[i].Fr
			case "return", "panic", "cutoff":
				exits = append(exits, outs[i])
			default:
				return fail("the loop body is not extractable: " + outs[i].Why)
			}
		}
		if back == nil {
			return fail("the loop body never reaches the back edge")
		}
		return nil, true
	}
	if _, ok := runBody(nil); !ok {
		return nil, false
	}
	// per-iteration stream consumption
	shifted := map[*Stream]*Form{}
	deltas := map[*Stream]*Form{}
	for s, p := range back.St.pos {
		b0, ok := before[s]
		if !ok {
			b0 = formInt(0)
		}
		d := p.Sub(b0)
		if c, isC := d.ConstInt(); isC && c == 0 {
			continue
		}
		if !unitStep {
			return fail("the loop consumes stream bytes but does not count in steps of 1")
		}
		if d.Atoms()[kName] {
			return fail("the number of bytes consumed per iteration depends on the iteration")
		}
		if c, isC := d.ConstInt(); isC && c < 0 {
			return fail("the loop body moves the stream backwards")
		}
		deltas[s] = d
		shifted[s] = b0.Add(tIter.Mul(d))
	}
	// every path of the iteration must consume the same amount
	for _, bk := range backs[1:] {
		for s, p := range bk.St.pos {
			b0, ok := before[s]
			if !ok {
				b0 = formInt(0)
			}
			d := p.Sub(b0)
			want, has := deltas[s]
			if !has {
				want = formInt(0)
			}
			if !d.Equal(want) {
				return fail("the number of bytes consumed per iteration depends on the path taken through the body")
			}
		}
	}
	if len(shifted) > 0 {
		if _, ok := runBody(shifted); !ok {
			return nil, false
		}
		for _, bk := range backs {
			for s, start := range shifted {
				d1 := bk.St.pos[s].Sub(start)
				if !d1.Equal(deltas[s]) {
					return fail("the number of bytes consumed per iteration depends on the position")
				}
			}
		}
	}
	// the iteration must not modify variables that outlive it
	// (except: a field of a record that the loop only ever WRITES — "note the interlace byte on
	// the way past" — holds, after the loop, whatever some iteration put there: it is given an
	// unknown value; nothing in the loop may read it, so no iteration depends on another)
	type setField struct {
		c *Cell
		i int
	}
	var setInLoop []setField
	for _, bk := range backs {
		for c, kBefore := range memBefore {
			v, ok := bk.St.mem[c]
			if ok && valKey(v) == kBefore {
				continue
			}
			okW := false
			if a1, isA := v.(*Agg); ok && isA && !e.GenericLoops {
				if a0, isA0 := st.mem[c].(*Agg); isA0 && len(a0.Elems) == len(a1.Elems) {
					okW = true
					for i := range a1.Elems {
						if valKey(a0.Elems[i]) == valKey(a1.Elems[i]) {
							continue
						}
						if !e.writeOnlyInLoop(b, c, i) {
							okW = false
							break
						}
						setInLoop = append(setInLoop, setField{c, i})
					}
				}
			}
			if !okW {
				return fail("the loop body modifies variable " + c.Name + " that outlives the iteration (shared between iterations / workers)")
			}
		}
	}
	// secondary counters must really advance by their step (the latch value is phi ± step by construction)
	var facts []Event
	var bodyEvents []Event
	for _, bk := range backs {
		bodyEvents = append(bodyEvents, bk.St.events[nEv:]...)
	}
	if len(backs) > 1 && len(accs) > 0 {
		for _, a := range accs {
			k0 := valKey(backs[0].Fr.env[a.app])
			for _, bk := range backs[1:] {
				if bk.Fr == nil || valKey(bk.Fr.env[a.app]) != k0 {
					return fail("what is appended per iteration depends on the path taken through the body")
				}
			}
		}
	}
	for _, ev := range bodyEvents {
		switch ev.Kind {
		case "readfail", "make", "append", "seek":
		case "bounds":
			// carried out of the loop with the conditions of the generic iteration
			facts = append(facts, ev)
		case "store":
			ptr, _ := ev.Recv.(*Ptr)
			if ptr == nil || ptr.SymIdx == nil {
				return fail("the loop body stores through " + valKey(ev.Recv) + ", which is not an element indexed by the iteration")
			}
			facts = append(facts, Event{Kind: "loop-store", Fn: "loop-store", Recv: ptr, Args: []Val{k, first, limit, ptr.SymIdx, ev.Args[0]}, Pos: ev.Pos})
		case "loop-store", "loop-call", "loop-invoke", "loop-summary", "loop-append":
			facts = append(facts, ev)
		case "call", "invoke", "copyn", "readinto", "trace", "mapupdate":
			facts = append(facts, Event{Kind: "loop-" + ev.Kind, Fn: ev.Fn, Recv: ev.Recv, Args: append([]Val{k, first, limit}, ev.Args...), Res: ev.Res, Pos: ev.Pos})
		default:
			return fail("the loop body has an effect of kind " + ev.Kind)
		}
	}
	// accumulators: the value appended in the generic iteration
	for _, a := range accs {
		var latch Val
		if backFr != nil {
			latch = backFr.env[a.app]
		}
		// the appended elements, when they are an explicit list (append(s, x, y))
		var elems Val
		if lsv, ok := latch.(*SliceVal); ok && lsv.Base != nil && lsv.Base.Fn == "append" && len(lsv.Base.Args) == 2 {
			if es, ok := e.sliceElems(back.St, lsv.Base.Args[1]); ok {
				elems = Tuple(es)
			}
		}
		facts = append(facts, Event{Kind: "loop-append", Fn: "loop-append", Recv: accInit[a.phi], Args: []Val{k, first, limit, latch, elems}, Pos: a.app.Pos()})
	}
	// after the loop
	for s, d := range deltas {
		b0 := before[s]
		if b0 == nil {
			b0 = formInt(0)
		}
		st.pos[s] = b0.Add(trips.Mul(d))
	}
	st.addEvent(Event{Kind: "loop-summary", Fn: "loop", Args: []Val{first, limit, stepV, k}, Pos: e.condPos(ifi)})
	for _, sf := range setInLoop {
		if a, ok := e.cellVal(st, sf.c).(*Agg); ok && sf.i < len(a.Elems) {
			if stt, ok := sf.c.Type.Underlying().(*types.Struct); ok && sf.i < stt.NumFields() {
				e.nextCell++
				na := &Agg{Type: a.Type, Elems: append([]Val(nil), a.Elems...)}
				na.Elems[sf.i] = e.SymVal(fmt.Sprintf("set-in-loop#%d.%s", e.nextCell, stt.Field(sf.i).Name()), stt.Field(sf.i).Type())
				st.mem[sf.c] = na
			}
		}
	}
	for _, f := range facts {
		st.events = append(st.events, f)
	}
	for _, ls := range facts {
		if ls.Kind == "loop-store" {
			ptr := ls.Recv.(*Ptr)
			if ptr.Cell != nil {
				if nv, ok := updatePath(e.cellVal(st, ptr.Cell), ptr.Path, &Opaque{Key: fmt.Sprintf("filled-by-loop#%d", ptr.Cell.ID)}); ok {
					st.mem[ptr.Cell] = nv
				}
			}
		}
	}
	switch {
	case eat != nil:
		adv := limit.Mul(formInt(eatC))
		fr.env[eat] = &SliceVal{Arr: eat0.Arr, Base: eat0.Base, Lo: eat0.Lo.Add(adv), Len: eat0.Len.Sub(adv), Elem: eat0.Elem}
	case iv.PreInc:
		fr.env[iv.Phi] = limit.Sub(stepV)
		fr.env[iv.Next] = limit
	case !unitStep:
		// the exit value of a strided counter is some value ≥ the bound
		e.nextCell++
		ex := e.A.Var(fmt.Sprintf("exit#%d", e.nextCell), kType)
		st.conds = append(st.conds, &BoolVal{Op: ">=", A: ex, B: limit})
		fr.env[iv.Phi] = ex
	default:
		fr.env[iv.Phi] = limit
	}
	for ph, v0 := range secVals {
		_ = v0
		if trips != nil {
			i0 := fr.env[ph].(*Form)
			fr.env[ph] = i0.Add(trips.Mul(secSteps[ph]))
		}
	}
	for _, a := range accs {
		e.nextCell++
		base := &Opaque{Key: fmt.Sprintf("appended#%d", e.nextCell), Fn: "loop-append", Args: []Val{accInit[a.phi], k}}
		fr.env[a.phi] = &SliceVal{Base: base, Lo: formInt(0), Len: e.A.App("len", types.Typ[types.Int], base)}
	}
	res := e.exec(st, fr, b.Succs[1], b, 0, depth)
	res = append(res, exits...)
	res = append(res, zeroOuts...)
	return res, true
}

// sliceElem is element k of a slice value.
func (e *Engine) sliceElem(st *State, sl *SliceVal, k *Form) Val {
	idx := sl.Lo.Add(k)
	if sl.Arr != nil {
		if c, ok := idx.ConstInt(); ok {
			if arr, ok := selectPath(e.cellVal(st, sl.Arr.Cell), sl.Arr.Path); ok {
				if a, ok := arr.(*Agg); ok && c >= 0 && int(c) < len(a.Elems) {
					return a.Elems[c]
				}
			}
		}
		return nil
	}
	if sl.Base != nil {
		return e.elemOf(sl.Base, idx, types.Typ[types.Uint8])
	}
	return nil
}

// imageField reads a field of the image struct an image pointer value points to.
func (e *Engine) imageField(st *State, img Val, field string, recvT types.Type) (Val, bool) {
	pt, ok := recvT.(*types.Pointer)
	if !ok {
		return nil, false
	}
	stt, ok := pt.Elem().Underlying().(*types.Struct)
	if !ok {
		return nil, false
	}
	fi := -1
	for i := 0; i < stt.NumFields(); i++ {
		if stt.Field(i).Name() == field {
			fi = i
		}
	}
	if fi < 0 {
		return nil, false
	}
	var cell *Cell
	switch x := img.(type) {
	case *Ptr:
		cell = x.Cell
	case *Opaque:
		key := "deref:" + x.Key + ":" + recvT.String()
		cell = e.opaqueMem[key]
		if cell == nil {
			cell = e.newCell("*"+x.Key, pt.Elem())
			e.opaqueMem[key] = cell
		}
	}
	if cell == nil {
		return nil, false
	}
	a, ok := e.cellVal(st, cell).(*Agg)
	if !ok || fi >= len(a.Elems) {
		return nil, false
	}
	return a.Elems[fi], true
}

// sprintfForm normalises Sprintf with only %d / %v verbs over integers into a string form.
func sprintfForm(format Val, args []Val) (*StrForm, bool) {
	fs, ok := format.(*StrVal)
	if !ok {
		return nil, false
	}
	sf := &StrForm{}
	ai := 0
	lit := ""
	s := fs.S
	for i := 0; i < len(s); i++ {
		if s[i] != '%' {
			lit += string(s[i])
			continue
		}
		if i+1 >= len(s) {
			return nil, false
		}
		i++
		switch s[i] {
		case '%':
			lit += "%"
		case 'd', 'v':
			if ai >= len(args) {
				return nil, false
			}
			f, isF := args[ai].(*Form)
			if !isF {
				return nil, false
			}
			ai++
			if lit != "" {
				sf.Parts = append(sf.Parts, &StrVal{S: lit})
				lit = ""
			}
			sf.Parts = append(sf.Parts, &DecVal{X: f})
		default:
			return nil, false
		}
	}
	if lit != "" {
		sf.Parts = append(sf.Parts, &StrVal{S: lit})
	}
	return sf, ai == len(args)
}

// pixOffsetForm is (y − Rect.Min.Y)·Stride + (x − Rect.Min.X)·bpp for the image value img of pointer type recvT.
func (e *Engine) pixOffsetForm(st *State, img Val, recvT types.Type, bpp int64, x, y *Form) (*Form, bool) {
	rect, ok1 := e.imageField(st, img, "Rect", recvT)
	stride, ok2 := e.imageField(st, img, "Stride", recvT)
	if !ok1 || !ok2 {
		return nil, false
	}
	minX, ok5 := formAt(rect, 0, 0)
	minY, ok6 := formAt(rect, 0, 1)
	sf, ok7 := stride.(*Form)
	if !(ok5 && ok6 && ok7) {
		return nil, false
	}
	return y.Sub(minY).Mul(sf).Add(x.Sub(minX).Mul(formInt(bpp))), true
}

// writeOnlyInLoop: inside the natural loop headed by b, field i of the struct held in
// cell c is stored to but never loaded, and no pointer to a struct of that type is
// handed to a call (which could read it).
func (e *Engine) writeOnlyInLoop(b *ssa.BasicBlock, c *Cell, i int) bool {
	stt, ok := c.Type.Underlying().(*types.Struct)
	if !ok || i >= stt.NumFields() {
		return false
	}
	body := loopsOf(b.Parent())[b]
	if len(body) == 0 {
		return false
	}
	sameStruct := func(t types.Type) bool {
		pt, ok := t.Underlying().(*types.Pointer)
		return ok && types.Identical(pt.Elem(), c.Type)
	}
	for blk := range body {
		for _, in := range blk.Instrs {
			switch x := in.(type) {
			case *ssa.FieldAddr:
				if !sameStruct(x.X.Type()) || x.Field != i {
					continue
				}
				for _, ref := range *x.Referrers() {
					if st, ok := ref.(*ssa.Store); ok && st.Addr == ssa.Value(x) {
						continue
					}
					return false
				}
			case ssa.CallInstruction:
				cc := x.Common()
				vals := append([]ssa.Value{}, cc.Args...)
				if cc.IsInvoke() {
					vals = append(vals, cc.Value)
				}
				for _, v := range vals {
					if sameStruct(v.Type()) {
						return false
					}
				}
			case *ssa.UnOp:
				if x.Op == token.MUL && sameStruct(x.X.Type()) {
					return false // the whole record is loaded
				}
			}
		}
	}
	return true
}
