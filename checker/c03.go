package main

import (
	"fmt"
	"golang.org/x/tools/go/ssa"
	"math/big"
)

// C03 — each RGB space's XYZ transform is the one fixed by its primaries and
// white point.  C04 — cross-space pairing (structural clauses only).

func init() {
	register(&PropertyCheck{ID: "C03", Level: "other", Run: runC03})
	register(&PropertyCheck{ID: "C04", Level: "other", Run: runC04})
}

type publishedSpace struct {
	Short, Name string
	Prim        [3][2]string // r, g, b chromaticities as published
	White       [2]string
	WhiteName   string
}

// Published chromaticities: IEC 61966-2-1 / ITU-R BT.709 (sRGB), Adobe RGB
// (1998) §4.3.1, ISO 22028-2 ROMM RGB (ProPhoto), SMPTE EG 432-1 / Apple
// Display P3; CIE D65 and D50 (4 decimals as the standards print them).
var publishedSpaces = []publishedSpace{
	{"srgb", "sRGB", [3][2]string{{"0.64", "0.33"}, {"0.30", "0.60"}, {"0.15", "0.06"}}, [2]string{"0.3127", "0.3290"}, "D65"},
	{"adobergb", "Adobe RGB (1998)", [3][2]string{{"0.64", "0.33"}, {"0.21", "0.71"}, {"0.15", "0.06"}}, [2]string{"0.3127", "0.3290"}, "D65"},
	{"prophotorgb", "ProPhoto / ROMM RGB", [3][2]string{{"0.7347", "0.2653"}, {"0.1596", "0.8404"}, {"0.0366", "0.0001"}}, [2]string{"0.3457", "0.3585"}, "D50"},
	{"displayp3", "Display P3", [3][2]string{{"0.680", "0.320"}, {"0.265", "0.690"}, {"0.150", "0.060"}}, [2]string{"0.3127", "0.3290"}, "D65"},
}

type spaceFacts struct {
	Spec    publishedSpace
	M, Minv [3][3]*big.Rat // [col][row], exact values of the float32-rounded literals
	Prim    [3][3]*big.Rat // declared x, y, YY
	White   [3]*big.Rat
	OK      bool
	PosTo   string
	PosFrom string
}

var chanNames = []string{"R", "G", "B"}
var xyzNames = []string{"X", "Y", "Z"}

// extractSpace extracts the two matrices and the declared chromaticities.
func extractSpace(p *Program, r *Report, pre string, sp publishedSpace) *spaceFacts {
	sf := &spaceFacts{Spec: sp}
	toXYZ := p.Method(sp.Short, "Color", "ToXYZ")
	fromXYZ := p.Func(sp.Short, "ColorFromXYZ")
	if toXYZ == nil || fromXYZ == nil {
		r.Undecide(pre+".affine", sp.Short+" anchors", "-", "Color.ToXYZ / ColorFromXYZ not found")
		return sf
	}
	r.SawFn(shortFn(toXYZ))
	r.SawFn(shortFn(fromXYZ))
	sf.PosTo, sf.PosFrom = p.FnPos(toXYZ), p.FnPos(fromXYZ)
	ok := true

	e := NewEngine(p)
	e.EvalInits = true // coefficient tables kept in package-level variables are read through their initialisers (C11.O2: never written afterwards)
	v, err := single(p, e, toXYZ, nil)
	if err != nil {
		r.Violate(pre+".affine", sp.Short+".Color.ToXYZ", sf.PosTo, "RGB→XYZ is not a single linear form: "+err.Error())
		ok = false
	} else {
		in := []string{"c.RGB.R", "c.RGB.G", "c.RGB.B"}
		lin := true
		for row := 0; row < 3; row++ {
			f, isF := formAt(v, row)
			if !isF || !f.IsLinearIn(in) {
				lin = false
				r.Violate(pre+".affine", fmt.Sprintf("%s.Color.ToXYZ %s", sp.Short, xyzNames[row]), sf.PosTo, "output "+xyzNames[row]+" is not a homogeneous linear form in (R,G,B): "+trunc(valKey(f), 200))
				continue
			}
			for col := 0; col < 3; col++ {
				sf.M[col][row], _ = f.LinearCoeff(in[col])
			}
		}
		if lin {
			r.Hold(pre+".affine", sp.Short+".Color.ToXYZ", sf.PosTo, "X,Y,Z are homogeneous linear forms in (c.R,c.G,c.B): no constant term, guard or clamp")
		} else {
			ok = false
		}
	}
	e = NewEngine(p)
	e.EvalInits = true
	v, err = single(p, e, fromXYZ, nil)
	if err != nil {
		r.Violate(pre+".affine", sp.Short+".ColorFromXYZ", sf.PosFrom, "XYZ→RGB is not a single linear form: "+err.Error())
		ok = false
	} else {
		in := []string{"c.X", "c.Y", "c.Z"}
		lin := true
		for row := 0; row < 3; row++ {
			f, isF := formAt(v, 0, row) // Color{RGB{R,G,B}}
			if !isF || !f.IsLinearIn(in) {
				lin = false
				r.Violate(pre+".affine", fmt.Sprintf("%s.ColorFromXYZ %s", sp.Short, chanNames[row]), sf.PosFrom, "output "+chanNames[row]+" is not a homogeneous linear form in (X,Y,Z): "+trunc(valKey(f), 200))
				continue
			}
			for col := 0; col < 3; col++ {
				sf.Minv[col][row], _ = f.LinearCoeff(in[col])
			}
		}
		if lin {
			r.Hold(pre+".affine", sp.Short+".ColorFromXYZ", sf.PosFrom, "R,G,B are homogeneous linear forms in (c.X,c.Y,c.Z): no constant term, guard or clamp")
		} else {
			ok = false
		}
	}

	// declared chromaticities
	e = NewEngine(p)
	for k, name := range []string{"PrimaryRed", "PrimaryGreen", "PrimaryBlue", "StandardWhitePoint"} {
		gv, err := globalValue(p, e, sp.Short, name)
		if err != nil {
			r.Undecide(pre+".published", sp.Short+"."+name, "-", err.Error())
			ok = false
			continue
		}
		var xyY [3]*big.Rat
		good := true
		for i := 0; i < 3; i++ {
			f, isF := formAt(gv, i)
			if !isF {
				good = false
				break
			}
			c, isC := f.Const()
			if !isC {
				good = false
				break
			}
			xyY[i] = c
		}
		if !good {
			r.Undecide(pre+".published", sp.Short+"."+name, "-", "initialiser is not a constant xyY triple: "+trunc(valKey(gv), 120))
			ok = false
			continue
		}
		if k < 3 {
			sf.Prim[k] = xyY
		} else {
			sf.White = xyY
		}
	}
	sf.OK = ok
	return sf
}

func ratSum(xs ...*big.Rat) *big.Rat {
	s := new(big.Rat)
	for _, x := range xs {
		s.Add(s, x)
	}
	return s
}

func ratMul(a, b *big.Rat) *big.Rat { return new(big.Rat).Mul(a, b) }
func ratDiv(a, b *big.Rat) *big.Rat { return new(big.Rat).Quo(a, b) }
func ratSub(a, b *big.Rat) *big.Rat { return new(big.Rat).Sub(a, b) }

func rmatMul(a, b [3][3]*big.Rat) (o [3][3]*big.Rat) {
	for c := 0; c < 3; c++ {
		for r := 0; r < 3; r++ {
			s := new(big.Rat)
			for k := 0; k < 3; k++ {
				s.Add(s, ratMul(a[k][r], b[c][k]))
			}
			o[c][r] = s
		}
	}
	return
}

func rmatMulV(m [3][3]*big.Rat, v [3]*big.Rat) (o [3]*big.Rat) {
	for r := 0; r < 3; r++ {
		s := new(big.Rat)
		for k := 0; k < 3; k++ {
			s.Add(s, ratMul(m[k][r], v[k]))
		}
		o[r] = s
	}
	return
}

func fstr(x *big.Rat) string { return fmt.Sprintf("%.9g", ratFloat(x)) }

func runC03(p *Program, r *Report) {
	r.Explanation = "Engine S extracts Color.ToXYZ and ColorFromXYZ of the four RGB packages as exact linear forms (the 72 coefficients are the float32-rounded literals the compiled code multiplies by) and the declared primaries/white points from their initialisers, then decides in exact rational arithmetic: (affine) both maps are homogeneous linear with no guard or clamp; (published) declared chromaticities equal the published standard values to the standards' printed resolution; (white) M·(1,1,1) is the declared white point's XYZ with Y = 1; (chroma) column k of M has the chromaticity of declared primary k — these two determine M uniquely; (inverse) Minv·M = I. Tolerances are the property's 1e-6 minus the a-priori float32 forward error bound. Not decided: the measured 2e-6 float32 round-trip figure (runtime rounding)."
	r.RuleText = "one instance per function (affine), per declared chromaticity (published), per matrix row/column identity (white, chroma), per product entry (inverse); all are comparisons of extracted constants with standards or with each other"
	r.Trusted = []string{"go/packages+go/types+go/ssa (x/tools v0.29.0)", "the abstract interpreter and normal forms", "published chromaticity tables embedded in the checker"}
	var all []*spaceFacts
	for _, sp := range publishedSpaces {
		sf := extractSpace(p, r, "C03", sp)
		all = append(all, sf)
		if sf.OK {
			checkSpace(p, r, "C03", sf)
		}
	}
	// cross-package: no two spaces share a ToXYZ matrix
	for i := 0; i < len(all); i++ {
		for j := i + 1; j < len(all); j++ {
			if !all[i].OK || !all[j].OK {
				continue
			}
			same := true
			for c := 0; c < 3; c++ {
				for rr := 0; rr < 3; rr++ {
					if all[i].M[c][rr].Cmp(all[j].M[c][rr]) != 0 {
						same = false
					}
				}
			}
			r.Check(!same, "C03.distinct", all[i].Spec.Short+" vs "+all[j].Spec.Short, all[j].PosTo, "matrices differ", "two colour spaces use identical RGB→XYZ coefficients (copy-paste)")
		}
	}
	r.Floor("C03.affine", 8)
	r.Floor("C03.published", 32)
	r.Floor("C03.white", 12)
	r.Floor("C03.chroma", 24)
	r.Floor("C03.inverse", 36)
}

func checkSpace(p *Program, r *Report, pre string, sf *spaceFacts) {
	sp := sf.Spec
	tolPub := ratDec("0.00005")
	// published values
	for k, n := range []string{"PrimaryRed", "PrimaryGreen", "PrimaryBlue"} {
		for i, ax := range []string{"x", "y"} {
			want := ratDec(sp.Prim[k][i])
			r.Check(within(sf.Prim[k][i], want, tolPub), pre+".published", fmt.Sprintf("%s.%s.%s", sp.Short, n, ax), "-",
				fmt.Sprintf("%s = %s (published %s)", ax, fstr(sf.Prim[k][i]), sp.Prim[k][i]),
				fmt.Sprintf("declared %s chromaticity %s = %s; %s publishes %s", n, ax, fstr(sf.Prim[k][i]), sp.Name, sp.Prim[k][i]))
		}
		r.Check(sf.Prim[k][2].Cmp(big.NewRat(1, 1)) == 0, pre+".published", fmt.Sprintf("%s.%s.YY", sp.Short, n), "-", "YY = 1", "YY ≠ 1")
	}
	for i, ax := range []string{"x", "y"} {
		want := ratDec(sp.White[i])
		r.Check(within(sf.White[i], want, tolPub), pre+".published", fmt.Sprintf("%s.StandardWhitePoint.%s", sp.Short, ax), "-",
			fmt.Sprintf("%s = %s (CIE %s %s)", ax, fstr(sf.White[i]), sp.WhiteName, sp.White[i]),
			fmt.Sprintf("declared white point %s = %s; %s uses %s with %s = %s", ax, fstr(sf.White[i]), sp.Name, sp.WhiteName, ax, sp.White[i]))
	}
	r.Check(sf.White[2].Cmp(big.NewRat(1, 1)) == 0, pre+".published", sp.Short+".StandardWhitePoint.YY", "-", "YY = 1", "white point YY ≠ 1")

	// a-priori float32 forward bound for inputs in [0,1]^3: each output is 3
	// products and 2 sums: |err| <= Σ|k_i| * ((1+u)^3 - 1)
	u := new(big.Rat).SetFrac64(1, 1<<24)
	g := ratSub(ratMul(ratMul(ratSum(big.NewRat(1, 1), u), ratSum(big.NewRat(1, 1), u)), ratSum(big.NewRat(1, 1), u)), big.NewRat(1, 1))
	beta := new(big.Rat)
	for row := 0; row < 3; row++ {
		s := new(big.Rat)
		for col := 0; col < 3; col++ {
			s.Add(s, ratAbs(sf.M[col][row]))
		}
		if b := ratMul(s, g); b.Cmp(beta) > 0 {
			beta = b
		}
	}
	tol := ratSub(ratDec("0.000001"), beta)
	r.Note(pre+".white", sp.Short+" a-priori bound", sf.PosTo, fmt.Sprintf("float32 forward error bound β = %.3g; tolerance used 1e-6 − β = %.3g", ratFloat(beta), ratFloat(tol)))

	// white: M·(1,1,1) = (x/y, 1, (1-x-y)/y)
	one := big.NewRat(1, 1)
	w := rmatMulV(sf.M, [3]*big.Rat{one, one, one})
	x, y := sf.White[0], sf.White[1]
	wantW := [3]*big.Rat{ratDiv(x, y), one, ratDiv(ratSub(ratSub(one, x), y), y)}
	for i := 0; i < 3; i++ {
		r.Check(within(w[i], wantW[i], tol), pre+".white", fmt.Sprintf("%s ToXYZ·(1,1,1) %s", sp.Short, xyzNames[i]), sf.PosTo,
			fmt.Sprintf("= %s, declared white %s (|Δ| = %.2g)", fstr(w[i]), fstr(wantW[i]), ratFloat(ratAbs(ratSub(w[i], wantW[i])))),
			fmt.Sprintf("linear (1,1,1) maps to %s = %s but the declared white point (x=%s, y=%s) has %s = %s (|Δ| = %.3g > %.3g): the RGB→XYZ coefficients are not the ones derived from the declared primaries and white", xyzNames[i], fstr(w[i]), fstr(x), fstr(y), xyzNames[i], fstr(wantW[i]), ratFloat(ratAbs(ratSub(w[i], wantW[i]))), ratFloat(tol)))
	}
	// chroma: column k has chromaticity of primary k
	for k := 0; k < 3; k++ {
		X, Y, Z := sf.M[k][0], sf.M[k][1], sf.M[k][2]
		s := ratSum(X, Y, Z)
		if s.Sign() == 0 {
			r.Violate(pre+".chroma", fmt.Sprintf("%s primary %s", sp.Short, chanNames[k]), sf.PosTo, "column sums to zero")
			continue
		}
		cx, cy := ratDiv(X, s), ratDiv(Y, s)
		for i, c := range []*big.Rat{cx, cy} {
			ax := []string{"x", "y"}[i]
			r.Check(within(c, sf.Prim[k][i], tol), pre+".chroma", fmt.Sprintf("%s unit %s chromaticity %s", sp.Short, chanNames[k], ax), sf.PosTo,
				fmt.Sprintf("= %s, declared %s (|Δ| = %.2g)", fstr(c), fstr(sf.Prim[k][i]), ratFloat(ratAbs(ratSub(c, sf.Prim[k][i])))),
				fmt.Sprintf("unit %s maps to chromaticity %s = %s but the declared primary has %s = %s (|Δ| = %.3g > %.3g)", chanNames[k], ax, fstr(c), ax, fstr(sf.Prim[k][i]), ratFloat(ratAbs(ratSub(c, sf.Prim[k][i]))), ratFloat(tol)))
		}
	}
	// inverse, both orders
	I := [3][3]*big.Rat{}
	for c := 0; c < 3; c++ {
		for rr := 0; rr < 3; rr++ {
			I[c][rr] = new(big.Rat)
			if c == rr {
				I[c][rr].SetInt64(1)
			}
		}
	}
	tolInv := ratDec("0.000001")
	for n, prod := range [][3][3]*big.Rat{rmatMul(sf.Minv, sf.M), rmatMul(sf.M, sf.Minv)} {
		label := []string{"FromXYZ·ToXYZ", "ToXYZ·FromXYZ"}[n]
		for c := 0; c < 3; c++ {
			for rr := 0; rr < 3; rr++ {
				r.Check(within(prod[c][rr], I[c][rr], tolInv), pre+".inverse", fmt.Sprintf("%s %s [%d][%d]", sp.Short, label, c, rr), sf.PosFrom,
					fmt.Sprintf("= δ (|Δ| = %.2g)", ratFloat(ratAbs(ratSub(prod[c][rr], I[c][rr])))),
					fmt.Sprintf("%s entry [%d][%d] = %s, identity requires %s (|Δ| = %.3g > 1e-6): ColorFromXYZ is not the inverse of ToXYZ", label, c, rr, fstr(prod[c][rr]), fstr(I[c][rr]), ratFloat(ratAbs(ratSub(prod[c][rr], I[c][rr])))))
			}
		}
	}
}

// ---------------------------------------------------------------------------
// C04

func runC04(p *Program, r *Report) {
	r.Explanation = "C04's per-pixel agreement with a float64 colorimetric reference over 2^24×16 cases is numeric and is NOT decided. Decided are the structural clauses about the PAIRING of pipeline stages that no single-stage rule covers: (pairs) for all 16 ordered (src,dst) pairs, with the matrices extracted for C03 and the Bradford adaptation evaluated in exact rational arithmetic from the repository's own AdaptBetweenXYYWhitePoints applied exactly when the declared white points differ, Minv_dst·A·M_src maps (1,1,1) to (1,1,1) within 1e-5 (the grey axis is preserved end to end) and is the identity for src = dst; (alpha) ColorFromNRGBA yields A/255 and ToNRGBA quantises that same value with MAX 255, with no arithmetic in between; (clip) encoders clip and never wrap; plus re-evaluation of the stage rules the pipeline is made of (C01.curve, C02.curve/quant/table-agreement, C03, C12.form/apply)."
	r.RuleText = "16 pair obligations × 3 channels, alpha wiring per space, and the referenced stage rules re-evaluated on the same tree"
	r.Trusted = []string{"go/packages+go/types+go/ssa (x/tools v0.29.0)", "the abstract interpreter and normal forms"}
	r.Assumptions = []string{"callers compose the pipeline as the README documents (decode, ToXYZ, adapt when white points differ, ColorFromXYZ, encode)"}

	sub := NewReport("C04", "other")
	var all []*spaceFacts
	for _, sp := range publishedSpaces {
		sf := extractSpace(p, sub, "C04.stage-C03", sp)
		all = append(all, sf)
		if sf.OK {
			checkSpace(p, sub, "C04.stage-C03", sf)
		}
	}
	checkBradfordConstants(p, sub, "C04.stage-C12")
	checkAdaptForm(p, sub, "C04.stage-C12")
	checkApplyLinear(p, sub, "C04.stage-C12")
	checkCurves(p, sub, "C04.stage-C01", "C04.stage-C02")
	checkQuantisers(p, sub, "C04.stage-C02")
	checkTableAgreement(p, sub, "C04.stage-C02")
	checkNoRawConversion(p, sub, "C04.stage-C02")
	// the stages are functions of their arguments only: building an adaptation or
	// converting a colour leaves package-level constants and operands untouched, so
	// the pairing facts hold for every call, not just the first in a process
	pure := []*ssa.Function{p.Func("ciexyz", "AdaptBetweenXYZWhitePoints"), p.Func("ciexyz", "AdaptBetweenXYYWhitePoints"), p.Method("ciexyz", "ChromaticAdaptation", "Apply")}
	for _, sp := range allSpaces {
		pure = append(pure, p.Method(sp, "Color", "ToXYZ"), p.Func(sp, "ColorFromXYZ"))
	}
	checkPure(p, sub, "C04.stage-pure", pure)
	for _, ob := range sub.Obls {
		r.Obls = append(r.Obls, ob)
	}
	for f := range sub.Functions {
		r.SawFn(f)
	}

	adapt := p.Func("ciexyz", "AdaptBetweenXYYWhitePoints")
	one := big.NewRat(1, 1)
	for _, src := range all {
		for _, dst := range all {
			key := src.Spec.Short + "→" + dst.Spec.Short
			if !src.OK || !dst.OK {
				r.Undecide("C04.pairs", key, "-", "matrices not extractable")
				continue
			}
			T := rmatMul(dst.Minv, src.M)
			differ := src.White[0].Cmp(dst.White[0]) != 0 || src.White[1].Cmp(dst.White[1]) != 0
			if differ {
				if adapt == nil {
					r.Undecide("C04.pairs", key, "-", "AdaptBetweenXYYWhitePoints not found")
					continue
				}
				e := NewEngine(p)
				e.EvalInits = true
				e.RunOnce = true // a lazily computed inverse is computed (who may write it and when is C11/C12.pure)
				mk := func(w [3]*big.Rat) Val { return &Agg{Elems: []Val{formRat(w[0]), formRat(w[1]), formRat(w[2])}} }
				outs, err := extract(p, e, adapt, []Val{mk(src.White), mk(dst.White)})
				var A [3][3]*big.Rat
				okA := err == nil
				if okA {
					okA = false
					for _, o := range outs {
						if o.Kind == "return" {
							if m, ok := mat3(o.Ret); ok {
								if cm, ok := constMat(m); ok {
									A, okA = cm, true
								}
							}
						}
					}
				}
				if !okA {
					r.Undecide("C04.pairs", key, p.FnPos(adapt), fmt.Sprintf("adaptation matrix not extractable as constants: %v", err))
					continue
				}
				T = rmatMul(dst.Minv, rmatMul(A, src.M))
			}
			g := rmatMulV(T, [3]*big.Rat{one, one, one})
			tol := ratDec("0.00001")
			for i := 0; i < 3; i++ {
				how := "same white point, no adaptation"
				if differ {
					how = "Bradford-adapted " + src.Spec.WhiteName + "→" + dst.Spec.WhiteName
				}
				r.Check(within(g[i], one, tol), "C04.pairs", key+" grey "+chanNames[i], dst.PosFrom,
					fmt.Sprintf("(1,1,1) ↦ %s = %s (%s)", chanNames[i], fstr(g[i]), how),
					fmt.Sprintf("source white (1,1,1) arrives as %s = %s in %s (%s): the grey axis is not preserved across this pair", chanNames[i], fstr(g[i]), dst.Spec.Name, how))
			}
		}
	}
	checkAlphaNRGBA(p, r, "C04.alpha")
	r.Floor("C04.pairs", 48)
	r.Floor("C04.alpha", 8)
	r.Floor("C04.stage-C03.affine", 8)
	r.Floor("C04.stage-C02.quant", 9)
}
