package main

import (
	"fmt"
	"go/token"
	"go/types"
	"sort"
	"strings"

	"golang.org/x/tools/go/ssa"
)

// Init-only state.
//
// Every rule that reads the value of a package-level variable from the
// package's initialisation (Engine.EvalInits: coefficient matrices, tables,
// Bradford matrices, signatures …) silently assumes that the variable still
// holds that value when the anchored function runs. That is a fact about the
// whole program: no code outside initialisation stores to the variable, to a
// field or element of it, or through a pointer to it that has been handed to
// something that writes. The premise is discharged here, per variable read,
// and reported under <property>.state:
//
//	direct store        *(&G…) = v            outside init
//	through a pointer   f(&G…) / (&G).m(…)    where f (m) stores through that
//	                                          parameter, or passes it on to
//	                                          something that does (module code is
//	                                          followed, anything else is assumed
//	                                          to write)
//	escaping address    &G… stored, returned, captured or converted to an
//	                    interface outside init
//
// sync.Once/Mutex/WaitGroup/atomic receivers are not data (rule C11.O1/O2
// covers what they guard).

type stateFinding struct {
	Var, Where, Why string
}

func (p *Program) initOnly(g *ssa.Global) (bool, stateFinding) {
	if p.initOnlyCache == nil {
		p.initOnlyCache = map[*ssa.Global]*stateFinding{}
	}
	if f, ok := p.initOnlyCache[g]; ok {
		if f == nil {
			return true, stateFinding{}
		}
		return false, *f
	}
	f := p.scanGlobalWrites(g)
	p.initOnlyCache[g] = f
	if f == nil {
		return true, stateFinding{}
	}
	return false, *f
}

func syncType(t types.Type) bool {
	if pt, ok := t.(*types.Pointer); ok {
		t = pt.Elem()
	}
	n, ok := t.(*types.Named)
	if !ok || n.Obj().Pkg() == nil {
		return false
	}
	pp := n.Obj().Pkg().Path()
	return pp == "sync" || pp == "sync/atomic"
}

// derivedAddrs returns the values in f that are addresses into the storage
// `root` points to (field/element addresses, re-slicings, conversions, phis).
func derivedAddrs(f *ssa.Function, roots map[ssa.Value]bool) map[ssa.Value]bool {
	S := map[ssa.Value]bool{}
	for v := range roots {
		S[v] = true
	}
	for changed := true; changed; {
		changed = false
		for _, b := range f.Blocks {
			for _, in := range b.Instrs {
				v, ok := in.(ssa.Value)
				if !ok || S[v] {
					continue
				}
				add := false
				switch x := in.(type) {
				case *ssa.FieldAddr:
					add = S[x.X]
				case *ssa.IndexAddr:
					add = S[x.X]
				case *ssa.Slice:
					add = S[x.X]
				case *ssa.ChangeType:
					add = S[x.X]
				case *ssa.Convert:
					add = S[x.X]
				case *ssa.Phi:
					for _, e := range x.Edges {
						if S[e] {
							add = true
						}
					}
				}
				if add {
					S[v] = true
					changed = true
				}
			}
		}
	}
	return S
}

// writesThrough reports whether f stores through parameter idx (or hands it to
// something that does). Unknown callees are assumed to write.
func (p *Program) writesThrough(f *ssa.Function, idx int, depth int, seen map[string]bool) (bool, string) {
	if f == nil || len(f.Blocks) == 0 || idx >= len(f.Params) {
		return true, "a function without source"
	}
	key := fmt.Sprintf("%p/%d", f, idx)
	if seen[key] || depth > 6 {
		return false, ""
	}
	seen[key] = true
	S := derivedAddrs(f, map[ssa.Value]bool{f.Params[idx]: true})
	for _, b := range f.Blocks {
		for _, in := range b.Instrs {
			switch x := in.(type) {
			case *ssa.Store:
				if S[x.Addr] {
					return true, shortFn(f) + " stores through it at " + p.InstrPos(x)
				}
				if S[x.Val] {
					return true, shortFn(f) + " keeps the pointer at " + p.InstrPos(x)
				}
			case ssa.CallInstruction:
				cc := x.Common()
				args := cc.Args
				for ai, a := range args {
					if !S[a] {
						continue
					}
					if b, isB := cc.Value.(*ssa.Builtin); isB {
						if b.Name() == "copy" && ai == 0 || b.Name() == "append" && ai == 0 || b.Name() == "clear" || b.Name() == "delete" {
							return true, shortFn(f) + " writes it with " + b.Name() + " at " + p.InstrPos(x)
						}
						continue
					}
					callee := staticCallee(x)
					if callee == nil || !isPrismFn(callee) {
						if syncType(a.Type()) {
							continue
						}
						return true, shortFn(f) + " hands it to " + cc.Value.Name() + " at " + p.InstrPos(x)
					}
					if w, why := p.writesThrough(callee, ai, depth+1, seen); w {
						return true, why
					}
				}
			case *ssa.Return:
				for _, rv := range x.Results {
					if S[rv] {
						return true, shortFn(f) + " returns the pointer at " + p.InstrPos(x)
					}
				}
			case *ssa.MakeInterface:
				if S[x.X] {
					return true, shortFn(f) + " converts the pointer to an interface at " + p.InstrPos(x)
				}
			case *ssa.MakeClosure:
				for _, bnd := range x.Bindings {
					if S[bnd] {
						return true, shortFn(f) + " captures the pointer in a closure at " + p.InstrPos(x)
					}
				}
			}
		}
	}
	return false, ""
}

func (p *Program) scanGlobalWrites(g *ssa.Global) *stateFinding {
	name := strings.TrimPrefix(g.Pkg.Pkg.Path(), ModPath+"/") + "." + g.Name()
	if syncType(g.Type()) {
		return nil
	}
	// code that can only run during initialisation (init itself and helpers only it calls) or
	// only under one sync.Once (lazily published state, the subject of rule C11.O1: written
	// under one Once, every read behind the same Do) does not "change the value later"
	if p.execCtx == nil {
		p.execCtx = execContexts(p)
	}
	exempt := func(f *ssa.Function) bool {
		c := p.execCtx[f]
		return c != nil && (c.initOnly() || c.singleOnce() != nil)
	}
	var found []stateFinding
	for _, f := range p.SrcFuncs() {
		if isInitFn(f) || exempt(f) {
			continue
		}
		uses := false
		for _, b := range f.Blocks {
			for _, in := range b.Instrs {
				var ops []*ssa.Value
				for _, op := range in.Operands(ops) {
					if op != nil && *op == ssa.Value(g) {
						uses = true
					}
				}
			}
		}
		if !uses {
			continue
		}
		S := derivedAddrs(f, map[ssa.Value]bool{g: true})
		for _, b := range f.Blocks {
			for _, in := range b.Instrs {
				switch x := in.(type) {
				case *ssa.Store:
					if S[x.Addr] {
						found = append(found, stateFinding{name, p.InstrPos(x), shortFn(f) + " stores to it"})
					} else if S[x.Val] {
						found = append(found, stateFinding{name, p.InstrPos(x), shortFn(f) + " stores its address"})
					}
				case ssa.CallInstruction:
					cc := x.Common()
					for ai, a := range cc.Args {
						if !S[a] || syncType(a.Type()) {
							continue
						}
						if b, isB := cc.Value.(*ssa.Builtin); isB {
							if b.Name() == "copy" && ai == 0 || b.Name() == "clear" {
								found = append(found, stateFinding{name, p.InstrPos(x), shortFn(f) + " overwrites it with " + b.Name()})
							}
							continue
						}
						callee := staticCallee(x)
						if callee == nil || !isPrismFn(callee) {
							found = append(found, stateFinding{name, p.InstrPos(x), shortFn(f) + " hands its address to " + cc.Value.Name() + ", which may write through it"})
							continue
						}
						if w, why := p.writesThrough(callee, ai, 0, map[string]bool{}); w {
							found = append(found, stateFinding{name, p.InstrPos(x), shortFn(f) + " passes its address to " + shortFn(callee) + ": " + why})
						}
					}
				case *ssa.Return:
					for _, rv := range x.Results {
						if S[rv] {
							found = append(found, stateFinding{name, p.InstrPos(x), shortFn(f) + " returns its address"})
						}
					}
				case *ssa.MakeInterface:
					if S[x.X] {
						found = append(found, stateFinding{name, p.InstrPos(x), shortFn(f) + " converts its address to an interface"})
					}
				case *ssa.MakeClosure:
					for _, bnd := range x.Bindings {
						if S[bnd] {
							// closures of the same function see the variable itself, not a copy: their stores are found when they are scanned
							_ = bnd
						}
					}
				}
			}
		}
	}
	if len(found) == 0 {
		return nil
	}
	sort.Slice(found, func(i, j int) bool { return found[i].Where < found[j].Where })
	return &found[0]
}

// noteInitRead is called by the engine whenever the initial value of g is used.
func (p *Program) noteInitRead(g *ssa.Global) {
	if p.initReads == nil {
		p.initReads = map[*ssa.Global]bool{}
	}
	p.initReads[g] = true
}

// reportInitOnly adds the <prop>.state obligations for the variables whose
// initial values the property's rules relied on.
func reportInitOnly(p *Program, r *Report, prop string) {
	var gs []*ssa.Global
	for g := range p.initReads {
		gs = append(gs, g)
	}
	sort.Slice(gs, func(i, j int) bool { return gs[i].String() < gs[j].String() })
	n := 0
	for _, g := range gs {
		ok, f := p.initOnly(g)
		if ok {
			n++
			continue
		}
		r.Violate(prop+".state", f.Var+" keeps its initial value", f.Where, "the rules of this property read "+f.Var+" as it is after package initialisation, but "+f.Why+" outside initialisation: from then on the anchored code computes with other values (a history-dependent failure no single call exposes)")
	}
	if len(gs) > 0 && n == len(gs) {
		r.Hold(prop+".state", "package-level values read keep their initial value", "-", fmt.Sprintf("%d package-level variables whose initial values the rules rely on: none is stored to, overwritten through a pointer, or has its address escape outside initialisation", n))
	}
}

var _ = token.NoPos
