package main

import (
	"fmt"
	"go/types"
	"math/big"
	"strings"

	"golang.org/x/tools/go/ssa"
)

// C18 — metadata is read without consuming the image body.

func init() {
	register(&PropertyCheck{ID: "C18", Level: "other", Run: runC18})
}

func runC18(p *Program, r *Report) {
	r.Explanation = "Decided on the abstract interpretation of the parsers over a symbolic stream (final stream positions are exact affine forms in the declared lengths) and on flow rules: (E1) on every explored path, once the metadata is complete (PNG: IHDR seen and profile data set; JPEG: SOF seen and all declared ICC chunks stored) no further chunk/segment is read — the path ends exactly at the end of the completing chunk; (E2) the IDAT/IEND and SOS/EOI arms stop without reading anything beyond the chunk/marker header; (E3) between source and parser there is exactly one buffering layer bufio.NewReader (4096) or NewReaderSize with a constant ≤ 65536, and no io.ReadAll/io.Copy/ReadFrom is applied to a reader derived from the source (only in-memory readers); (E4) the WebP parser is loop-free apart from constant-consumption skips and ends at offset 30 (VP8, VP8X without profile), 25 (VP8L) or right after the ICCP payload; reading a JPEG segment consumes exactly marker (2) + optional length (2) + payload, never scanning forward; (E5) autometa adds no reads (C19). NOT decided: the measured byte count (bufio read-ahead is bounded by its buffer size by contract), and 'truncated just after that point gives the same result'. Exploration is bounded (≤ 3 chunks/segments per path); damaged profiles are outside the statement (well-formed images)."
	r.RuleText = "one instance per clause per format, evaluated on all explored paths"
	r.Trusted = []string{"go/packages+go/types+go/ssa (x/tools v0.29.0)", "the abstract interpreter (bounded exploration, exact stream positions)", "bufio.Reader reads at most its buffer size ahead"}
	checkStopPng(p, r)
	checkStopJpeg(p, r)
	checkStopWebp(p, r)
	checkExitAfterCompletion(p, r, "meta/pngmeta")
	checkExitAfterCompletion(p, r, "meta/jpegmeta")
	checkBuffering(p, r)
	checkSegmentConsumption(p, r)
	checkFirstSegment(p, r)
	r.Floor("C18.E1", 6)
	r.Floor("C18.E2", 2)
	r.Floor("C18.E3", 4)
	r.Floor("C18.E4", 3)
}

func checkStopPng(p *Program, r *Report) {
	fn := p.Func("meta/pngmeta", "extractMetadata")
	if fn == nil {
		r.Undecide("C18.E1", "pngmeta", "-", "parser not found")
		return
	}
	r.SawFn(shortFn(fn))
	pr := pngRun(p)
	pos := p.FnPos(fn)
	// the stop rules below are decided on chunk streams the parser stays aligned with; a
	// maximum-length profile name whose terminator is left unread shifts every later chunk
	// boundary, so that IDAT is never recognised and the image body is pulled
	r.Check(pngNameLoopBound(fn), "C18.E1", "png iCCP name terminator consumed", pos, "the profile-name loop can read 80 bytes (79-byte name + NUL): the parser stays aligned with the chunk boundaries for every legal name length", "the iCCP profile-name loop cannot read the terminator of a 79-byte name: the NUL is taken for the compression-method byte, every later chunk boundary is off by one, IDAT is never recognised and the whole image body is pulled from the source")
	if len(pr.Stuck) > 0 {
		r.Undecide("C18.E1", "pngmeta", p.Pos(pr.Stuck[0].Pos), "parser not extractable: "+pr.Stuck[0].Why)
		return
	}
	e := pr.E
	e1, e2 := true, true
	n1, n2 := 0, 0
	why1, why2 := "", ""
	stopSeen := map[string]bool{}
	for _, o := range pr.Succ {
		_, _, tags := pngChain(e, o)
		if len(tags) == 0 {
			continue
		}
		md := mdOf(o)
		hasData, _ := iccState(md)
		if hasData && condSaysNil(o, md.ICCData) {
			hasData = false // the path assumes the decompressed profile is empty: (nil, nil), not "present"
		}
		last := tags[len(tags)-1]
		final := pr.posOf(o)
		if hasData {
			n1++
			// complete with data: the last chunk read must be IHDR or iCCP, and the path ends at its end
			h, q := -1, -1
			for i, t := range tags {
				if t.Equal && t.Tag == "IHDR" && h < 0 {
					h = i
				}
				if t.Equal && t.Tag == "iCCP" {
					q = i
				}
			}
			m := h
			if q > m {
				m = q
			}
			L := o.St.resolve(e.beU32(last.Off.Sub(formInt(4)))) // with what the path has pinned (an IHDR length required to be 13 …)
			endOfLast := last.Off.Add(formInt(8)).Add(L)
			if m != len(tags)-1 {
				e1, why1 = false, fmt.Sprintf("a path reads %d more chunk header(s) after the dimensions and the profile were both extracted", len(tags)-1-m)
			} else if !final.Equal(endOfLast) {
				e1, why1 = false, "after the completing chunk the path ends at "+trunc(final.Key(), 80)+", not at the end of that chunk"
			}
		} else if last.Equal && (last.Tag == "IDAT" || last.Tag == "IEND") {
			n2++
			stopSeen[last.Tag] = true
			if !final.Equal(last.Off.Add(formInt(4))) {
				e2, why2 = false, "after an IDAT/IEND header the parser reads on: the path ends at "+trunc(final.Key(), 80)+" instead of right after the chunk header"
			}
		}
	}
	r.Check(e1 && n1 > 0, "C18.E1", "png stop when complete", pos, fmt.Sprintf("on %d explored paths with IHDR and a profile: the path ends exactly at the end of the completing chunk, no further chunk header is read", n1), why1)
	if e2 && !(stopSeen["IDAT"] && stopSeen["IEND"]) {
		e2, why2 = false, fmt.Sprintf("the parser does not stop at both IDAT and IEND (stop arms seen: %v): the chunk that starts the pixel data is skipped byte by byte like an ancillary chunk, pulling the whole image body", keysOf(stopSeen))
	}
	r.Check(e2 && n2 > 0, "C18.E2", "png stop at pixel data", pos, fmt.Sprintf("on %d paths: IDAT/IEND stop the parser right after the 8-byte chunk header", n2), why2)
}

func checkStopJpeg(p *Program, r *Report) {
	fn := p.Func("meta/jpegmeta", "extractMetadata")
	if fn == nil {
		r.Undecide("C18.E1", "jpegmeta", "-", "parser not found")
		return
	}
	r.SawFn(shortFn(fn))
	pr := jpegRun(p, true)
	pos := p.FnPos(fn)
	if len(pr.Stuck) > 0 {
		r.Undecide("C18.E1", "jpegmeta", p.Pos(pr.Stuck[0].Pos), "parser not extractable: "+pr.Stuck[0].Why)
		return
	}
	e1, e2 := true, true
	n1, n2 := 0, 0
	why1, why2 := "", ""
	jpegStops := map[int64]bool{}
	for _, o := range pr.Outs {
		if o.Kind == "stuck" {
			continue
		}
		// condition indices
		sofAt, iccAt, stopAt := -1, -1, -1
		for ci, c := range o.St.conds {
			if c.Op != "==" {
				continue
			}
			k := c.Key()
			a, okA := c.A.(*Form)
			b, okB := c.B.(*Form)
			if !okA || !okB {
				continue
			}
			if strings.Contains(k, ".Type(") {
				if cv, isC := b.ConstInt(); isC {
					if (cv == 0xc0 || cv == 0xc2) && sofAt < 0 {
						sofAt = ci
					}
					if (cv == 0xda || cv == 0xd9) && stopAt < 0 {
						stopAt = ci
					}
				}
			}
			// ICC complete, stated as a remaining-count test: (Data[13] − c) == 0 with c >= 1
			if d := a.Sub(b); !strings.Contains(k, ".Type(") {
				ats := d.Atoms()
				if len(ats) == 1 {
					for an := range ats {
						if strings.Contains(an, ", 13)") && strings.Contains(an, "index(.Data(") {
							if co, ok := d.LinearCoeff(an); ok && ratAbs(co).Cmp(big.NewRat(1, 1)) == 0 {
								rest := d.Sub(formRat(co).Mul(formAtom(an)))
								if cv, isC := rest.Const(); isC && cv.Sign() != 0 && cv.Sign() != co.Sign() {
									iccAt = ci
								}
							}
						}
					}
				}
			}
			// ICC complete: <count> == len(chunks) with count >= 1
			if cv, isC := a.ConstInt(); isC && cv >= 1 && strings.Contains(b.Key(), ", 13)") && strings.Contains(b.Key(), "index(.Data(") {
				iccAt = ci
			}
			if cv, isC := b.ConstInt(); isC && cv >= 1 && strings.Contains(a.Key(), ", 13)") && strings.Contains(a.Key(), "index(.Data(") && !strings.Contains(k, ".Type(") {
				// total == count form (the same fact written the other way round)
				iccAt = ci
			}
		}
		if sofAt >= 0 && iccAt >= 0 {
			n1++
			done := sofAt
			if iccAt > done {
				done = iccAt
			}
			for _, ev := range o.St.events {
				if ev.Kind == "call" && strings.Contains(ev.Fn, "ReadSegment") && ev.CondIdx > done+1 {
					e1, why1 = false, "a segment is read at "+p.Pos(ev.Pos)+" after the frame header and all declared ICC chunks were already extracted (early exit missing): everything up to SOS is pulled from the source"
				}
			}
		}
		if stopAt >= 0 {
			n2++
			for _, c := range o.St.conds {
				if c.Op == "==" && strings.Contains(c.Key(), ".Type(") {
					if b, ok := c.B.(*Form); ok {
						if cv, isC := b.ConstInt(); isC && (cv == 0xda || cv == 0xd9) {
							jpegStops[cv] = true
						}
					}
				}
			}
			for _, ev := range o.St.events {
				if ev.Kind == "call" && strings.Contains(ev.Fn, "ReadSegment") && ev.CondIdx > stopAt {
					e2, why2 = false, "a segment is read after SOS/EOI"
				}
			}
		}
	}
	r.Check(e1 && n1 > 0, "C18.E1", "jpeg stop when complete", pos, fmt.Sprintf("on %d explored paths: once SOF and all declared ICC chunks are in, no further segment is read", n1), why1)
	if e2 && !(jpegStops[0xda] && jpegStops[0xd9]) {
		e2, why2 = false, "the parse loop does not stop at both SOS (0xDA) and EOI (0xD9): entropy-coded data would be scanned"
	}
	r.Check(e2 && n2 > 0, "C18.E2", "jpeg stop at SOS/EOI", pos, fmt.Sprintf("on %d paths: SOS/EOI end the parse loop without another read", n2), why2)
}

func checkStopWebp(p *Program, r *Report) {
	fn := p.Func("meta/webpmeta", "extractMetadata")
	if fn == nil {
		r.Undecide("C18.E4", "webpmeta", "-", "parser not found")
		return
	}
	r.SawFn(shortFn(fn))
	pr := webpRun(p)
	pos := p.FnPos(fn)
	if len(pr.Stuck) > 0 {
		r.Violate("C18.E4", "webp loop-free", p.Pos(pr.Stuck[0].Pos), "the WebP parser contains a data-dependent loop or construct that is not a constant-consumption skip: "+pr.Stuck[0].Why)
		return
	}
	e := pr.E
	want := map[string]int64{"VP8 ": 30, "VP8L": 25}
	ok := map[string]bool{"VP8 ": true, "VP8L": true, "VP8X": true}
	seen := map[string]int{}
	why := ""
	for _, o := range pr.Succ {
		kind := ""
		for _, t := range tagConds(e, o) {
			if c, isC := t.Off.ConstInt(); isC && c == 12 && t.Equal {
				kind = t.Tag
			}
		}
		final := pr.posOf(o)
		truncated := false
		for _, ev := range o.St.events {
			if ev.Kind == "readfail" {
				truncated = true // the input ended inside the structure: not a well-formed file, position bounded by EOF
			}
		}
		if truncated {
			continue
		}
		seen[kind]++
		switch kind {
		case "VP8 ", "VP8L":
			if c, isC := final.ConstInt(); !isC || c != want[kind] {
				ok[kind], why = false, fmt.Sprintf("%s header parse ends at offset %s, the header ends at %d", kind, final.Key(), want[kind])
			}
		case "VP8X":
			md := mdOf(o)
			hasData, _ := iccState(md)
			if hasData {
				L := formSub(final, 38)
				runs, okR := fieldRuns(e, L, types.Typ[types.Uint32])
				if !okR || !runsMatch(runs, []runSpec{{37, 0, 8}, {36, 0, 8}, {35, 0, 8}, {34, 0, 8}}) {
					ok[kind], why = false, "with a profile the parse ends at "+trunc(final.Key(), 80)+", not right after the ICCP payload (38 + length)"
				}
			} else if c, isC := final.ConstInt(); !isC || c > 38 {
				ok[kind], why = false, "without a usable profile the parse ends at "+trunc(final.Key(), 80)
			}
		}
	}
	for _, k := range []string{"VP8 ", "VP8L", "VP8X"} {
		r.Check(ok[k] && seen[k] > 0, "C18.E4", "webp "+strings.TrimSpace(k)+" end position", pos, fmt.Sprintf("%d paths end at the end of the header (30 / 25) or right after the ICCP payload", seen[k]), why)
	}
}

func formSub(f *Form, c int64) *Form { return f.Sub(formInt(c)) }

// checkBuffering is rule E3.
func checkBuffering(p *Program, r *Report) {
	for _, short := range formatLoaders {
		L := p.Func(short, "Load")
		key := short + ".Load buffering"
		if L == nil {
			r.Undecide("C18.E3", key, "-", "Load not found")
			continue
		}
		// the loader region is interpreted as in C07; on every path that
		// reaches the parser, count the buffering layers between source and parser
		n, good, why := -1, true, ""
		_, outs, _, _ := runLoader(p, L)
		for _, o := range outs {
			if o.Kind != "return" {
				continue
			}
			layers, parsed := 0, false
			for _, ev := range o.St.events {
				if ev.Kind != "call" {
					continue
				}
				switch {
				case ev.Fn == "bufio.NewReader":
					layers++
				case ev.Fn == "bufio.NewReaderSize":
					layers++
					sz, _ := ev.Args[1].(*Form)
					if c, isC := sz.ConstInt(); sz == nil || !isC || c > 65536 {
						good, why = false, fmt.Sprintf("bufio.NewReaderSize with size %s: read-ahead exceeds the 64 KiB allowance", valKey(ev.Args[1]))
					}
				case ev.Fn == "io.ReadAll", ev.Fn == "io/ioutil.ReadAll", ev.Fn == "io.Copy", ev.Fn == "(*bytes.Buffer).ReadFrom":
					good, why = false, "the loader slurps the stream with "+ev.Fn
				case ev.Callee != nil && isPrismFn(ev.Callee):
					parsed = true
				}
			}
			if parsed && (n < 0 || layers != 1) {
				n = layers
			}
		}
		if n < 0 {
			n = 0
		}
		r.Check(good && n == 1, "C18.E3", key, p.FnPos(L), "exactly one buffering layer: bufio.NewReader (4096 bytes) or a constant ≤ 65536", fmt.Sprintf("%d buffering layers; %s", n, why))
	}
	// no unbounded slurp of a reader derived from a stream parameter anywhere in meta/...
	bad := ""
	n := 0
	for _, f := range p.SrcFuncs() {
		if !inMeta(f) {
			continue
		}
		for _, b := range f.Blocks {
			for _, in := range b.Instrs {
				c, ok := in.(*ssa.Call)
				if !ok {
					continue
				}
				cf := staticCallee(c)
				var src ssa.Value
				switch {
				case fnIs(cf, "io", "ReadAll"), fnIs(cf, "io/ioutil", "ReadAll"):
					src = c.Call.Args[0]
				case fnIs(cf, "io", "Copy"):
					src = c.Call.Args[1]
				case methIs(cf, "bytes", "Buffer", "ReadFrom"):
					src = c.Call.Args[1]
				default:
					continue
				}
				n++
				root := stripIface(src)
				if _, isParam := root.(*ssa.Parameter); isParam {
					bad = fmt.Sprintf("%s reads a stream parameter to its end with %s at %s", shortFn(f), cf.Name(), p.InstrPos(c))
				}
				if _, isFV := root.(*ssa.FreeVar); isFV {
					bad = fmt.Sprintf("%s reads a captured stream to its end with %s at %s", shortFn(f), cf.Name(), p.InstrPos(c))
				}
			}
		}
	}
	r.Check(bad == "", "C18.E3", "no unbounded read of the source", "-", fmt.Sprintf("%d read-to-EOF calls in meta/..., all on in-memory readers (decompressed profile)", n), bad)
}

// checkSegmentConsumption: reading one JPEG segment outside entropy-coded
// data consumes exactly 2 (+2) + DataLength bytes: no forward scanning.
func checkSegmentConsumption(p *Program, r *Report) {
	rm := p.Func("meta/jpegmeta", "readMarker")
	if rm == nil {
		r.Undecide("C18.E4", "jpeg readMarker", "-", "not found")
		return
	}
	r.SawFn(shortFn(rm))
	pr := runParser(p, rm, parserOpts{MaxForks: 1})
	fill := false
	if len(pr.Stuck) > 0 {
		// a reader that accepts fill bytes (ITU T.81 B.1.1.2: any marker may be preceded by any number of
		// 0xFF bytes) loops while the byte just read is 0xFF: followed for a few rounds, every extra
		// byte consumed must be one the path has compared equal to 0xFF — then the read still ends at
		// the marker and never skips over data
		pr = runParser(p, rm, parserOpts{MaxForks: 4, MaxIter: 4})
		fill = true
		if len(pr.Stuck) > 0 {
			r.Violate("C18.E4", "jpeg readMarker consumption", p.Pos(pr.Stuck[0].Pos), "reading a marker is not a fixed-size read (it scans the stream): "+pr.Stuck[0].Why)
			return
		}
	}
	good, why := len(pr.Succ) > 0, "no success path"
	for _, o := range pr.Succ {
		c, isC := pr.posOf(o).ConstInt()
		if !isC {
			good, why = false, "a marker read consumes "+pr.posOf(o).Key()+" bytes; a marker is FF xx plus an optional 2-byte length"
			continue
		}
		if c == 2 || c == 4 {
			continue
		}
		if !fill {
			good, why = false, "a marker read consumes "+pr.posOf(o).Key()+" bytes; a marker is FF xx plus an optional 2-byte length"
			continue
		}
		// bytes 1 .. k of the read are fill bytes: in[j] == 0xFF on the path for every skipped position
		eqs := byteEqConds(pr.E, o)
		nFF := int64(0)
		for j := int64(0); j < c; j++ {
			if v, ok := eqs[fmt.Sprint(j)]; ok && v == 0xff {
				nFF++
			} else {
				break
			}
		}
		extra := c - nFF // what follows the run of FF bytes: the marker code, plus an optional length
		if nFF < 1 || (extra != 1 && extra != 3) {
			good, why = false, fmt.Sprintf("a marker read consumes %d bytes of which only the first %d are required to be 0xFF: bytes other than fill bytes are skipped while looking for a marker", c, nFF)
		}
	}
	holds := fmt.Sprintf("all %d success paths consume exactly 2 bytes (stand-alone) or 4 bytes (with length)", len(pr.Succ))
	if fill {
		holds = fmt.Sprintf("all %d explored success paths consume a run of 0xFF bytes (prefix and fill bytes, each compared with 0xFF), the marker code and an optional 2-byte length — nothing else is skipped", len(pr.Succ))
	}
	r.Check(good, "C18.E4", "jpeg readMarker consumption", p.FnPos(rm), holds, why)
}

// checkFirstSegment: the first ReadSegment of a freshly made segment reader — the one
// that has to find the start-of-image marker — consumes one marker (2 bytes, or 4 plus
// the declared payload): it does not scan the stream for it. A reader that skips
// leading bytes until it sees FF D8 makes the JPEG candidate of the auto-detecting
// loader swallow the whole of any non-JPEG file (seed C18-O).
func checkFirstSegment(p *Program, r *Report) {
	mk := p.Func("meta/jpegmeta", "NewSegmentReader")
	rs := p.Method("meta/jpegmeta", "segmentReader", "ReadSegment")
	key := "jpeg first segment"
	if mk == nil || rs == nil {
		r.Undecide("C18.E4", key, "-", "NewSegmentReader / (*segmentReader).ReadSegment not found")
		return
	}
	r.SawFn(shortFn(rs))
	e := NewEngine(p)
	e.EvalInits = true
	e.MaxIter, e.MaxForks = 3, 3
	e.PruneByFacts = true
	st := newState()
	s := &Stream{Name: "in"}
	st.pos[s] = formInt(0)
	outs := e.Run(mk, []Val{&ReaderVal{S: s}}, st)
	if len(outs) != 1 || outs[0].Kind != "return" {
		r.Undecide("C18.E4", key, p.FnPos(mk), "NewSegmentReader is not a plain constructor")
		return
	}
	good, why, n := true, "", 0
	for _, o := range e.Run(rs, []Val{outs[0].Ret}, outs[0].St) {
		switch o.Kind {
		case "return":
			tp, _ := o.Ret.(Tuple)
			if len(tp) == 2 {
				if ev, ok := tp[1].(*ErrVal); !ok || !ev.IsNil {
					continue
				}
			}
			n++
			pos := o.St.pos[s]
			c, isC := pos.ConstInt()
			// the marker prefix and any fill bytes: leading bytes the path compared equal to 0xFF
			eqs := byteEqConds(e, o)
			base := int64(0)
			for {
				if v, ok := eqs[fmt.Sprint(base)]; ok && v == 0xff {
					base++
					continue
				}
				break
			}
			base++ // the marker code
			if isC && base >= 2 && (c == base || c == base+2) {
				continue // stand-alone marker; marker with a length field and no payload
			}
			// the length field counts itself and the payload
			want := formInt(base).Add(e.beU16(formInt(base)))
			if base < 2 || !pos.Equal(want) {
				good, why = false, "the first segment read ends at offset "+trunc(pos.Key(), 80)+"; a marker is FF xx, or FF xx + a 2-byte length + (length − 2) bytes of payload"
			}
		case "cutoff":
			// a reader that accepts fill bytes loops while the byte just read is 0xFF (ITU T.81
			// B.1.1.2); the exploration bound is reached inside that run when every byte consumed
			// so far is one the path has compared equal to 0xFF — nothing else was skipped
			if c, isC := o.St.pos[s].ConstInt(); isC && c >= 2 {
				eqs := byteEqConds(e, o)
				nFF := int64(0)
				for j := int64(0); j < c; j++ {
					if v, ok := eqs[fmt.Sprint(j)]; ok && v == 0xff {
						nFF++
					}
				}
				if nFF >= c-1 {
					continue
				}
			}
			good, why = false, "the first segment read loops over the stream ("+o.Why+" at "+p.Pos(o.Pos)+"): it searches for a marker instead of reading one, so a stream that is not a JPEG is consumed to its end"
		default:
			good, why = false, "the first segment read is not extractable: "+o.Why+" at "+p.Pos(o.Pos)
		}
	}
	r.Check(good && n > 0, "C18.E4", key, p.FnPos(rs), fmt.Sprintf("on all %d success paths the first ReadSegment of a fresh reader consumes exactly one marker (and its declared payload)", n), why)
}

// condSaysNil reports whether the path assumes slice value v to be nil.
func condSaysNil(o Outcome, v Val) bool {
	k := valKey(v)
	for _, c := range o.St.conds {
		if c.Op != "==" {
			continue
		}
		a, b := valKey(c.A), valKey(c.B)
		if (a == k && b == "nil-slice") || (b == k && a == "nil-slice") {
			return true
		}
	}
	return false
}

// checkExitAfterCompletion is the CFG form of E1: in the parse loop of
// extractMetadata, every instruction that can complete the metadata — setting
// the captured "dimensions known" flag, advancing the captured ICC chunk
// counter, or calling SetICCProfileData — is followed, on every path back to
// the loop header, by a call of the completeness closure whose true branch
// leaves the loop.
func checkExitAfterCompletion(p *Program, r *Report, short string) {
	fn := p.Func(short, "extractMetadata")
	key := short + ".extractMetadata"
	if fn == nil {
		r.Undecide("C18.E1", key+" exit test", "-", "parser not found")
		return
	}
	// a parser that only forwards (extractMetadata → extractMetadataWithOptions): the rule is
	// about the function that holds the parse loop
	for hop := 0; hop < 3 && len(loopsOf(fn)) == 0; hop++ {
		var next *ssa.Function
		n := 0
		for _, b := range fn.Blocks {
			for _, in := range b.Instrs {
				if c, ok := in.(*ssa.Call); ok {
					if cf := staticCallee(c); cf != nil && isPrismFn(cf) && cf.Pkg == fn.Pkg {
						next = cf
						n++
					}
				}
			}
		}
		if n != 1 {
			break
		}
		fn = next
		r.SawFn(shortFn(fn))
	}
	// the completeness closure: func() bool, called in fn
	var mc *ssa.MakeClosure
	for _, b := range fn.Blocks {
		for _, in := range b.Instrs {
			m, ok := in.(*ssa.MakeClosure)
			if !ok {
				continue
			}
			sig := m.Fn.(*ssa.Function).Signature
			if sig.Params().Len() == 0 && sig.Results().Len() == 1 && isBoolType(sig.Results().At(0).Type()) {
				mc = m
			}
		}
	}
	if mc == nil {
		r.Violate("C18.E1", key+" exit test", p.FnPos(fn), "no completeness test (func() bool closure) in the parse loop: the loop cannot stop early")
		return
	}
	captured := map[ssa.Value]bool{}
	for _, b := range mc.Bindings {
		captured[b] = true
	}
	isCheck := func(in ssa.Instruction) *ssa.If {
		c, ok := in.(*ssa.Call)
		if !ok || c.Call.IsInvoke() {
			return nil
		}
		v := c.Call.Value
		if u, ok := v.(*ssa.UnOp); ok {
			v = resolveResult(u)
		}
		if v != ssa.Value(mc) {
			return nil
		}
		for _, u := range refs(c) {
			if ifi, ok := u.(*ssa.If); ok {
				return ifi
			}
		}
		return nil
	}
	inLoop := func(b *ssa.BasicBlock) *ssa.BasicBlock {
		// innermost loop header dominating b from which b is reachable via a back edge
		var best *ssa.BasicBlock
		for _, h := range fn.Blocks {
			if isLoopHeader(h) && h.Dominates(b) {
				// is h reachable from b?
				seen := map[*ssa.BasicBlock]bool{}
				var reach func(x *ssa.BasicBlock) bool
				reach = func(x *ssa.BasicBlock) bool {
					if x == h {
						return true
					}
					if seen[x] {
						return false
					}
					seen[x] = true
					for _, s := range x.Succs {
						if reach(s) {
							return true
						}
					}
					return false
				}
				ok := false
				for _, s := range b.Succs {
					if reach(s) {
						ok = true
					}
				}
				if ok && (best == nil || best.Dominates(h)) {
					best = h
				}
			}
		}
		return best
	}
	var points []ssa.Instruction
	for _, b := range fn.Blocks {
		for _, in := range b.Instrs {
			switch in := in.(type) {
			case *ssa.Store:
				if captured[in.Addr] {
					if c, ok := in.Val.(*ssa.Const); ok && c.Value != nil && isBoolType(c.Type()) && c.Value.String() == "true" {
						points = append(points, in)
					}
					if _, _, isInt := intTypeInfo(in.Val.Type(), 64); isInt {
						if _, isConst := in.Val.(*ssa.Const); !isConst {
							points = append(points, in)
						}
					}
				}
			case *ssa.Call:
				if f := staticCallee(in); methIs(f, ModPath+"/meta", "Data", "SetICCProfileData") {
					points = append(points, in)
				}
			}
		}
	}
	n := 0
	for _, pt := range points {
		h := inLoop(pt.Block())
		if h == nil {
			continue // after the loop (final assembly)
		}
		n++
		// walk forward from pt
		bad := ""
		seen := map[*ssa.BasicBlock]bool{}
		var walk func(b *ssa.BasicBlock, from int)
		walk = func(b *ssa.BasicBlock, from int) {
			for i := from; i < len(b.Instrs); i++ {
				if ifi := isCheck(b.Instrs[i]); ifi != nil {
					// the true branch must leave the loop
					t := ifi.Block().Succs[0]
					if inLoopOf(t, h) {
						bad = "the completeness test at " + p.InstrPos(b.Instrs[i]) + " does not leave the loop when it holds"
					}
					return // checked on this path
				}
				// accepted idiom: the iteration ends by recording an ICC error —
				// the profile is then settled as damaged and completeness is not at
				// stake on this path (the accessor reports the error from now on)
				if c, ok := b.Instrs[i].(*ssa.Call); ok {
					if f := staticCallee(c); methIs(f, ModPath+"/meta", "Data", "SetICCProfileError") {
						return
					}
				}
			}
			for _, s := range b.Succs {
				if s == h {
					bad = "the loop is re-entered without testing whether all metadata has been extracted"
					return
				}
				if !seen[s] {
					seen[s] = true
					walk(s, 0)
				}
			}
		}
		walk(pt.Block(), instrIndex(pt)+1)
		r.Check(bad == "", "C18.E1", fmt.Sprintf("%s exit test after completion point #%d", key, n), p.InstrPos(pt),
			"every path from this completion point back to the loop header passes `if allMetadataExtracted() { break }`",
			"after "+pt.String()+": "+bad+" — the parser keeps pulling chunks/segments (up to the pixel data) although everything needed is already known")
	}
	if n == 0 {
		r.Violate("C18.E1", key+" exit test", p.FnPos(fn), "no completion point found inside the parse loop")
	}
}

// inLoopOf reports whether block b can reach loop header h (is inside that loop).
func inLoopOf(b, h *ssa.BasicBlock) bool {
	seen := map[*ssa.BasicBlock]bool{}
	var reach func(x *ssa.BasicBlock) bool
	reach = func(x *ssa.BasicBlock) bool {
		if x == h {
			return true
		}
		if seen[x] {
			return false
		}
		seen[x] = true
		for _, s := range x.Succs {
			if reach(s) {
				return true
			}
		}
		return false
	}
	return reach(b)
}
