package main

import (
	"encoding/json"
	"fmt"
	"os"
	"path/filepath"
	"sort"
	"strings"
	"time"
)

// Status of one rule instance.
const (
	Holds     = "holds"
	Violated  = "violated"
	Undecided = "undecided"
	Info      = "info"
)

// Obligation is one rule instance: a rule applied to one construct.
type Obligation struct {
	Rule   string `json:"rule"`
	Key    string `json:"key"` // rule + construct, never a line number
	Pos    string `json:"pos"` // file:line, for reports only
	Status string `json:"status"`
	Detail string `json:"detail,omitempty"`
	Want   string `json:"want,omitempty"`
	Got    string `json:"got,omitempty"`
	Known  bool   `json:"known_finding,omitempty"`
}

// Report collects everything one property check did.
type Report struct {
	Property    string
	Level       string
	Tier        string
	Seed        int64
	Start       time.Time
	Obls        []Obligation
	Floors      map[string]int // rule -> minimum instance count
	Functions   map[string]bool
	Packages    map[string]bool
	Explanation string
	RuleText    string
	Trusted     []string
	Assumptions []string
	Extra       map[string]interface{}
	Arch        []string
	prog        *Program
}

func NewReport(id, level string) *Report {
	return &Report{Property: id, Level: level, Start: time.Now(), Floors: map[string]int{},
		Functions: map[string]bool{}, Packages: map[string]bool{}, Extra: map[string]interface{}{}}
}

func (r *Report) add(rule, key, pos, status, detail string) *Obligation {
	r.Obls = append(r.Obls, Obligation{Rule: rule, Key: rule + " " + key, Pos: pos, Status: status, Detail: detail})
	return &r.Obls[len(r.Obls)-1]
}

func (r *Report) Hold(rule, key, pos, detail string) { r.add(rule, key, pos, Holds, detail) }
func (r *Report) Violate(rule, key, pos, detail string) *Obligation {
	return r.add(rule, key, pos, Violated, detail)
}
func (r *Report) Undecide(rule, key, pos, detail string) { r.add(rule, key, pos, Undecided, detail) }
func (r *Report) Note(rule, key, pos, detail string)     { r.add(rule, key, pos, Info, detail) }

// Check records holds/violated depending on ok.
func (r *Report) Check(ok bool, rule, key, pos, okDetail, badDetail string) bool {
	if ok {
		r.Hold(rule, key, pos, okDetail)
	} else {
		r.Violate(rule, key, pos, badDetail)
	}
	return ok
}

// Floor declares the minimum number of (non-info) instances a rule must have
// examined; fewer is a failure (a rule that matched nothing must not pass).
func (r *Report) Floor(rule string, n int) { r.Floors[rule] = n }

func (r *Report) SawFn(name string) { r.Functions[name] = true }

// ---------------------------------------------------------------------------
// known findings

type KnownFinding struct {
	Property string `json:"property"`
	Key      string `json:"key"`
	What     string `json:"what"`
}

type FixedFinding struct {
	Property string `json:"property"`
	Commit   string `json:"commit"`
	What     string `json:"what"`
	Line     string `json:"line"`
}

type KnownFile struct {
	Known []KnownFinding `json:"known_findings"`
	Fixed []FixedFinding `json:"fixed"`
}

func loadKnown(path string) (*KnownFile, error) {
	kf := &KnownFile{}
	b, err := os.ReadFile(path)
	if err != nil {
		if os.IsNotExist(err) {
			return kf, nil
		}
		return nil, err
	}
	if err := json.Unmarshal(b, kf); err != nil {
		return nil, fmt.Errorf("%s: %v", path, err)
	}
	return kf, nil
}

// ---------------------------------------------------------------------------
// finishing: floors, evidence, exit status

type finishOpts struct {
	VerifDir   string
	NoEvidence bool
	CheckerCmd string
	ReplayKey  string // when set: only this obligation decides the verdict
}

// Finish applies floors and known findings, writes evidence and replay files,
// prints the verdict lines and returns the process exit status.
func (r *Report) Finish(o finishOpts) int {
	// floors
	counts := map[string]int{}
	for _, ob := range r.Obls {
		if ob.Status != Info {
			counts[ob.Rule]++
		}
	}
	var rules []string
	for rule := range r.Floors {
		rules = append(rules, rule)
	}
	sort.Strings(rules)
	for _, rule := range rules {
		if counts[rule] < r.Floors[rule] {
			r.Violate("FLOOR", rule, "-", fmt.Sprintf("rule %s examined %d instances, fewer than the %d confirmed by reading the repository: the rule no longer finds its constructs (vacuous pass refused)", rule, counts[rule], r.Floors[rule]))
		} else {
			r.Hold("FLOOR", rule, "-", fmt.Sprintf("%d instances >= floor %d", counts[rule], r.Floors[rule]))
		}
	}

	kf, err := loadKnown(filepath.Join(o.VerifDir, "known-findings.json"))
	if err != nil {
		r.Violate("KNOWN", "known-findings.json", "-", err.Error())
		kf = &KnownFile{}
	}
	known := map[string]string{}
	for _, k := range kf.Known {
		if k.Property == r.Property {
			known[k.Key] = k.What
		}
	}

	evDir := filepath.Join(o.VerifDir, "evidence")
	replayDir := filepath.Join(evDir, "replay")
	if !o.NoEvidence {
		os.MkdirAll(replayDir, 0o755)
		old, _ := filepath.Glob(filepath.Join(replayDir, r.Property+"-*.json"))
		for _, f := range old {
			os.Remove(f)
		}
	}

	bad := 0
	nKnown := 0
	discharged := 0
	nontrivial := map[string]bool{}
	var lines []string
	for i := range r.Obls {
		ob := &r.Obls[i]
		if o.ReplayKey != "" && ob.Key != o.ReplayKey {
			continue
		}
		switch ob.Status {
		case Holds:
			discharged++
			if ob.Rule != "FLOOR" && ob.Rule != "FIXTURE" {
				nontrivial[ob.Key] = true
			}
		case Violated, Undecided:
			if ob.Rule != "FLOOR" && ob.Rule != "FIXTURE" {
				nontrivial[ob.Key] = true
			}
			if what, ok := known[ob.Key]; ok && ob.Status == Violated {
				ob.Known = true
				nKnown++
				lines = append(lines, fmt.Sprintf("KNOWN-FINDING: property=%s %s [%s at %s]", r.Property, what, ob.Key, ob.Pos))
				continue
			}
			bad++
			rp := filepath.Join(replayDir, fmt.Sprintf("%s-%d.json", r.Property, bad))
			if !o.NoEvidence {
				b, _ := json.MarshalIndent(map[string]interface{}{
					"property": r.Property, "obligation": ob, "tier": r.Tier,
					"how_to_replay": "prismcheck -replay " + rp,
				}, "", " ")
				os.WriteFile(rp, b, 0o644)
			}
			lines = append(lines, fmt.Sprintf("  %s [%s] %s at %s: %s", strings.ToUpper(ob.Status), ob.Rule, ob.Key, ob.Pos, ob.Detail))
			lines = append(lines, fmt.Sprintf("VIOLATION property=%s replay=%s", r.Property, rp))
		}
	}

	total := 0
	for _, ob := range r.Obls {
		if ob.Status != Info {
			total++
		}
	}

	if !o.NoEvidence {
		r.writeEvidence(o, evDir, total, discharged, len(nontrivial), bad, nKnown)
	}

	for _, l := range lines {
		fmt.Println(l)
	}
	fmt.Printf("%s tier=%s: %d rule instances, %d hold, %d violated/undecided, %d known findings, %d functions analysed, %.1fs\n",
		r.Property, r.Tier, total, discharged, bad, nKnown, len(r.Functions), time.Since(r.Start).Seconds())
	if bad > 0 {
		return 1
	}
	return 0
}

func (r *Report) writeEvidence(o finishOpts, evDir string, total, discharged, nontrivial, bad, nKnown int) {
	var samples []interface{}
	perRule := map[string]int{}
	ruleCounts := map[string]int{}
	for _, ob := range r.Obls {
		if ob.Status == Info {
			continue
		}
		ruleCounts[ob.Rule]++
		// up to 4 samples per rule, violations always
		if perRule[ob.Rule] < 4 || ob.Status != Holds {
			perRule[ob.Rule]++
			samples = append(samples, ob)
		}
	}
	var notes []Obligation
	for _, ob := range r.Obls {
		if ob.Status == Info {
			notes = append(notes, ob)
		}
	}
	var fns, pkgs []string
	for f := range r.Functions {
		fns = append(fns, f)
	}
	sort.Strings(fns)
	for p := range r.Packages {
		pkgs = append(pkgs, p)
	}
	sort.Strings(pkgs)
	cov := map[string]interface{}{
		"explanation":          r.Explanation,
		"rule":                 r.RuleText,
		"evaluations":          total,
		"distinct_nontrivial":  nontrivial,
		"obligations":          total,
		"discharged":           discharged,
		"samples":              samples,
		"checker_cmd":          o.CheckerCmd,
		"trusted_base":         r.Trusted,
		"rule_instance_counts": ruleCounts,
		"rule_floors":          r.Floors,
		"functions_analysed":   fns,
		"packages_analysed":    pkgs,
		"known_findings":       nKnown,
		"notes":                notes,
		"goarch":               r.Arch,
		"exhaustive":           false,
	}
	for k, v := range r.Extra {
		cov[k] = v
	}
	if r.Assumptions == nil {
		r.Assumptions = []string{}
	}
	if r.Trusted == nil {
		r.Trusted = []string{}
	}
	cov["trusted_base"] = r.Trusted
	ev := map[string]interface{}{
		"property_id": r.Property,
		"tier":        r.Tier,
		"seed":        r.Seed,
		"level":       r.Level,
		"coverage":    cov,
		"assumptions": r.Assumptions,
		"wall_s":      time.Since(r.Start).Seconds(),
		"violations":  bad,
	}
	os.MkdirAll(evDir, 0o755)
	b, _ := json.MarshalIndent(ev, "", " ")
	os.WriteFile(filepath.Join(evDir, r.Property+".json"), b, 0o644)
}

// Assume records an assumption once.
func (r *Report) Assume(a string) {
	for _, x := range r.Assumptions {
		if x == a {
			return
		}
	}
	r.Assumptions = append(r.Assumptions, a)
}
